"""C17 -- rewriter edits are local and keep everything else meaning the same.

Runtime monitoring of the real `meson rewrite` (forked from $VERIF_REPO through vf.runner) on generated
projects (vf.gen.gen_c17) and command sequences, judged against the independent reference view of the project
(vf.ref.refc17 on top of vf.ref.refmeson):

  (a) every touched file still parses (real mparser + reference parser) and no re-printed single-quoted string
      runs over a line break (Syntax.md: such strings need ''');
  (b) the addressed target / keyword / default option has exactly the requested value, `info` agrees with the
      reference view, add-then-remove / remove-then-add round trips hold;
  (c) textual locality: every line outside the statements the command may edit re-appears verbatim, in order;
      an added target only appends;
  (d) every other argument of every addressed call -- and every other call, and every variable -- evaluates
      (reference interpreter; s-expression for what it cannot evaluate) to what it was before, keyword order kept;
  (e) a JSON batch `[c1, c2, c3]` leaves the same files as running c1, c2, c3 one at a time.
Monitors inside the child (vf.monitors.c17_mon): Rewriter.apply_changes spans + replacement texts, AstPrinter
visit methods reached.
"""
from __future__ import annotations

import difflib
import json
import os
import random
import re
import shutil
import sys
import time
import typing as T

from vf import common, runner
from vf.ref import refmeson as R
from vf.ref import refc17 as M
from vf.gen import gen_c17 as G
from vf.monitors import c17_mon

PID = 'C17'
# mechanisms listed with status "known": only these may be used as the classification of a failure; once a finding
# is "fixed" a recurrence is reported under the generic key of the failing oracle
KNOWN_MECHS: T.Set[str] = {f['mechanism'] for f in common.load_known_findings()
                           if f.get('property') == PID and f.get('status') == 'known'}
MPARSER: T.Any = None
MLOG: T.Any = None

REFUSAL_RE = re.compile(r'Unable to find|too compilicated|too complicated|is already defined for the target|'
                        r'Skipping|is already deleted|Cannot add a value|Cannot remove|Unknown options|Unable to set')

# which known mechanisms may explain which failing oracle
RELEVANT = {
    'parse': ['overlapping-edits-of-nested-containers', 'add-target-invalid-identifier', 'add-target-after-unterminated-last-line', 'splice-offsets-python-linebreaks',
              'printer-unescaped-quote', 'printer-drops-parentheses', 'printer-raw-cr-in-string'],
    'raw-newline': ['printer-raw-cr-in-string', 'printer-raw-newline-in-string'],
    'evaluate': ['printer-postprocess-strips-inside-multiline-string', 'overlapping-edits-of-nested-containers', 'splice-offsets-python-linebreaks', 'printer-unescaped-quote', 'printer-drops-parentheses',
                 'printer-mul-over-div-regrouped', 'printer-raw-cr-in-string'],
    'other-arg': ['printer-postprocess-strips-inside-multiline-string', 'overlapping-edits-of-nested-containers', 'splice-offsets-python-linebreaks', 'printer-unescaped-quote', 'printer-drops-parentheses',
                  'printer-mul-over-div-regrouped', 'printer-raw-cr-in-string'],
    'locality': ['overlapping-edits-of-nested-containers', 'splice-offsets-python-linebreaks', 'add-target-after-unterminated-last-line'],
    'other-call': ['splice-offsets-python-linebreaks', 'add-target-after-unterminated-last-line',
                   'printer-unescaped-quote', 'printer-drops-parentheses', 'printer-mul-over-div-regrouped',
                   'printer-raw-cr-in-string'],
    'value': ['printer-postprocess-strips-inside-multiline-string', 'overlapping-edits-of-nested-containers', 'cli-bool-kwarg-false-becomes-true', 'subdir-target-existing-path-rebased', 'printer-unescaped-quote',
              'splice-offsets-python-linebreaks', 'printer-drops-parentheses', 'printer-mul-over-div-regrouped',
              'printer-raw-cr-in-string'],
    'batch': ['splice-offsets-python-linebreaks'],
}


def boot() -> None:
    global MPARSER, MLOG
    common.use_repo()
    runner.preload()
    import mesonbuild.mparser as _mp
    import mesonbuild.mlog as _ml
    MPARSER, MLOG = _mp, _ml


def parse_real(text: str, fname: str) -> T.Optional[str]:
    """None when the real parser accepts the text, else the error."""
    try:
        with MLOG.no_logging():
            MPARSER.Parser(text, fname).parse()
        return None
    except Exception as e:      # MesonException (ParseException) or an internal error: both are "does not parse"
        return f'{type(e).__name__}: {e}'[:300]


# ------------------------------------------------------------------------------------------------
# running one command

def read_tree(d: str) -> T.Dict[str, str]:
    out: T.Dict[str, str] = {}
    for root, _dirs, names in os.walk(d):
        for n in names:
            if n == 'meson.build':
                p = os.path.join(root, n)
                with open(p, encoding='utf-8', errors='surrogateescape') as f:    # universal newlines, as meson reads it
                    out[os.path.relpath(p, d)] = f.read()
    return out


def touch_sources(d: str, m: M.Model, cmd: dict) -> None:
    paths: T.List[str] = []
    for c in m.targets():
        paths += [x for x in m.sources(c) + m.extra(c) if isinstance(x, str)]
    if cmd.get('type') == 'target' and cmd.get('operation') != 'target_add':
        paths += [os.path.normpath(x) for x in cmd.get('sources', [])]
    for p in paths:
        if p.startswith('..') or os.path.isabs(p):
            continue
        fp = os.path.join(d, p)
        try:
            os.makedirs(os.path.dirname(fp), exist_ok=True)
            if not os.path.exists(fp):
                with open(fp, 'w'):
                    pass
        except OSError:
            pass


def run_rewrite(d: str, cmds: T.Sequence[dict], via: str, inside: bool) -> runner.Result:
    clean = [{k: v for k, v in c.items() if k != 'law'} for c in cmds]
    if via == 'cli':
        tail = G.to_cli(clean[0])
        assert tail is not None
    else:
        tail = ['command', json.dumps(clean)]
    if inside:
        argv = ['rewrite', '-V'] + tail
        cwd = d
    else:
        argv = ['rewrite', '-V', '-s', d] + tail
        cwd = os.path.dirname(d)
    return runner.meson(argv, cwd=cwd, monitors=[c17_mon.install], timeout=60)


def info_json(res: runner.Result) -> T.Optional[dict]:
    for text in (res.out, res.err):
        i = text.find('{')
        if i >= 0:
            try:
                return json.loads(text[i:text.rfind('}') + 1])
            except ValueError:
                continue
    return None


def introspect_ids(d: str) -> T.Optional[T.Dict[str, T.Tuple[str, str]]]:
    """Target IDs as the real `meson introspect --targets <dir>/meson.build` reports them: id -> (build file relative
    to the source root, name).  The ID is an opaque handle for the check; which build file it stands for is taken from
    the documented `defined_in` field."""
    res = runner.meson(['introspect', '--targets', os.path.join(d, 'meson.build')], cwd=os.path.dirname(d), timeout=60)
    if res.rc != 0:
        return None
    i = res.out.find('[')
    try:
        data = json.loads(res.out[i:res.out.rfind(']') + 1]) if i >= 0 else None
    except ValueError:
        return None
    if not isinstance(data, list):
        return None
    out: T.Dict[str, T.Tuple[str, str]] = {}
    for t in data:
        try:
            out[t['id']] = (os.path.relpath(os.path.realpath(t['defined_in']), os.path.realpath(d)), t['name'])
        except (KeyError, TypeError):
            return None
    return out


ID_PLACEHOLDER = '@ID|'


def resolve_ids(cmd: dict, ids: T.Mapping[str, T.Tuple[str, str]]) -> T.Optional[dict]:
    """Replace '@ID|<build file>|<name>' in the addressing field of a planned command by the ID meson gave that target."""
    out = dict(cmd)
    for fld in ('target', 'id'):
        v = out.get(fld)
        if isinstance(v, str) and v.startswith(ID_PLACEHOLDER):
            _, f, nm = v.split('|', 2)
            hit = [k for k, (kf, kn) in ids.items() if kf == f and kn == nm]
            if len(hit) != 1:
                return None
            out[fld] = hit[0]
    return out


# ------------------------------------------------------------------------------------------------
# the oracle for one step

class Step:
    """Outcome of judging one command."""

    def __init__(self) -> None:
        self.counts: T.Dict[str, int] = {}
        self.fail: T.Optional[dict] = None     # {'oracle', 'mechanism', 'detail'}
        self.outcome = 'applied'

    def count(self, k: str, n: int = 1) -> None:
        self.counts[k] = self.counts.get(k, 0) + n

    def failed(self, oracle: str, generic: str, detail: dict, expl: T.Sequence[str], direct: T.Optional[str] = None) -> None:
        if self.fail is not None:
            return
        mech = direct if direct in KNOWN_MECHS else None
        if mech is None:
            for e in RELEVANT.get(oracle, []):
                if e in expl and e in KNOWN_MECHS:
                    mech = e
                    break
        self.fail = {'oracle': oracle, 'mechanism': mech or generic, 'detail': detail,
                     'explanations': [e for e in expl if e in KNOWN_MECHS]}
        self.outcome = 'violation'


def _diff(old: str, new: str) -> T.List[str]:
    return [x.rstrip('\n') for x in difflib.unified_diff(old.split('\n'), new.split('\n'), lineterm='', n=1)][:60]


def _kw_order_ok(before: T.Sequence[T.Tuple[str, T.Any]], after: T.Sequence[T.Tuple[str, T.Any]], skip: T.Set[str]) -> bool:
    b = [k for k, _ in before if k not in skip]
    a = [k for k, _ in after if k not in skip]
    return b == a


def _others_equal(b: M.CallRec, a: M.CallRec, skip_kw: T.Set[str], pos_from: int = 10 ** 6) -> T.Optional[dict]:
    """Other arguments of the addressed call: positional [0:pos_from) equal, keywords outside skip_kw equal in
    value and relative order."""
    for i, (x, y) in enumerate(zip(b.pos[:pos_from], a.pos[:pos_from])):
        if not M.ceq(x, y):
            return {'arg': f'positional {i}', 'before': x, 'after': y}
    if pos_from >= 10 ** 6 and len(b.pos) != len(a.pos):
        return {'arg': 'positional count', 'before': len(b.pos), 'after': len(a.pos)}
    bk, ak = b.kwd(), a.kwd()
    for k, v in b.kw:
        if k in skip_kw:
            continue
        if k not in ak:
            return {'arg': k, 'before': v, 'after': '<missing>'}
        if not M.ceq(v, ak[k]):
            return {'arg': k, 'before': v, 'after': ak[k]}
    for k, v in a.kw:
        if k not in skip_kw and k not in bk:
            return {'arg': k, 'before': '<missing>', 'after': v}
    if not _kw_order_ok(b.kw, a.kw, skip_kw):
        return {'arg': 'keyword order', 'before': [k for k, _ in b.kw], 'after': [k for k, _ in a.kw]}
    return None


def _literal_occurrences(m: M.Model, rec: M.CallRec, stmts: T.Sequence[M.Stmt], what: str) -> T.Dict[str, int]:
    """How often each file is WRITTEN (string literal) in the source arguments of the addressed call and in the
    statements that feed them -- in the text, whatever configuration is alive.  A literal is resolved relative to
    the target's directory, or to the directory of the statement's file when it sits in a files() call."""
    out: T.Dict[str, int] = {}
    s0 = m.stmt_of(rec)

    def scan(n: T.Any, base: str) -> None:
        if isinstance(n, R.Node):
            if n.kind == 'str':
                k = os.path.normpath(os.path.join(base, n.a[0]))
                out[k] = out.get(k, 0) + 1
                return
            b2 = base
            if n.kind == 'call' and n.a[0] == 'files':
                b2 = '\0files'
            for x in n.a:
                scan(x, b2)
        elif isinstance(n, (tuple, list)):
            for x in n:
                scan(x, base)

    def scan_stmt(nodes: T.Any, file: str) -> None:
        fdir = os.path.dirname(file)
        tmp: T.Dict[str, int] = {}
        nonlocal out
        keep, out = out, tmp
        scan(nodes, rec.subdir)
        out = keep
        for k, v in tmp.items():
            if k.startswith('\0files') or '\0files' in k:
                k = os.path.normpath(os.path.join(fdir, k.split('\0files', 1)[1].lstrip('/')))
            out[k] = out.get(k, 0) + v
    for st_ in stmts:
        if s0 is not None and st_ is s0:
            scan_stmt(M.source_nodes(rec, what), st_.file)
        elif st_.kind in ('assign', 'plusassign'):
            scan_stmt(st_.node.a[1], st_.file)
    return out


# ---- classifiers for the known findings about source lists reached through an indirection ---------------------
# Each answers "is THIS the listed mechanism?" from the pre-state tree and the produced text; anything else that goes
# wrong on such a project keeps the generic key of the failing oracle.

def _lost_dataflow(before: M.Model, after: M.Model, nodes: T.Sequence[T.Any], allowed: T.Sequence[M.Stmt]) -> T.Optional[str]:
    """A call other than the addressed one changed.  Known: the variable the rewriter edited flows into that call ONLY
    through the value branches of a ternary / only through a foreach loop (the rewriter's dataflow graph has no such
    edges, so it believes that the list is not shared)."""
    edited = {s.var for s in allowed if s.var and not M.ceq(before.variables.get(s.var), after.variables.get(s.var))}
    if not edited or edited & M.reach_names(before, nodes, ternary=False, foreach=False):
        return None
    if edited & M.reach_names(before, nodes, ternary=True, foreach=False):
        return 'dataflow-not-followed-through-ternary'
    if edited & M.reach_names(before, nodes, ternary=False, foreach=True):
        return 'dataflow-not-followed-through-foreach'
    return None


def _literal_reach(m: M.Model, rec: M.CallRec, what: str, files: T.Set[str], ternary: bool, foreach: bool) -> bool:
    """Are all `files` written as string literals somewhere data flows from into the addressed source argument?"""
    nodes = M.source_nodes(rec, what)
    names = M.reach_names(m, nodes, ternary=ternary, foreach=foreach)
    roots: T.List[T.Any] = list(nodes)
    for sts in m.stmts.values():
        for s in sts:
            if s.var in names:
                roots.append(s.node.a[1])
            elif s.call is not None and s.call.a[0] == 'set_variable':
                roots.append(s.call)
    seen = {os.path.normpath(os.path.join(rec.subdir, n.a[0])) for r_ in roots for n in M._walk_flow(r_, ternary) if n.kind == 'str'}
    return files <= seen


def _unfound_behind_lost_dataflow(m: M.Model, rec: M.CallRec, what: str, left: T.Set[str]) -> T.Optional[str]:
    """`rm` answered "Unable to find" for files the reference sees in the target.  Known: they are written where the data
    reaches the target only through a ternary / a foreach loop."""
    if not left or _literal_reach(m, rec, what, left, False, False):
        return None
    if _literal_reach(m, rec, what, left, True, False):
        return 'dataflow-not-followed-through-ternary'
    if _literal_reach(m, rec, what, left, False, True):
        return 'dataflow-not-followed-through-foreach'
    return None


def _getvar_arguments_grew(before: M.Model, after: M.Model, requested: T.Sequence[str]) -> bool:
    """A requested file is now written among the ARGUMENTS of a get_variable() call (anywhere in the project: the
    after-state may not even evaluate -- two files make it a call with three arguments)."""
    base = {os.path.basename(x) for x in requested}

    def count(m: M.Model) -> int:
        n = 0
        for sts in m.stmts.values():
            for s in sts:
                for x in M.walk(s.node):
                    if x.kind == 'call' and x.a[0] == 'get_variable':
                        # (the rewriter sorts the arguments it touched: the file may even end up in FRONT of the variable name)
                        n += sum(1 for y in x.a[1] if y.kind == 'str' and os.path.basename(y.a[0]) in base)
        return n
    return count(after) > count(before)


def _misplaced_add(before: M.Model, after: M.Model, rec: M.CallRec, rec2: M.CallRec, allowed: T.Sequence[M.Stmt],
                   what: str, requested: T.Sequence[str]) -> T.Optional[str]:
    """`add` changed the text, but the target did not get the file.  Known places where it lands instead:
    the argument list of a get_variable() call, and an array / dict literal of which the target reads ONE element
    through an index expression (the file lands in the container or in another element of it)."""
    base = {os.path.basename(x) for x in requested}
    if _getvar_arguments_grew(before, after, requested):
        return 'add-appended-to-get-variable-arguments'
    # variables that are read ONLY as the object of an index expression
    indexed: T.Set[str] = set()
    plain: T.Set[str] = set()

    def scan(n: T.Any) -> None:
        if isinstance(n, R.Node):
            if n.kind == 'index' and n.a[0].kind == 'id':
                indexed.add(n.a[0].a[0])
                scan(n.a[1])
                return
            if n.kind == 'id':
                plain.add(n.a[0])
            elif n.kind == 'call' and n.a[0] == 'get_variable' and n.a[1] and n.a[1][0].kind == 'str':
                plain.add(n.a[1][0].a[0])
            for x in n.a:
                scan(x)
        elif isinstance(n, (tuple, list)):
            for x in n:
                scan(x)
    scan(M.source_nodes(rec, what))
    for s in allowed:
        if s.var:
            scan(s.node.a[1])

    def hits(m: M.Model, var: str) -> int:
        return sum(1 for sts in m.stmts.values() for s in sts if s.var == var and s.node.a[1].kind in ('array', 'dict')
                   for y in M.walk(s.node.a[1]) if y.kind == 'str' and os.path.basename(y.a[0]) in base)
    for v in sorted(indexed - plain):
        if hits(after, v) > hits(before, v):
            return 'add-lands-in-container-read-through-index'
    return None


def _norm_defopt(x: T.Any) -> T.Any:
    if isinstance(x, str) and '=' in x:
        k, v = x.split('=', 1)
        return f'{k}={v.lower()}' if v.lower() in ('true', 'false') else x
    return x


def _node_of(rec: M.CallRec, key: str) -> T.Optional[R.Node]:
    for k, n in rec.kwn:
        if k == key:
            return n
    return None


def judge(before: M.Model, new_files: T.Dict[str, str], cmd: dict, via: str, res: runner.Result, inside_exist: bool) -> Step:
    st = Step()
    log = res.err + '\n' + res.out
    changed = sorted(f for f in set(before.files) | set(new_files) if before.files.get(f) != new_files.get(f))
    op = cmd['operation']
    typ = cmd['type']
    kind = f'{typ}:{op}'
    st.count(f'cmd:{kind}:{via}')

    def witness(extra: dict) -> dict:
        w = {'cmd': cmd, 'via': via, 'rc': res.rc, 'changed': changed,
             'diff': {f: _diff(before.files.get(f, ''), new_files.get(f, '')) for f in changed[:2]},
             'log_tail': log[-600:]}
        w.update(extra)
        return w

    # ---- addressed call and the statements the command may touch --------------------------------
    recs: T.List[M.CallRec] = []
    allowed: T.List[M.Stmt] = []
    what = 'sources' if op in ('src_add', 'src_rm') else 'extra_files'
    if typ == 'target' and op != 'target_add':
        recs = before.find_target(cmd['target'])
    elif typ == 'kwargs':
        if cmd['function'] == 'target':
            recs = before.find_target(cmd['id'])
        elif cmd['function'] == 'dependency':
            recs = before.find_dep(cmd['id'])
        else:
            p = before.project()
            recs = [p] if p is not None else []
    elif typ == 'default_options':
        p = before.project()
        recs = [p] if p is not None else []
    rec = recs[0] if len(recs) == 1 else None
    if rec is not None:
        s0 = before.stmt_of(rec)
        if s0 is not None:
            allowed.append(s0)
        if typ == 'target' and op in ('src_add', 'src_rm', 'extra_files_add', 'extra_files_rm'):
            allowed += M.feeding_statements(before, M.source_nodes(rec, what))
    extra_vals: T.List[str] = []
    if typ == 'target':
        extra_vals += [os.path.basename(x) for x in cmd.get('sources', [])] + list(cmd.get('sources', []))
    elif typ == 'kwargs':
        for v in cmd.get('kwargs', {}).values():
            extra_vals += [x for x in M.listify(v) if isinstance(x, str)]
    expl_cache: T.Dict[T.Optional[str], T.List[str]] = {}

    def expl(focus_arg: T.Optional[str] = None) -> T.List[str]:
        """Known mechanisms that could explain a failure; focus_arg = the argument of the addressed call that was
        observed to change (the printer explanations are then looked for in that argument only)."""
        if focus_arg not in expl_cache:
            focus = None
            if focus_arg is not None and rec is not None:
                node: T.Any = None
                if focus_arg.startswith('positional ') and focus_arg[11:].isdigit() and int(focus_arg[11:]) < len(rec.posn):
                    node = rec.posn[int(focus_arg[11:])]
                else:
                    node = _node_of(rec, focus_arg)
                s1 = before.stmt_of(rec)
                if node is not None and s1 is not None:
                    focus = [(s1, node)]
            e = M.explanations(before, new_files, allowed, focus)
            for v in extra_vals:
                # a requested value / file name with a quote: it is in the new text, and not in its escaped form
                esc = v.replace('\\', '\\\\')
                if "'" in v and any(esc + "'" in new_files.get(f, '') and esc.replace("'", "\\'") + "'" not in new_files.get(f, '')
                                    for f in changed):
                    if 'printer-unescaped-quote' not in e:
                        e.append('printer-unescaped-quote')
            if typ == 'target' and op == 'target_add':
                if not re.fullmatch(r'[A-Za-z_][A-Za-z0-9_ -]*', cmd['target']):
                    e.append('add-target-invalid-identifier')
                tf = os.path.normpath(os.path.join(cmd.get('subdir', ''), 'meson.build'))
                if before.files.get(tf, '\n')[-1:] != '\n':
                    e.append('add-target-after-unterminated-last-line')
            if typ == 'target' and op in ('src_rm', 'extra_files_rm') and len(cmd.get('sources', [])) > 1 \
                    and M.nested_literal_containers(allowed, cmd['sources']):
                e.append('overlapping-edits-of-nested-containers')
            expl_cache[focus_arg] = e
        return expl_cache[focus_arg]

    # ---- failed command --------------------------------------------------------------------------
    if res.timed_out:
        st.outcome = 'timeout'
        return st
    if res.rc != 0:
        internal = res.traceback or 'This is a Meson bug' in log or res.rc not in (1, 2)
        st.outcome = 'refused:internal-error' if internal else 'refused:error'
        st.count('refusal:' + _signature(log, internal))
        st.count('oracle:failed-command-leaves-files')
        if changed:
            st.failed('failed-modified', 'failed-command-modified-files', witness({}), expl())
        return st

    # ---- info ------------------------------------------------------------------------------------
    if op == 'info':
        st.count('oracle:info-does-not-modify')
        if changed:
            st.failed('locality', 'info-modified-files', witness({}), expl())
            return st
        if typ == 'target' and rec is not None:
            check_info(st, before, rec, info_json(res), witness)
        elif typ == 'kwargs' and rec is not None:
            check_kwargs_info(st, rec, cmd, info_json(res), witness)
        st.outcome = 'info'
        return st

    if rec is None and not (typ == 'target' and op == 'target_add'):
        st.outcome = 'refused:unresolved'
        if changed:
            st.failed('value', 'unresolvable-id-but-modified', witness({'matches': len(recs)}), expl())
        return st

    # ---- (a) parse -------------------------------------------------------------------------------
    for f in changed:
        st.count('oracle:parse')
        err = parse_real(new_files.get(f, ''), f)
        if err is not None:
            st.failed('parse', 'unparseable-after-edit', witness({'file': f, 'real_parser': err}), expl())
            return st
    after = M.Model(new_files, before.config)
    if after.parse_error is not None:
        f, e = after.parse_error
        st.failed('parse', 'unparseable-after-edit', witness({'file': f, 'reference_parser': str(e)}), expl())
        return st
    for f in changed:
        st.count('oracle:no-line-break-in-quoted-string')
        nb = _strings_with_newline(before.files.get(f, ''))
        na = _strings_with_newline(new_files.get(f, ''))
        if na > nb:
            st.failed('raw-newline', 'line-break-in-single-quoted-string', witness({'file': f}), expl())
            return st
    st.count('oracle:after-state-evaluates')
    if after.error is not None:
        direct_ev = None
        if typ == 'target' and op in ('src_add', 'extra_files_add') and _getvar_arguments_grew(before, after, cmd.get('sources', [])):
            direct_ev = 'add-appended-to-get-variable-arguments'
        st.failed('evaluate', 'after-state-does-not-evaluate', witness({'reference_error': str(after.error)}), expl(), direct_ev)
        return st

    # ---- (c) textual locality --------------------------------------------------------------------
    addfile = os.path.normpath(os.path.join(cmd.get('subdir', ''), 'meson.build')) if op == 'target_add' else None
    for f in sorted(set(before.files) | set(new_files)):
        old, new = before.files.get(f, ''), new_files.get(f, '')
        if old == new:
            continue
        st.count('oracle:locality')
        if f == addfile:
            if not new.startswith(old):
                st.failed('locality', 'add-target-did-not-only-append', witness({'file': f}), expl())
                return st
            continue
        ranges = [(s.line, s.end_line) for s in allowed if s.file == f]
        if op == 'target_rm':
            # removing a statement may take the blank lines that follow it (they are not statements)
            ol = old.split('\n')
            ext = []
            for a, b in ranges:
                while b < len(ol) and not ol[b].strip():
                    b += 1
                ext.append((a, b))
            ranges = ext
            # the removal may leave the statement's own indentation in front of the next line: Meson does not
            # give indentation a meaning, so for this command lines are compared without their leading blanks
            old = '\n'.join(x.lstrip(' \t') for x in old.split('\n'))
            new = '\n'.join(x.lstrip(' \t') for x in new.split('\n'))
        bad = M.locality(old, new, ranges)
        if bad is not None:
            st.failed('locality', 'unrelated-lines-changed', witness({'file': f, 'where': bad, 'allowed': ranges}), expl())
            return st
    if not changed:
        st.count('oracle:locality')

    # ---- (b) + (d) semantics ---------------------------------------------------------------------
    kb, ka = M.keyed_calls(before), M.keyed_calls(after)
    akey = None
    if rec is not None:
        for k, c in kb.items():
            if c is rec:
                akey = k
    for k, c in kb.items():
        if k == akey:
            continue
        st.count('oracle:other-calls-unchanged')
        c2 = ka.get(k)
        if c2 is None:
            st.failed('other-call', 'other-call-disappeared', witness({'call': c.brief()}), expl())
            return st
        d = _others_equal(c, c2, set())
        if d is not None:
            # the argument that changed (a known-finding classification looks at the data flowing into THAT argument)
            arg = str(d['arg'])
            argn: T.Optional[R.Node] = None
            if arg.startswith('positional ') and arg[11:].isdigit() and int(arg[11:]) < len(c.posn):
                argn = c.posn[int(arg[11:])]
            elif arg not in ('positional count', 'keyword order'):
                argn = _node_of(c, arg)
            st.failed('other-call', 'other-call-changed', witness({'call': c.brief(), 'difference': d}), expl(),
                      _lost_dataflow(before, after, [argn], allowed) if argn is not None else None)
            return st
    extra_keys = [k for k in ka if k not in kb]
    if op == 'target_add':
        st.count('oracle:value:target_add')
        news = [ka[k] for k in extra_keys]
        exp_src = sorted(os.path.normpath(os.path.join(cmd.get('subdir', ''), s)) for s in cmd.get('sources', []))
        good = [c for c in news if c.func == cmd.get('target_type', 'executable') and c.name == cmd['target']
                and c.subdir == cmd.get('subdir', '') and sorted(map(str, after.sources(c))) == exp_src]
        if len(news) != 1 or len(good) != 1:
            st.failed('value', 'added-target-not-as-requested', witness({'new_calls': [c.brief() for c in news]}), expl())
        return st
    if extra_keys:
        st.failed('other-call', 'unrequested-call-appeared', witness({'calls': [ka[k].brief() for k in extra_keys]}), expl())
        return st
    assert rec is not None and akey is not None
    # variables: everything not assigned in an allowed statement keeps its value
    skipvars = {s.var for s in allowed if s.var}
    st.count('oracle:variables-unchanged')
    edited_vars = {v for v in skipvars if v in after.variables and not M.ceq(before.variables.get(v), after.variables[v])}
    for name, val in before.variables.items():
        if name in skipvars:
            continue
        if name not in after.variables or not M.ceq(val, after.variables[name]):
            if name in after.variables and edited_vars & M.reach_names(before, [R.Node('id', 0, 0, name)], ternary=True, foreach=True):
                # a variable computed FROM the list the command had to edit (`al = srcs`, left behind by a removed
                # target, say): it follows the list.  Every call was already found unchanged above.
                st.count('oracle:variable-downstream-of-the-edited-list')
                continue
            st.failed('other-call', 'variable-changed', witness({'variable': name, 'before': val,
                                                                 'after': after.variables.get(name, '<missing>')}), expl())
            return st
    if op == 'target_rm':
        st.count('oracle:value:target_rm')
        if akey in ka:
            st.failed('value', 'target-not-removed', witness({}), expl())
        return st
    rec2 = ka.get(akey)
    if rec2 is None:
        st.failed('value', 'addressed-call-disappeared', witness({'call': rec.brief()}), expl())
        return st

    refusal = bool(REFUSAL_RE.search(log))
    if typ == 'target':
        view_b = before.sources(rec) if what == 'sources' else before.extra(rec)
        view_a = after.sources(rec2) if what == 'sources' else after.extra(rec2)
        lb, la = sorted(json.dumps(x, sort_keys=True) for x in view_b), sorted(json.dumps(x, sort_keys=True) for x in view_a)
        if any(s.conditional for s in allowed):
            # The sources depend on the configuration (a feeding variable is assigned inside an if/foreach): the
            # rewriter cannot know whether a file is already there in THIS configuration, and Meson ignores a
            # source listed twice (BuildTarget.process_sourcelist) -- compare as sets, not as multisets.
            st.count('oracle:value:configuration-dependent-sources-as-set')
            as_set = True
        else:
            as_set = False
        sb, sa = set(lb), set(la)
        want = {json.dumps(os.path.normpath(x)) for x in cmd.get('sources', [])}
        st.count(f'oracle:value:{op}')
        if op in ('src_add', 'extra_files_add'):
            exp_l = sorted(lb + [x for x in want if x not in sb])      # as a multiset: nothing is added twice
        else:
            exp_l = [x for x in lb if x not in want]
        exp = set(exp_l)
        alt_l = list(lb)
        if op in ('src_rm', 'extra_files_rm'):
            for x in want:            # a file listed twice: removing one occurrence is as good a reading as removing all
                if x in alt_l:
                    alt_l.remove(x)
        # known finding subdir-target-existing-path-rebased, simulated exactly: a path that exists relative to the cwd
        # is first made relative to the target's subdir and then read as relative to the source root
        direct = None
        if inside_exist and rec.subdir:
            bw = {json.dumps(os.path.normpath(os.path.relpath(os.path.normpath(x), rec.subdir))) for x in cmd.get('sources', [])}
            if op in ('src_add', 'extra_files_add'):
                bug_l = sorted(lb + [x for x in bw if x not in sb])
            else:
                bug_l = [x for x in lb if x not in bw]
            if la == bug_l and bug_l != exp_l:
                direct = 'subdir-target-existing-path-rebased'
        if as_set:
            # expectations are still formed on the multisets (so that "one occurrence of a file listed twice was
            # removed" stays an accepted reading), only the comparison ignores how often a file is listed
            ok_state = set(la) == set(exp_l) or (op in ('src_rm', 'extra_files_rm') and set(la) == set(alt_l))
            if not ok_state and op in ('src_rm', 'extra_files_rm') and set(exp_l) <= set(la) and set(la) - set(exp_l) <= want:
                # "a file listed twice: removing one occurrence is an accepted reading" -- the rewriter cannot know the
                # configuration, so "listed twice" is decided on the TEXT (the occurrences that can reach the target in
                # any configuration), not on the occurrences alive in this configuration: every requested file that is
                # still there must have been written at least twice before and at least once less often now.
                ob = _literal_occurrences(before, rec, allowed, what)
                oa = _literal_occurrences(after, rec2, [x for x in [after.stmt_of(rec2)] if x is not None]
                                          + M.feeding_statements(after, M.source_nodes(rec2, what)), what)
                still = [json.loads(x) for x in set(la) - set(exp_l)]
                if all(isinstance(f, str) and ob.get(f, 0) >= 2 and oa.get(f, 0) < ob.get(f, 0) for f in still):
                    st.count('oracle:value:one-of-several-textual-occurrences-removed')
                    ok_state = True
        else:
            ok_state = la == exp_l or (op in ('src_rm', 'extra_files_rm') and la == alt_l)
        if not ok_state:
            # the one refusal the rewriter announces for a file that IS in the target: the string is shared with another
            # target ("too compilicated").  "Unable to find" a file the reference sees in the target is not a refusal.
            shared_refusal = 'too compilicated' in log or 'too complicated' in log
            kept = sa & want
            # "Unable to find" must be said about a file that stayed (a command naming one shared file -- refused as
            # "too complicated" -- and one absent file logs both lines: the absent file's line explains nothing)
            unfound_kept = any(f'Unable to find source {f}' in log or f'Unable to find extra file {f}' in log
                               for f in cmd.get('sources', [])
                               if json.dumps(os.path.normpath(os.path.join(rec.subdir, f))) in kept or json.dumps(f) in kept)
            if direct is None and op in ('src_rm', 'extra_files_rm') and 'Unable to find' in log and kept \
                    and (unfound_kept or not shared_refusal) \
                    and set(la) == {x for x in lb if x not in want or x in kept}:
                # known finding: the array literal that holds the file reaches the target along TWO dataflow paths
                # (directly, and through a `var += ...` inside an if/foreach block): Rewriter.get_relto() gives up
                left = {json.loads(x) for x in sa & want if isinstance(json.loads(x), str)}
                plus_in_block = {s.var for s in allowed if s.kind == 'plusassign' and s.conditional}
                holders = [s for s in allowed if s.kind == 'assign' and s.var in plus_in_block and not s.conditional
                           and any(n.kind == 'str' and os.path.normpath(os.path.join(rec.subdir, n.a[0])) in left
                                   for n in M.walk(s.node))]
                if left and holders:
                    direct = 'rm-array-reaching-target-by-two-paths-not-found'
                else:
                    direct = _unfound_behind_lost_dataflow(before, rec, what, left)
            if direct is None and op in ('src_add', 'extra_files_add') and changed and not (want - sb) <= sa:
                direct = _misplaced_add(before, after, rec, rec2, allowed, what, cmd.get('sources', []))
            if direct is None and op in ('src_rm', 'extra_files_rm') and shared_refusal and sa - exp <= want and exp <= sa \
                    and len(la) <= len(lb):
                st.outcome = 'refused:documented'
            else:
                st.failed('value', f'{what}-not-as-requested', witness({'before': lb, 'after': la, 'expected': exp_l}), expl(), direct)
                return st
        law = cmd.get('law')
        if law:
            st.count(f'oracle:roundtrip:{law}')
        skip = {'sources'} if what == 'sources' else {'extra_files'}
        d = _others_equal(rec, rec2, skip, pos_from=1 if what == 'sources' else 10 ** 6)
        st.count('oracle:other-args-unchanged')
        if d is not None:
            st.failed('other-arg', 'other-argument-changed', witness({'call': rec.brief(), 'difference': d}), expl(d['arg']))
        return st

    # kwargs / default_options
    fn = cmd['function'] if typ == 'kwargs' else 'project'
    table = G.RW_KW[fn]
    touched_keys: T.Set[str] = set()
    bk, ak = rec.kwd(), rec2.kwd()
    if typ == 'default_options':
        touched_keys = {'default_options'}
        st.count(f'oracle:value:default_options:{op}')
        old = bk.get('default_options')
        node = _node_of(rec, 'default_options')
        modifiable = node is None or node.kind in ('array', 'str', 'fstr')
        keys = list(cmd['options'])
        oldl = M.listify(old) if old is not None else []
        def hit(x: T.Any) -> bool:
            return isinstance(x, str) and any(x.startswith(k + '=') for k in keys)
        kept = [x for x in oldl if not hit(x)]
        # an entry that is not a plain string literal is out of the rewriter's reach (it matches literals only)
        literal = [True] * len(oldl)
        if node is not None and node.kind == 'array' and len(node.a[0]) == len(oldl):
            literal = [x.kind == 'str' for x in node.a[0]]
        kept_lit = [x for x, lit in zip(oldl, literal) if not (lit and hit(x))]
        new_entries = [f'{k}={cmd["options"][k]}' for k in sorted(keys)] if op == 'set' else []
        exp_l = [_norm_defopt(x) for x in kept + new_entries]
        exp_l2 = [_norm_defopt(x) for x in kept_lit + new_entries]
        got = ak.get('default_options')
        got_l = [_norm_defopt(x) for x in (M.listify(got) if got is not None else [])]
        if got_l != exp_l and got_l != exp_l2:
            if not modifiable and refusal and M.ceq(old, got):
                st.outcome = 'refused:documented'
            else:
                direct = None
                rest = [lit for x, lit in zip(oldl, literal) if not (lit and hit(x))]
                if op == 'set' and rest == [False] and got_l == [_norm_defopt(x) for x in kept_lit] and 'too complex' in log:
                    # removing the old entry left ONE element, and it is not a string literal: MTypeList.get_node()
                    # collapses the array to that bare expression, which the following "add" cannot modify
                    direct = 'default-options-set-lost-after-array-collapse'
                st.failed('value', 'default-options-not-as-requested', witness({'before': old, 'after': got, 'expected': exp_l}),
                          expl('default_options'), direct)
                return st
    else:
        for k, v in cmd.get('kwargs', {}).items():
            touched_keys.add(k)
            ktyp = table.get(k)
            st.count(f'oracle:value:kwargs:{op}')
            old, got = bk.get(k), ak.get(k)
            node_b, node_a = _node_of(rec, k), _node_of(rec2, k)
            if op == 'delete':
                if k in ak:
                    st.failed('value', 'kwarg-not-deleted', witness({'key': k, 'after': got}), expl())
                    return st
                continue
            if op == 'set':
                if ktyp == 'bool':
                    want_v: T.Any = (v.lower() == 'true') if isinstance(v, str) else bool(v)
                    okv = got is want_v
                    direct = None
                    if not okv and via == 'cli' and isinstance(want_v, bool) and want_v is False and got is True:
                        direct = 'cli-bool-kwarg-false-becomes-true'
                    if not okv:
                        st.failed('value', 'kwarg-not-as-requested', witness({'key': k, 'requested': v, 'after': got}), expl(), direct)
                        return st
                elif ktyp == 'str':
                    if not (isinstance(got, str) and got == str(v)):
                        st.failed('value', 'kwarg-not-as-requested', witness({'key': k, 'requested': v, 'after': got}), expl())
                        return st
                elif ktyp == 'strlist':
                    if got is None or M.listify(got) != M.listify(v):
                        st.failed('value', 'kwarg-not-as-requested', witness({'key': k, 'requested': v, 'after': got}), expl())
                        return st
                elif ktyp == 'idlist':
                    ids = M.listify(v)
                    sx = R.sexpr(node_a) if node_a is not None else ''
                    forms = {'(array ' + ' '.join(f'(id {i})' for i in ids) + ')'}
                    if len(ids) == 1:
                        forms.add(f'(id {ids[0]})')
                    if sx not in forms:
                        st.failed('value', 'kwarg-not-as-requested', witness({'key': k, 'requested': v, 'after_sexpr': sx}), expl())
                        return st
                continue
            # add / remove on list-typed keys
            vl = M.listify(v)
            if ktyp == 'idlist':
                def items(n: T.Optional[R.Node]) -> T.Optional[T.List[str]]:
                    if n is None:
                        return []
                    if n.kind == 'array':
                        return [R.sexpr(x) for x in n.a[0]]
                    return [R.sexpr(n)]
                ib, ia = items(node_b), items(node_a)
                modifiable = node_b is None or node_b.kind in ('array', 'id')
                add = [f'(id {i})' for i in vl]
                exp_i = (ib or []) + add if op == 'add' else [x for x in (ib or []) if x not in add]
                if ia != exp_i:
                    if not modifiable and refusal and ia == ib:
                        st.outcome = 'refused:documented'
                    else:
                        st.failed('value', f'kwarg-{op}-not-as-requested', witness({'key': k, 'before': ib, 'after': ia, 'expected': exp_i}), expl(k))
                        return st
                continue
            if ktyp != 'strlist':
                # add/remove on a scalar keyword: the rewriter documents a warning and no change
                if not M.ceq(old, got):
                    st.failed('value', f'kwarg-{op}-on-scalar-changed-it', witness({'key': k, 'before': old, 'after': got}), expl())
                    return st
                st.outcome = 'refused:documented'
                continue
            modifiable = node_b is None or node_b.kind in ('array', 'str', 'fstr')
            oldl = M.listify(old) if old is not None else []
            gotl = M.listify(got) if got is not None else []
            if op == 'add':
                exps = [oldl + vl]
            else:
                lit_eq = set()
                if node_b is not None and node_b.kind == 'array':
                    lit_eq = {i for i, x in enumerate(node_b.a[0]) if x.kind == 'str' and x.a[0] in vl}
                elif node_b is not None and node_b.kind == 'str' and node_b.a[0] in vl:
                    lit_eq = {0}
                exps = [[x for i, x in enumerate(oldl) if i not in lit_eq],
                        [x for x in oldl if x not in vl]]
            if not any(M.ceq(gotl, e) for e in exps):
                if not modifiable and refusal and M.ceq(old, got):
                    st.outcome = 'refused:documented'
                else:
                    st.failed('value', f'kwarg-{op}-not-as-requested', witness({'key': k, 'before': old, 'after': got, 'expected': exps[0]}), expl(k))
                    return st
    st.count('oracle:other-args-unchanged')
    d = _others_equal(rec, rec2, touched_keys)
    if d is not None:
        st.failed('other-arg', 'other-argument-changed', witness({'call': rec.brief(), 'difference': d}), expl(d['arg']))
    return st


def _signature(log: str, internal: bool) -> str:
    lines = [x.strip() for x in log.split('\n') if x.strip()]
    pick = ''
    if internal:
        for x in lines:
            if re.match(r'^[A-Za-z_.]*(Error|Exception)\b', x):
                pick = x
        for i, x in enumerate(lines):
            if x.startswith('File "') and 'mesonbuild' in x:
                where = re.sub(r'^File ".*mesonbuild/', '', x)
                where = re.sub(r'", line \d+, in ', ':', where)
        pick = (pick or 'internal') + ' @' + (where if 'where' in dir() else '?')
    else:
        for x in lines:
            if 'ERROR' in x:
                pick = x
    pick = re.sub(r'/[^ ]*/', '', pick)
    pick = re.sub(r"'[^']*'|\d+", '_', pick)
    return pick[:90] or 'rc!=0'


def _strings_with_newline(text: str) -> int:
    try:
        return sum(1 for t in R.tokenize(text) if t.kind in ('string', 'fstring') and '\n' in t.text)
    except R.RefError:
        return 0


def check_info(st: Step, m: M.Model, rec: M.CallRec, info: T.Optional[dict], witness: T.Callable[[dict], dict]) -> None:
    st.count('oracle:info')
    if not info or 'target' not in info:
        st.failed('value', 'info-missing', witness({'info': info}), [])
        return
    ident = witness({}).get('cmd', {}).get('target')
    if ident in m.target_ids and ident in info['target']:
        st.count('oracle:info-addressed-by-id')
        ents = [info['target'][ident]] if info['target'][ident].get('name') == rec.name else []
    else:
        ents = [v for v in info['target'].values() if v.get('name') == rec.name]
    if len(ents) != 1:
        st.failed('value', 'info-missing', witness({'info': info}), [])
        return
    for field, ref in (('sources', m.sources(rec)), ('extra_files', m.extra(rec))):
        if any(not isinstance(x, str) for x in ref):
            st.count('info:reference-unknown')
            continue
        got = [os.path.normpath(x) for x in ents[0].get(field, [])]
        if 'unknown' in got:
            st.count('info:rewriter-unknown')
            if not set(x for x in got if x != 'unknown') <= set(ref):
                st.failed('value', 'info-disagrees', witness({'field': field, 'info': got, 'reference': ref}), [])
            continue
        if sorted(got) != sorted(ref):
            st.failed('value', 'info-disagrees', witness({'field': field, 'info': got, 'reference': ref}), [])
            return


def check_kwargs_info(st: Step, rec: M.CallRec, cmd: dict, info: T.Optional[dict], witness: T.Callable[[dict], dict]) -> None:
    """`kwargs info`: every keyword is listed; a keyword whose value is a plain literal (or an array of plain
    literals) is reported with that value."""
    st.count('oracle:kwargs-info')
    key = f'{cmd["function"]}#{cmd["id"]}'
    data = (info or {}).get('kwargs', {}).get(key)
    if not isinstance(data, dict):
        st.failed('value', 'info-missing', witness({'info': info}), [])
        return
    if sorted(data) != sorted(k for k, _ in rec.kw):
        st.failed('value', 'info-disagrees', witness({'info_keys': sorted(data), 'reference_keys': sorted(k for k, _ in rec.kw)}), [])
        return
    for (k, v), (_k, n) in zip(rec.kw, rec.kwn):
        lit = n.kind in ('str', 'bool', 'int') or (n.kind == 'array' and all(x.kind in ('str', 'bool', 'int') for x in n.a[0]))
        if lit and not M.ceq(data[k], v):
            st.failed('value', 'info-disagrees', witness({'key': k, 'info': data[k], 'reference': v}), [])
            return


# ------------------------------------------------------------------------------------------------
# one sequence on one project

def run_sequence(root: str, tag: str, files: T.Dict[str, str], pool: T.Sequence[str], rng: random.Random,
                 planned: T.Optional[T.List[dict]], maxlen: int, inside_exist: bool, force_via: T.Optional[str] = None,
                 do_batch: bool = True, configs: T.Optional[T.Sequence[T.Mapping[str, T.Any]]] = None,
                 with_ids: bool = False) -> dict:
    """configs: the configurations (values of get_option()) the project is judged in; the first one is the primary
    configuration (commands are generated from its model), every step is judged again in each of the others."""
    out: T.Dict[str, T.Any] = {'counts': {}, 'violations': [], 'samples': [], 'cases': [], 'notes': []}
    cfgs = [dict(c) for c in (configs or [{}])]

    def count(k: str, n: int = 1) -> None:
        out['counts'][k] = out['counts'].get(k, 0) + n
    d = os.path.join(root, tag)
    shutil.rmtree(d, ignore_errors=True)
    runner.write_tree(d, files)
    state = read_tree(d)
    ids: T.Dict[str, T.Tuple[str, str]] = {}

    def mk_model(fs: T.Mapping[str, str], cfg: T.Optional[T.Mapping[str, T.Any]] = None) -> M.Model:
        mm = M.Model(fs, cfg)
        mm.target_ids = ids
        return mm
    model = mk_model(state, cfgs[0])
    if not model.ok:
        count('skipped:reference-cannot-evaluate-project')
        shutil.rmtree(d, ignore_errors=True)
        return out
    if with_ids:
        got_ids = introspect_ids(d)
        if got_ids is None:
            count('skipped:introspect-gave-no-target-ids')
            shutil.rmtree(d, ignore_errors=True)
            return out
        ids.update(got_ids)
        count('monitor:target-ids-from-introspect', len(ids))
        if planned:
            rp = [resolve_ids(c, ids) for c in planned]
            if any(c is None for c in rp):
                count('skipped:planned-target-has-no-unique-id')
                shutil.rmtree(d, ignore_errors=True)
                return out
            planned = T.cast(T.List[dict], rp)
    done: T.List[T.Tuple[dict, str]] = []
    clean = True
    refused_any = False
    n = len(planned) if planned else rng.choice([1, 1, 2, 2, 3][:max(1, 2 * maxlen - 1)])
    for i in range(n):
        cmd = planned[i] if planned else None
        if cmd is None:
            for _t in range(6):
                cmd = G.gen_command(rng, model, pool)
                if cmd is not None:
                    break
        if cmd is None:
            break
        via = force_via or ('cli' if G.to_cli(cmd) is not None and rng.random() < 0.55 else 'json')
        if via == 'cli' and G.to_cli(cmd) is None:
            via = 'json'
        if inside_exist:
            touch_sources(d, model, cmd)
        res = run_rewrite(d, [cmd], via, inside_exist)
        new_state = read_tree(d)
        st = judge(model, new_state, cmd, via, res, inside_exist)
        for k, v in st.counts.items():
            count(k, v)
        count('steps')
        config_of_failure = cfgs[0]
        if st.fail is None and st.outcome in ('applied', 'info', 'refused:documented'):
            # the same step, seen from every other configuration of the project
            for alt in cfgs[1:]:
                malt = mk_model(model.files, alt)
                if not malt.ok:
                    count('skipped:alternate-configuration-does-not-evaluate')
                    continue
                st2 = judge(malt, new_state, cmd, via, res, inside_exist)
                count('oracle:alternate-configuration')
                if st2.fail is not None:
                    st.fail, st.outcome, config_of_failure = st2.fail, 'violation', alt
                    count('outcome:violation-in-alternate-configuration')
                    break
        count('outcome:' + st.outcome)
        if st.outcome.startswith('refused'):
            refused_any = True
        if st.outcome == 'refused:internal-error':
            sig = _signature(res.err + '\n' + res.out, True)
            if all(n['sig'] != sig for n in out['notes']):
                out['notes'].append({'sig': sig, 'cmd': cmd, 'files': dict(model.files), 'rc': res.rc,
                                     'err_tail': (res.err + res.out)[-500:]})
        for r in res.records:
            if r.get('ev') == 'apply_changes':
                count('monitor:apply_changes')
                count('monitor:spans_spliced', len(r.get('edits', [])))
                for e in r.get('edits', []):
                    count(f'monitor:edit:{e.get("action")}:{e.get("node")}')
                for k, v in r.get('visits', {}).items():
                    count('monitor:printer_visits', v)
                    count(f'printer:{k}', v)
                # cross-check: every spliced span lies inside a statement of the pre-state file
                for e in r.get('edits', []):
                    if e.get('action') in ('modify', 'rm') and e.get('file') in model.stmts:
                        ln, eln = e['span'][0], e['span'][2]
                        inside = any(s.line <= ln and (eln or ln) <= s.end_line for s in model.stmts[e['file']])
                        count('monitor:span-inside-one-statement' if inside else 'monitor:span-not-inside-a-statement')
        out['cases'].append(common.digest([sorted(model.files.items()), cmd, via]))
        if len(out['samples']) < 1 and st.outcome == 'applied':
            mon = next((r for r in res.records if r.get('ev') == 'apply_changes'), {})
            out['samples'].append({'cmd': cmd, 'via': via, 'diff': {f: _diff(model.files.get(f, ''), new_state.get(f, ''))[:14]
                                                                     for f in new_state if new_state[f] != model.files.get(f)},
                                   'monitor_spans_spliced': mon.get('edits'), 'monitor_replacement_text': mon.get('printed', [])[:2],
                                   'monitor_printer_visits': mon.get('visits')})
        if st.fail is not None:
            out['violations'].append({'mechanism': st.fail['mechanism'], 'oracle': st.fail['oracle'],
                                      'explanations': st.fail['explanations'],
                                      'files': dict(model.files), 'steps': [cmd], 'via': via, 'inside_exist': inside_exist, 'with_ids': with_ids,
                                      'configs': [config_of_failure],
                                      'original_files': files, 'earlier_steps': [c for c, _ in done], **st.fail['detail']})
            clean = False
            break
        if st.outcome in ('timeout',) or st.outcome.startswith('refused:internal') or st.outcome == 'refused:error':
            clean = False
        done.append((cmd, via))
        if new_state != state:
            state = new_state
            model = mk_model(state, cfgs[0])
            if not model.ok:
                clean = False
                break
            # "info reports it": ask the rewriter for its own view of the target just edited
            if cmd['type'] == 'target' and cmd['operation'] in ('src_add', 'src_rm', 'extra_files_add', 'extra_files_rm') \
                    and st.outcome == 'applied' and rng.random() < 0.4:
                icmd = {'type': 'target', 'target': cmd['target'], 'operation': 'info'}
                ires = run_rewrite(d, [icmd], 'json', inside_exist)
                ist = judge(model, read_tree(d), icmd, 'json', ires, inside_exist)
                for k, v in ist.counts.items():
                    count(k, v)
                count('steps')
                count('outcome:' + ist.outcome)
                if ist.fail is not None:
                    out['violations'].append({'mechanism': ist.fail['mechanism'], 'oracle': ist.fail['oracle'],
                                              'explanations': ist.fail['explanations'], 'files': dict(model.files),
                                              'steps': [icmd], 'via': 'json', 'inside_exist': inside_exist, 'with_ids': with_ids,
                                              'original_files': files, 'earlier_steps': [c for c, _ in done], **ist.fail['detail']})
                    clean = False
                    break
    # ---- round-trip laws, stated on the end state ---------------------------------------------------
    if planned and planned[0].get('law') and clean and len(done) == len(planned) and not refused_any:
        m0 = mk_model(read_tree_from(files), cfgs[0])
        count('oracle:roundtrip-end-state')
        r0 = m0.find_target(planned[0]['target'])
        r1 = model.find_target(planned[0]['target'])
        if len(r0) == 1 and len(r1) == 1:
            a0 = sorted(json.dumps(x, sort_keys=True) for x in m0.sources(r0[0]))
            a1 = sorted(json.dumps(x, sort_keys=True) for x in model.sources(r1[0]))
            if a0 != a1:
                out['violations'].append({'mechanism': 'roundtrip-law-broken', 'oracle': 'roundtrip', 'files': files,
                                          'steps': planned, 'via': 'steps', 'inside_exist': inside_exist, 'with_ids': with_ids,
                                          'before': a0, 'after': a1})
    # ---- (e) batch == stepwise ---------------------------------------------------------------------
    if do_batch and clean and len(done) >= 2:
        d2 = d + '_batch'
        shutil.rmtree(d2, ignore_errors=True)
        runner.write_tree(d2, files)
        if inside_exist:
            m00 = M.Model(read_tree(d2))
            for c, _ in done:
                touch_sources(d2, m00, c)
        res = run_rewrite(d2, [c for c, _ in done], 'json', inside_exist)
        got = read_tree(d2)
        count('oracle:batch-equals-stepwise')
        for r in res.records:
            if r.get('ev') == 'apply_changes':
                count('monitor:apply_changes')
        if res.rc != 0 or got != state:
            m0 = M.Model(read_tree_from(files))
            allowed_all = [s for sts in m0.stmts.values() for s in sts]
            e = M.explanations(m0, got, allowed_all)
            mech = next((x for x in RELEVANT['batch'] if x in e and x in KNOWN_MECHS), 'batch-differs-from-stepwise')
            out['violations'].append({'mechanism': mech, 'oracle': 'batch', 'files': files, 'steps': [c for c, _ in done],
                                      'via': 'json-batch', 'inside_exist': inside_exist, 'rc': res.rc,
                                      'diff': {f: _diff(state.get(f, ''), got.get(f, '')) for f in state if state[f] != got.get(f)},
                                      'log_tail': res.err[-500:]})
        shutil.rmtree(d2, ignore_errors=True)
    shutil.rmtree(d, ignore_errors=True)
    return out


def read_tree_from(files: T.Mapping[str, str]) -> T.Dict[str, str]:
    """The texts as meson would read them back (universal newlines)."""
    return {k: v.replace('\r\n', '\n').replace('\r', '\n') for k, v in files.items()}


def merge(into: dict, o: dict) -> None:
    for k, v in o['counts'].items():
        into['counts'][k] = into['counts'].get(k, 0) + v
    into['violations'] += o['violations']
    into['cases'] += o['cases']
    if len(into['samples']) < 8:
        into['samples'] += o['samples'][:1]
    for n in o['notes']:
        if len(into['notes']) < 8 and all(x['sig'] != n['sig'] for x in into['notes']):
            into['notes'].append(n)


# ------------------------------------------------------------------------------------------------
# workers

def worker(job: T.Tuple[str, int, int, int, int, float]) -> dict:
    root, seed, idx, nseq, maxlen, deadline = job
    out: T.Dict[str, T.Any] = {'counts': {}, 'violations': [], 'samples': [], 'cases': [], 'notes': [], 'features': []}
    if time.time() > deadline:
        out['counts']['skipped:time-budget'] = 1
        return out
    rng = random.Random(f'{PID}:{seed}:{idx}')
    try:
        proj = G.gen_project(rng, linebreak_hazard=rng.random() < 0.04)
    except RuntimeError:
        out['counts']['skipped:generator'] = 1
        return out
    out['features'] = proj['features']
    out['counts']['projects'] = 1
    model0 = M.Model(proj['files'], proj.get('config', {}))
    for s in range(nseq):
        if time.time() > deadline:
            out['counts']['skipped:time-budget'] = out['counts'].get('skipped:time-budget', 0) + 1
            break
        inside_exist = rng.random() < 0.2
        planned = None
        c = rng.random()
        if c < 0.22:
            planned = G.gen_sequence(rng, model0, proj['pool'], maxlen=2)
            if not (planned and planned[0].get('law')):
                planned = None
        try:
            o = run_sequence(root, f'p{idx}_{s}', proj['files'], proj['pool'], rng, planned, maxlen, inside_exist,
                             configs=G.configurations(proj.get('config', {})))
        except Exception:      # a defect of this harness must not pass for a verdict
            import traceback
            out['counts']['harness-error'] = out['counts'].get('harness-error', 0) + 1
            if not out['notes']:
                out['notes'].append({'sig': 'harness-error', 'cmd': None, 'files': proj['files'], 'rc': None,
                                     'err_tail': traceback.format_exc()[-1500:]})
            continue
        merge(out, o)
    return out


# ------------------------------------------------------------------------------------------------
# directed probes: one per listed finding (re-observed every run) + fixture calibration

def probes() -> T.List[T.Tuple]:
    """(name, files, commands, form, run-inside-with-existing-files[, configurations])"""
    P: T.List[T.Tuple] = []
    base = "project('p')\na = true\nb = false\nn = 3\n"

    def kwset(key: str = 'install', val: T.Any = True) -> dict:
        return {'type': 'kwargs', 'function': 'target', 'id': 'prog', 'operation': 'set', 'kwargs': {key: val}}
    P.append(('paren-not', {'meson.build': base + "executable('prog', 'm.c', build_by_default : not (a and b))\n"}, [kwset()], 'json', False))
    P.append(('paren-neg', {'meson.build': base + "executable('prog', 'm.c', d_module_versions : [-(1 + 2)])\n"}, [kwset()], 'cli', False))
    P.append(('paren-cmp', {'meson.build': base + "executable('prog', 'm.c', pie : (n == 3) == a)\n"}, [kwset()], 'json', False))
    P.append(('paren-method', {'meson.build': base + "executable('prog', 'm.c', install_dir : (n + 1).to_string())\n"}, [kwset()], 'json', False))
    P.append(('paren-ternary', {'meson.build': base + "executable('prog', 'm.c', pie : (a ? b : a) or a)\n"}, [kwset()], 'json', False))
    P.append(('arith-ok', {'meson.build': base + "executable('prog', 'm.c', d_module_versions : [(n + 1) * 2, n - (1 - 2), 8 / (2 * 2)])\n"}, [kwset()], 'json', False))
    P.append(('strings-ok', {'meson.build': base + "executable('prog', 'm.c', c_args : [f'n=@n@', f'''m\n@n@ ''', 'a\\\\b', 'tab\\there', "
                                                   "'\u00e9\\u00e9\\x41\\101', 'unk\\d', '#h', '@0@'.format(n)], "
                                                   "install_dir : '''raw\\n 'quoted' text''', override_options : {'b' : 1, 'a' : [2, 'x']})\n"},
              [kwset()], 'json', False))
    P.append(('mul-over-div', {'meson.build': base + "executable('prog', 'm.c', d_module_versions : [2 * (3 / 2)])\n"}, [kwset()], 'json', False))
    P.append(('quote', {'meson.build': base + "executable('prog', 'm.c', install_dir : 'it\\'s')\n"}, [kwset()], 'json', False))
    P.append(('quote-in-sources', {'meson.build': base + "executable('prog', 'o\\'k.c', 'm.c')\n"},
              [{'type': 'target', 'target': 'prog', 'operation': 'src_add', 'sources': ['new.c']}], 'cli', False))
    P.append(('raw-newline', {'meson.build': base + "executable('prog', 'm.c', install_dir : 'a\\nb')\nx = 1\n"}, [kwset()], 'json', False))
    P.append(('mstr-trailing-blank', {'meson.build': base + "executable('prog', 'm.c', install_dir : '''a  \nb\n\nc''')\n"}, [kwset()], 'json', False))
    P.append(('raw-cr', {'meson.build': base + "executable('prog', 'm.c', install_dir : 'a\\rb')\n"}, [kwset()], 'json', False))
    P.append(('formfeed-comment', {'meson.build': "project('p')\n# page \x0c break\nx = 'a'\nexecutable('prog', 'm.c', install : false)\ny = 2\n"},
              [kwset()], 'json', False))
    P.append(('linesep-then-edit', {'meson.build': base + "executable('prog', 'm.c', install_dir : 'a\\u2028b')\nexecutable('q', 'q.c')\nz = 1\n"},
              [kwset(), {'type': 'kwargs', 'function': 'target', 'id': 'q', 'operation': 'set', 'kwargs': {'install': True}}], 'json', False))
    P.append(('cli-bool-false', {'meson.build': base + "executable('prog', 'm.c', install : true)\n"}, [kwset('install', False)], 'cli', False))
    P.append(('json-bool-false', {'meson.build': base + "executable('prog', 'm.c', install : true)\n"}, [kwset('install', False)], 'json', False))
    P.append(('add-target-dot', {'meson.build': base}, [{'type': 'target', 'target': 'my.prog', 'operation': 'target_add', 'sources': ['a.c'],
                                                       'subdir': '', 'target_type': 'executable'}], 'json', False))
    P.append(('add-target-no-eol', {'meson.build': base + 'x = 5'}, [{'type': 'target', 'target': 'newprog', 'operation': 'target_add', 'sources': ['a.c'],
                                                                   'subdir': '', 'target_type': 'executable'}], 'json', False))
    P.append(('subdir-existing', {'meson.build': "project('p')\nsubdir('sub')\n", 'sub/meson.build': "executable('prog', 'm.c')\n"},
              [{'type': 'target', 'target': 'prog', 'operation': 'src_add', 'sources': ['sub/new.c']}], 'cli', True))
    P.append(('subdir-nonexisting', {'meson.build': "project('p')\nsubdir('sub')\n", 'sub/meson.build': "executable('prog', 'm.c')\n"},
              [{'type': 'target', 'target': 'prog', 'operation': 'src_add', 'sources': ['sub/new.c']}], 'cli', False))
    P.append(('nested-containers', {'meson.build': base + "executable('prog', 'a.c', ['b.c', 'c.c'], install : true)\nz = 1\n"},
              [{'type': 'target', 'target': 'prog', 'operation': 'src_rm', 'sources': ['a.c', 'b.c']}], 'cli', False))
    P.append(('defopt-collapse', {'meson.build': "project('p', default_options : ['werror=false', 'libdir=' + 'lib'])\n"},
              [{'type': 'default_options', 'operation': 'set', 'options': {'werror': 'true'}}], 'cli', False))
    P.append(('defopt-plain', {'meson.build': "project('p', default_options : ['werror=false', 'libdir=lib'])\n"},
              [{'type': 'default_options', 'operation': 'set', 'options': {'werror': 'true'}},
               {'type': 'default_options', 'operation': 'delete', 'options': {'libdir': None}}], 'cli', False))
    P.append(('two-statements-rm', {'meson.build': base + "srcs = ['a.c', 'b.c']\nexecutable('prog', 'z.c', srcs, install : true)\nz = 1\n"},
              [{'type': 'target', 'target': 'prog', 'operation': 'src_rm', 'sources': ['z.c', 'a.c']}], 'cli', False))
    P.append(('same-basename-rm', {'meson.build': base + "executable('prog', 'a.c', 'src/a.c', 'b.c')\n"},
              [{'type': 'target', 'target': 'prog', 'operation': 'src_rm', 'sources': ['src/a.c']}], 'json', False))
    P.append(('same-basename-rm2', {'meson.build': base + "srcs = ['src/a.c', 'a.c', 'b.c']\nexecutable('prog', srcs)\n"},
              [{'type': 'target', 'target': 'prog', 'operation': 'src_rm', 'sources': ['a.c']}], 'cli', False))
    P.append(('kw-delete', {'meson.build': base + "dep = dependency('zlib', required : false, version : ['>=1.0'])\nexecutable('prog', 'm.c', install : true, pie : false)\n"},
              [{'type': 'kwargs', 'function': 'target', 'id': 'prog', 'operation': 'delete', 'kwargs': {'install': None}},
               {'type': 'kwargs', 'function': 'dependency', 'id': 'zlib', 'operation': 'add', 'kwargs': {'version': '<2.0'}},
               {'type': 'kwargs', 'function': 'dependency', 'id': 'dep', 'operation': 'info'}], 'json', False))
    P.append(('law-add-rm', {'meson.build': base + "srcs = ['a.c', 'b.c']\nexecutable('prog', srcs, install : true)\n"},
              [{'type': 'target', 'target': 'prog', 'operation': 'src_add', 'sources': ['new.c'], 'law': 'add-then-rm'},
               {'type': 'target', 'target': 'prog', 'operation': 'src_rm', 'sources': ['new.c'], 'law': 'add-then-rm'}], 'cli', False))
    P.append(('law-rm-add', {'meson.build': base + "executable('prog', files('a.c', 'b.c'), install : true)\n"},
              [{'type': 'target', 'target': 'prog', 'operation': 'src_rm', 'sources': ['b.c'], 'law': 'rm-then-add'},
               {'type': 'target', 'target': 'prog', 'operation': 'src_add', 'sources': ['b.c'], 'law': 'rm-then-add'}], 'json', False))
    conf = ("project('p', default_options : ['debug=true', 'b_ndebug=if-release', 'build.c_args=-DB', 'c_args=-Ddebug=1 -Dwerror=x', "
            "'c_link_args=-s', 'c_std=c11', 'cpp_std=c++14', 'sub:werror=true', 'werror=false', 'strip=true'])\nexecutable('prog', 'm.c')\n")

    def dopt(op: str, **kw: T.Any) -> dict:
        return {'type': 'default_options', 'operation': op, 'options': kw}
    P.append(('defopt-key-is-tail-set', {'meson.build': conf}, [dopt('set', debug='false'), dopt('set', werror='true'), dopt('set', strip='false')], 'cli', False))
    P.append(('defopt-key-is-tail-delete', {'meson.build': conf}, [dopt('delete', c_args=None), dopt('delete', std=None), dopt('delete', werror=None)], 'cli', False))
    P.append(('defopt-key-is-tail-json', {'meson.build': conf}, [dopt('delete', args=None, debug=None), dopt('set', debug='true'), dopt('delete', cpp_std=None)], 'json', False))
    P.append(('defopt-kwargs-list-ops', {'meson.build': conf},
              [{'type': 'kwargs', 'function': 'project', 'id': '/', 'operation': 'remove', 'kwargs': {'default_options': 'werror=false'}},
               {'type': 'kwargs', 'function': 'project', 'id': '/', 'operation': 'add', 'kwargs': {'default_options': 'layout=flat'}},
               {'type': 'kwargs', 'function': 'project', 'id': '/', 'operation': 'remove', 'kwargs': {'default_options': 'debug'}}], 'json', False))
    one = base + "executable('prog', files('a.c'), ['b.c'], ['c.c', 'd.c'], extra_files : files('x.h') + ['y.h'], install : true)\nz = 1\n"

    def tcmd(opn: str, *files: str) -> dict:
        return {'type': 'target', 'target': 'prog', 'operation': opn, 'sources': list(files)}
    P.append(('one-line-lists-rm-textual-order', {'meson.build': one}, [tcmd('src_rm', 'a.c', 'b.c')], 'cli', False))
    P.append(('one-line-lists-rm-reverse-order', {'meson.build': one}, [tcmd('src_rm', 'd.c', 'a.c')], 'cli', False))
    P.append(('one-line-lists-rm-three', {'meson.build': one}, [tcmd('src_rm', 'a.c', 'b.c', 'c.c'), tcmd('src_add', 'e.c')], 'json', False))
    P.append(('one-line-lists-rm-extra', {'meson.build': one}, [tcmd('extra_files_rm', 'x.h', 'y.h')], 'json', False))
    P.append(('one-line-lists-rm-extra-rev', {'meson.build': one}, [tcmd('extra_files_rm', 'y.h', 'x.h')], 'cli', False))
    xdir = {'meson.build': "project('p')\napp_srcs = ['main.c', 'util.c']\napp_files = files('top.c')\napp_hdrs = ['app.h']\nsubdir('app')\n",
            'app/meson.build': "executable('app', app_srcs, app_files, extra_files : app_hdrs)\n"}
    P.append(('var-from-parent-dir-add', xdir, [tcmd('src_add', 'app/new.c'), tcmd('info')], 'cli', False))
    P.append(('var-from-parent-dir-rm', xdir, [tcmd('src_rm', 'app/main.c'), tcmd('src_add', 'app/main.c'), tcmd('info')], 'json', False))
    P.append(('var-from-parent-dir-extra', xdir, [tcmd('extra_files_add', 'app/new.h'), tcmd('extra_files_rm', 'app/app.h')], 'cli', False))
    P.append(('var-from-parent-dir-files', xdir, [tcmd('src_rm', 'top.c'), tcmd('info')], 'cli', False))
    # a source variable assigned again in ONE branch of an if/else: judged in both configurations
    both = [{'fast': True}, {'fast': False}]
    br = ("project('p')\nsrcs = ['generic.c']\nif get_option('fast')\n  srcs = ['fast.c']\nelse\n  message('generic')\nendif\n"
          "executable('prog', 'main.c', srcs)\n")
    P.append(('branch-reassign-add', {'meson.build': br}, [tcmd('src_add', 'new.c'), tcmd('info')], 'cli', False, both))
    P.append(('branch-reassign-rm-add', {'meson.build': br}, [tcmd('src_rm', 'main.c'), tcmd('src_add', 'main.c')], 'json', False, both))
    br2 = ("project('p')\nsrcs = ['generic.c']\nexecutable('first', srcs)\nif not get_option('fast')\n  x = 1\nelif a\n  srcs = ['fast.c']\nelse\n"
           "  srcs = ['other.c']\nendif\nexecutable('prog', srcs, 'main.c')\n")
    P.append(('branch-reassign-two-targets', {'meson.build': "a = true\n".join(br2.split('\n', 1)) if False else br2.replace("project('p')\n", "project('p')\na = true\n")},
              [{'type': 'target', 'target': 'first', 'operation': 'src_add', 'sources': ['first_new.c']}, tcmd('src_add', 'new.c')], 'cli', False, both))
    # a list-typed keyword that holds ONE bare string whose backslashes survive one decoding
    bs = ("project('p', license : 'Custom\\\\tLicense', default_options : ['warning_level=2', 'c_args=-DSEP=\\\\t -DNL=\\\\n\\\\x41'])\n"
          "dep = dependency('zlib', version : 'core\\\\tx', modules : f'm\\\\n@0@')\nexecutable('prog', 'm.c')\n")
    P.append(('bare-string-list-kwarg-add', {'meson.build': bs},
              [{'type': 'kwargs', 'function': 'dependency', 'id': 'zlib', 'operation': 'add', 'kwargs': {'version': '>=2.0'}},
               {'type': 'kwargs', 'function': 'dependency', 'id': 'zlib', 'operation': 'remove', 'kwargs': {'modules': 'absent'}},
               {'type': 'kwargs', 'function': 'project', 'id': '/', 'operation': 'add', 'kwargs': {'license': 'MIT'}}], 'json', False))
    P.append(('defopt-delete-then-set-on-collapsed', {'meson.build': bs}, [dopt('delete', warning_level=None), dopt('set', werror='true'),
                                                                       dopt('delete', werror=None)], 'cli', False))
    # typed values given as strings, in every spelling the rewriter accepts
    sp = base + "dep = dependency('zlib', required : false, static : true)\nexecutable('prog', 'm.c', install : false, pie : true, c_args : ['-DX'])\n"
    for j, (form, spell) in enumerate([('cli', 'True'), ('cli', 'TRUE'), ('json', 'tRuE'), ('cli', 'False'), ('json', 'FALSE'), ('cli', 'true')]):
        want_true = spell.lower() == 'true'
        P.append((f'bool-spelling-{spell}-{form}', {'meson.build': sp},
                  [kwset('install' if want_true else 'pie', spell),
                   {'type': 'kwargs', 'function': 'dependency', 'id': 'zlib', 'operation': 'set',
                    'kwargs': {'required' if want_true else 'static': spell}},
                   {'type': 'kwargs', 'function': 'target', 'id': 'prog', 'operation': 'info'}], form, False))
        del j
    P.append(('defopt-bool-spelling', {'meson.build': "project('p', default_options : ['werror=false', 'debug=true'])\n"},
              [dopt('set', werror='True'), dopt('set', debug='FALSE')], 'cli', False))
    # sources through the `sources:` keyword in its literal forms
    skw = base + ("executable('prog', 'main.c', sources : ['opt.c', 'log.c'], install : true)\n"
                  "executable('aux', sources : files('aux.c', 'aux2.c'))\nexecutable('third', sources : ['t1.c', ['t2.c']])\n")
    P.append(('sources-kwarg-literal-rm', {'meson.build': skw}, [tcmd('src_rm', 'opt.c'), tcmd('info'), tcmd('src_add', 'opt.c')], 'cli', False))
    P.append(('sources-kwarg-files-rm', {'meson.build': skw}, [{**tcmd('src_rm', 'aux2.c'), 'target': 'aux'}, {**tcmd('src_add', 'aux3.c'), 'target': 'aux'},
                                                             {**tcmd('info'), 'target': 'aux'}], 'json', False))
    P.append(('sources-kwarg-nested-rm', {'meson.build': skw}, [{**tcmd('src_rm', 't2.c'), 'target': 'third'}, {**tcmd('src_rm', 'main.c', 'log.c')}], 'cli', False))
    # a file in a sibling directory whose name starts with the name of the target's directory
    sib = {'meson.build': "project('p')\ncommon = ['c0.c']\nsubdir('src')\n",
           'src/meson.build': "foo_srcs = files('main.c')\nexecutable('prog', foo_srcs, 'util.c')\nexecutable('q', common, extra_files : ['q.h'])\n"}
    P.append(('sibling-dir-name-prefix-add-rm', sib, [{**tcmd('src_add', 'src-common/shared.c'), 'law': 'add-then-rm'},
                                                      {**tcmd('src_rm', 'src-common/shared.c'), 'law': 'add-then-rm'}], 'cli', False))
    P.append(('sibling-dir-name-prefix-info', sib, [tcmd('src_add', 'srcs/gen/x.c', 'src_gen/y.c'), tcmd('info'),
                                                    {**tcmd('extra_files_add', 'src2/q2.h'), 'target': 'q'}], 'json', False))
    two = "project('p')\nsrcs = ['a.c', 'b.c']\nif get_option('x')\n  srcs += ['c.c']\nendif\nexecutable('prog', srcs)\n"
    P.append(('rm-from-array-extended-in-branch', {'meson.build': two}, [tcmd('src_rm', 'a.c')], 'cli', False, [{'x': True}, {'x': False}]))
    P.append(('rm-from-branch-extension', {'meson.build': two}, [tcmd('src_rm', 'c.c'), tcmd('src_add', 'n.c')], 'cli', False, [{'x': True}, {'x': False}]))
    # calibration on the shape of the repository's own fixtures
    fx = ("project('rewritetest')\nsrc1 = ['main.cpp', 'fileA.cpp']\nsrc2 = files(['fileB.cpp', 'fileC.cpp'])\n"
          "exe0 = executable('trivialprog0', src1 + src2)\nexe1 = executable('trivialprog1', src1)\n"
          "exe3 = executable('trivialprog3', ['main.cpp', 'fileA.cpp'])\n")
    P.append(('fixture-add', {'meson.build': fx}, [{'type': 'target', 'target': 'trivialprog1', 'operation': 'src_add', 'sources': ['a2.cpp', 'a1.cpp']},
                                                  {'type': 'target', 'target': 'trivialprog3', 'operation': 'src_rm', 'sources': ['fileA.cpp']},
                                                  {'type': 'target', 'target': 'exe0', 'operation': 'info'}], 'json', False))
    return P


# how a SECOND target may receive a source list that another target uses by its plain name:
# form -> (statements in front of the second target, the expression it passes as sources)
SHARED_FORMS: T.Dict[str, T.Tuple[str, str]] = {
    'plain': ("", "common"),
    'get-variable': ("", "get_variable('common')"),
    'get-variable-into-variable': ("mid = get_variable('com' + 'mon')\n", "mid"),
    'alias': ("al = common\n", "al"),
    'alias-of-alias': ("al = common\nal2 = al\n", "al2"),
    'plus-literal': ("", "common + ['t1.c']"),
    'plus-variables': ("more = ['m.c']\n", "more + common"),
    'array-element': ("", "['t1.c', common]"),
    'dict-value': ("d = {'k' : common, 'other' : ['o.c']}\n", "d['k']"),
    'array-index': ("arr = [common]\n", "arr[0]"),
    'files-argument': ("", "files(common)"),
    'set-variable': ("set_variable('sv', common)\n", "sv"),
    'plus-assign': ("acc2 = ['t1.c']\nacc2 += common\n", "acc2"),
    'ternary': ("", "true ? common : []"),
    'foreach': ("acc = []\nforeach x : common\n  acc += x\nendforeach\n", "acc"),
}


def shared_probes(part: int, parts: int) -> T.List[T.Tuple]:
    """Source lists SHARED by two targets where the second one reaches the list through an indirection; every command
    addresses ONE of the two targets: the other target's sources (reference view before/after, and `info`) must not
    change, or the command must refuse.  Same tuple format as probes()."""
    P: T.List[T.Tuple] = []

    def tcmd(t: str, opn: str, *files: str) -> dict:
        return {'type': 'target', 'target': t, 'operation': opn, 'sources': list(files)}
    variants: T.List[T.Tuple[str, str, str, str, bool]] = []
    for i, form in enumerate(SHARED_FORMS):
        variants.append((form, "['common.c']", 'plus' if i % 2 == 0 else 'pos', 'app-first' if (i // 2) % 2 == 0 else 'tool-first', False))
    # the shared list as a files() object, and the second target in a subdirectory
    variants.append(('get-variable', "files('common.c')", 'pos', 'app-first', False))
    variants.append(('alias', "files('common.c')", 'plus', 'tool-first', False))
    variants.append(('get-variable', "files('common.c')", 'plus', 'app-first', True))
    variants.append(('plus-variables', "files('common.c')", 'pos', 'app-first', True))
    for j, (form, shared, appform, order, in_sub) in enumerate(variants):
        if j % parts != part:
            continue
        pre, expr = SHARED_FORMS[form]
        if form == 'files-argument' and shared.startswith('files'):
            continue
        app = ("app = executable('app', common + ['app.c'], install : true)\n" if appform == 'plus'
               else "app = executable('app', common, 'app.c', install : true)\n")
        tool = pre + f"tool = executable('tool', {expr}, 'tool.c', c_args : ['-DWHO=\"tool\\'s\"'])\n"
        head = f"project('p')\ncommon = {shared}\n"
        if in_sub:
            files = {'meson.build': head + app + "subdir('sub')\n", 'sub/meson.build': tool}
            tdir = 'sub/'
        else:
            files = {'meson.build': head + (app + tool if order == 'app-first' else tool + app) + "last = 1\n"}
            tdir = ''
        tag = f'shared:{form}:{"files" if shared.startswith("files") else "strings"}:{appform}:{order}' + (':subdir' if in_sub else '')
        for seq, cmds in (('add-plain-user', [tcmd('app', 'src_add', 'new.c'), tcmd('tool', 'info')]),
                          ('rm-plain-user', [tcmd('app', 'src_rm', 'common.c'), tcmd('tool', 'info')]),
                          ('add-indirect-user', [tcmd('tool', 'src_add', tdir + 'new.c'), tcmd('app', 'info')]),
                          ('rm-indirect-user', [tcmd('tool', 'src_rm', 'common.c')])):
            P.append((f'{tag}:{seq}', files, cmds, 'cli' if (j + len(seq)) % 2 else 'json', False))
    return P


# build files produced from ONE template: the same bytes -- hence the same statements at the same line/column -- in
# several directories of one project.  name -> (template text, has extra_files)
TWIN_TEMPLATES: T.Dict[str, T.Tuple[str, bool]] = {
    'list-in-variable': ("# generated from template\nsrcs = ['main.c', 'util.c']\ndemo = executable('demo', srcs, install : not (a and b), c_args : ['-DN=' + (n + 1).to_string()])\n", False),
    'inline': ("# generated from template\ndemo = executable('demo', 'main.c', 'util.c', install : 2 * (3 / 2) == n - 1)\n", False),
    'files-in-variable': ("srcs = files('main.c', 'util.c')\nhdrs = ['demo.h']\nexecutable('demo', srcs, extra_files : hdrs, install_dir : 'it\\'s')\n", True),
    'plus-assign': ("srcs = ['main.c']\nsrcs += ['util.c']\nexecutable('demo', srcs, pie : a or b)\n", False),
    'sources-keyword': ("srcs = ['util.c']\nlibrary('demo', 'main.c', sources : srcs, extra_files : ['demo.h', 'more.h'])\n", True),
    'variable-of-variable': ("base = ['main.c']\nsrcs = base + ['util.c']\nexecutable('demo', srcs)\nlast = 1\n", False),
}
# name -> directories that get the template ('' = the root build file itself, with the template in the same lines)
TWIN_LAYOUTS: T.Dict[str, T.List[str]] = {
    'two-dirs': ['examples/one', 'examples/two'],
    'three-dirs': ['t/alpha', 't/beta', 't/gamma'],
    'nested-dirs': ['pkg', 'pkg/inner'],
    'root-and-subdir': ['', 'sub'],
}


def twin_project(template: str, layout: str) -> T.Tuple[T.Dict[str, str], T.List[str]]:
    body, _ = TWIN_TEMPLATES[template]
    dirs = TWIN_LAYOUTS[layout]
    head = "project('p')\na = true\nb = false\nn = 3\n"
    files: T.Dict[str, str] = {}
    if layout == 'root-and-subdir':
        # the root file carries its own four head lines; the subdirectory's file has four comment lines of the same
        # lengths in front, so that the template statements sit at identical positions in both
        files['meson.build'] = head + body + "subdir('sub')\n"
        files['sub/meson.build'] = ''.join('#' + ' ' * (len(x) - 1) + '\n' for x in head.split('\n')[:-1]) + body
    elif layout == 'nested-dirs':
        files['meson.build'] = head + "subdir('pkg')\n"
        files['pkg/meson.build'] = body + "subdir('inner')\n"
        files['pkg/inner/meson.build'] = body
    else:
        files['meson.build'] = head + ''.join(f"subdir('{x}')\n" for x in dirs) + "end = 1\n"
        for x in dirs:
            files[os.path.join(x, 'meson.build')] = body
    return files, dirs


def twin_probes(part: int, parts: int, everything: bool) -> T.List[T.Tuple]:
    """Template-generated build files in several directories; every command addresses ONE of the equally named targets by
    the ID meson gives it: the edit has to land in that directory's build file, every other build file stays as it is
    (locality oracle over all files), the other twins keep their sources (other-calls oracle + `info` of a twin), `info`
    of the addressed target shows the new value.  Same tuple format as probes()."""
    P: T.List[T.Tuple] = []
    j = 0
    for ti, (template, (_body, has_extra)) in enumerate(TWIN_TEMPLATES.items()):
        for li, (layout, dirs) in enumerate(TWIN_LAYOUTS.items()):
            files, _ = twin_project(template, layout)

            def ident(k: int) -> str:
                return ID_PLACEHOLDER + os.path.join(dirs[k], 'meson.build') + '|demo'

            def tcmd(k: int, opn: str, *names: str, **more: T.Any) -> dict:
                c = {'type': 'target', 'target': ident(k), 'operation': opn, 'sources': [os.path.join(dirs[k], x) for x in names]}
                c.update(more)
                return c

            def kw(k: int, opn: str, **kwargs: T.Any) -> dict:
                return {'type': 'kwargs', 'function': 'target', 'id': ident(k), 'operation': opn, 'kwargs': kwargs}
            for k in range(len(dirs)):
                other = (k + 1) % len(dirs)
                seqs: T.List[T.Tuple[str, T.List[dict]]] = [
                    ('add-info', [tcmd(k, 'src_add', 'new.c'), tcmd(k, 'info'), tcmd(other, 'info')]),
                    ('add-then-rm', [tcmd(k, 'src_add', 'new.c', law='add-then-rm'), tcmd(k, 'src_rm', 'new.c', law='add-then-rm'), tcmd(other, 'info')]),
                    ('rm-then-add', [tcmd(k, 'src_rm', 'util.c', law='rm-then-add'), tcmd(k, 'src_add', 'util.c', law='rm-then-add'), tcmd(k, 'info')]),
                    ('kwargs', [kw(k, 'set', build_by_default=False), kw(other, 'set', gui_app=True), kw(k, 'delete', build_by_default=None)]),
                    ('rm-target', [tcmd(k, 'target_rm'), tcmd(other, 'info')]),
                ]
                if has_extra:
                    seqs.append(('extra-files', [tcmd(k, 'extra_files_add', 'new.h'), tcmd(k, 'extra_files_rm', 'demo.h'), tcmd(k, 'info')]))
                for si, (seq, cmds) in enumerate(seqs):
                    j += 1
                    # quick tier: the LAST twin of every template x layout pair is always addressed by an add + info, and a
                    # rotating eighth of the other combinations is run; thorough: all of them
                    if not everything and (ti * 5 + li * 3 + k * 2 + si) % 8 != 0 and not (seq == 'add-info' and k == len(dirs) - 1):
                        continue
                    if j % parts != part:
                        continue
                    for c in cmds:
                        if c['operation'] == 'target_rm':
                            c.pop('sources', None)
                    P.append((f'twin:{template}:{layout}:{seq}:addressed-{k}', files, cmds, 'cli' if (j + k) % 2 else 'json', False))
    return P


def run_probes(root: str, which: T.Optional[T.Tuple[int, int]] = None, twins: bool = False, everything: bool = False) -> dict:
    out: T.Dict[str, T.Any] = {'counts': {}, 'violations': [], 'samples': [], 'cases': [], 'notes': []}
    rng = random.Random(1)
    if which is not None and twins:
        for name, files, cmds, via, inside in twin_probes(which[0], which[1], everything):
            o = run_sequence(root, 'tprobe_' + re.sub(r'\W', '_', name), files, [], rng, cmds, 3, inside, force_via=via, do_batch=(via == 'json'),
                             with_ids=True)
            for v in o['violations']:
                v['probe'] = name
            merge(out, o)
            out['counts']['probes:twin-directories'] = out['counts'].get('probes:twin-directories', 0) + 1
            for k in ('twin-template:' + name.split(':')[1], 'twin-layout:' + name.split(':')[2], 'twin-sequence:' + name.split(':')[3]):
                out['counts'][k] = out['counts'].get(k, 0) + 1
        return out
    if which is not None:
        for name, files, cmds, via, inside in shared_probes(*which):
            o = run_sequence(root, 'sprobe_' + re.sub(r'\W', '_', name), files, [], rng, cmds, 3, inside, force_via=via, do_batch=False)
            for v in o['violations']:
                v['probe'] = name
            merge(out, o)
            out['counts']['probes:shared-through-indirection'] = out['counts'].get('probes:shared-through-indirection', 0) + 1
            k = 'shared-probe:' + name.split(':')[1]
            out['counts'][k] = out['counts'].get(k, 0) + 1
        return out
    for name, files, cmds, via, inside, *rest in probes():
        o = run_sequence(root, 'probe_' + re.sub(r'\W', '_', name), files, [], rng, cmds, 3, inside, force_via=via,
                         configs=rest[0] if rest else None)
        for v in o['violations']:
            v['probe'] = name
        merge(out, o)
        out['counts']['probes'] = out['counts'].get('probes', 0) + 1
    return out


def probe_worker(root: str) -> dict:
    return run_probes(root)


SHARED_PROBE_PARTS = 3
TWIN_PROBE_PARTS = 3


# ------------------------------------------------------------------------------------------------

def replay(chk: common.Check, path: str) -> int:
    with open(path, encoding='utf-8') as f:
        w = json.load(f)
    boot()
    root = common.scratch_dir('c17r')
    files = w.get('files') or w.get('original_files')
    via = w.get('via', 'json')
    if via == 'json-batch':
        o = run_sequence(root, 'replay', files, [], random.Random(0), w['steps'], 3, bool(w.get('inside_exist')), force_via='json',
                         configs=w.get('configs'), with_ids=bool(w.get('with_ids')))
    else:
        o = run_sequence(root, 'replay', files, [], random.Random(0), w['steps'], 3, bool(w.get('inside_exist')), force_via=via,
                         do_batch=False, configs=w.get('configs'), with_ids=bool(w.get('with_ids')))
    if o['violations']:
        v = o['violations'][0]
        print(f'replay: still fails: mechanism={v["mechanism"]} oracle={v["oracle"]}')
        print(json.dumps({k: v[k] for k in v if k not in ('files', 'original_files')}, indent=1, default=repr)[:3000])
        return 1
    print('replay: the case no longer fails')
    return 0


def main() -> int:
    chk = common.Check(PID)
    if os.environ.get('VERIF_REPLAY'):
        return replay(chk, os.environ['VERIF_REPLAY'])
    boot()
    root = common.scratch_dir('c17')
    quick = chk.tier == 'quick'
    nproj = int(os.environ.get('C17_PROJECTS', '150' if quick else '3000'))
    nseq = 4 if quick else 7           # sequences per project (1..3 commands each, + batch re-runs): ~6 / ~12 commands
    budget = 75.0 if quick else 1050.0
    deadline = chk.t0 + budget
    jobs = [(root, chk.seed, i, nseq, 3, deadline) for i in range(nproj)]
    agg: T.Dict[str, T.Any] = {'counts': {}, 'violations': [], 'samples': [], 'cases': [], 'notes': []}
    feats: T.Dict[str, int] = {}
    results = common.pmap(_dispatch, [('probes', root)] + [('shared-probes', (root, k, SHARED_PROBE_PARTS)) for k in range(SHARED_PROBE_PARTS)]
                          + [('twin-probes', (root, k, TWIN_PROBE_PARTS, not quick)) for k in range(TWIN_PROBE_PARTS)]
                          + [('job', j) for j in jobs], chk.jobs)
    for o in results:
        merge(agg, o)
        for f in o.get('features', []):
            feats[f] = feats.get(f, 0) + 1
    for k, v in agg['counts'].items():
        chk.count(k, v)
    for c in agg['cases']:
        chk.case(c)
    for s in agg['samples'][:8]:
        chk.sample(s)
    if agg['notes']:
        chk.notes['rewriter_internal_errors_not_judged_by_C17'] = agg['notes'][:8]
    if os.environ.get('C17_DUMP'):
        with open(os.environ['C17_DUMP'], 'w', encoding='utf-8') as f:
            for v in agg['violations']:
                f.write(json.dumps(v, default=repr) + '\n')
    for v in agg['violations']:
        mech = v.pop('mechanism')
        chk.violation(mech, v)
    for name in ('monitor:apply_changes', 'monitor:printer_visits', 'oracle:parse', 'oracle:locality',
                 'oracle:other-calls-unchanged', 'oracle:other-args-unchanged', 'oracle:variables-unchanged',
                 'oracle:info', 'oracle:kwargs-info', 'oracle:batch-equals-stepwise', 'oracle:value:src_add', 'oracle:value:src_rm',
                 'oracle:value:kwargs:set', 'oracle:value:kwargs:delete', 'oracle:value:default_options:set',
                 'oracle:roundtrip:add-then-rm', 'oracle:roundtrip:rm-then-add', 'oracle:roundtrip-end-state', 'probes',
                 'probes:shared-through-indirection', 'probes:twin-directories', 'monitor:target-ids-from-introspect',
                 'oracle:info-addressed-by-id'):
        chk.require(name, 1)
    chk.require('outcome:applied', 50 if quick else 1000)
    if agg['counts'].get('harness-error', 0):
        chk.inconclusive.append(f"harness-error x{agg['counts']['harness-error']} (see notes)")
    return chk.finish(
        rule='one case = (project state, rewriter command, CLI|JSON form); projects are generated (targets, dependency(), '
             'project() with expression-valued other arguments; 12 source shapes; optional subdir); commands are generated '
             'from the reference model of the current state; distinct = digest of (files, command, form)',
        assumptions=['the reference interpreter vf.ref.refmeson evaluates the core language as documented',
                     'a command that exits non-zero without modifying a file is a refusal, not a violation '
                     '(internal errors of the analysis are counted in outcome:refused:internal-error and sampled in notes)',
                     'source order inside a target is not meaningful (Rewriter.md: sources are sorted); keyword order and all values are',
                     'documented refusals (warning/skip lines in the -V log) leave the addressed value unchanged'],
        extra={'project_features': dict(sorted(feats.items()))})


def _dispatch(item: T.Tuple[str, T.Any]) -> dict:
    kind, arg = item
    if kind == 'probes':
        return probe_worker(arg)
    if kind == 'shared-probes':
        return run_probes(arg[0], (arg[1], arg[2]))
    if kind == 'twin-probes':
        return run_probes(arg[0], (arg[1], arg[2]), twins=True, everything=arg[3])
    return worker(arg)


if __name__ == '__main__':
    sys.exit(main())
