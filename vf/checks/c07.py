"""C07 -- option values resolve by the documented precedence and are always valid.

Workload: generated two-project trees (top + subprojects/sub) in which every *source* of an option
value (project(default_options), subproject's own default_options, machine-file sections, -D,
`sub:` forms, subproject(default_options:)) sets a value chosen so that the observed value names the
source that won.  All 2^3 x {declared default given / omitted} top-level subsets and all 2^8
subproject subsets are enumerated per option kind.  Oracle: vf/ref/refoptions.py (documentation
only).  Observation: message() of get_option() in both build files of a real
`meson setup --backend=none`, meson-info/intro-buildoptions.json (top-level values only), and the real
OptionStore.get_value_for on the coredata.dat loaded back in the child.  Monitors
(vf/monitors/c07_options.py): stored-value invariant at initialize_from_* / coredata.save,
set_option / set_user_option trace.  Invalid values of every kind at every source must be rejected
with a MesonException (exit 1, no traceback, build dir not left configured).

The command-line source has a shape of its own (cmd_option_groups / vary_command_line / gen_cli_buildtype):
every builtin can be written -Dname=value, --name=value or --name value, independently per option; the
arguments can stand in any order; and three commands accept them (meson setup, meson configure, meson setup
--reconfigure).  None of this is a source in the documented orders, so every shape must give the value the
plain `-D..., buildtype first` spelling gives; the group BTO enumerates the one documented interaction between
arguments (buildtype vs explicit debug/optimization) over order x spelling x command.
"""
from __future__ import annotations

import itertools
import json
import os
import shutil
import sys
import time
import typing as T

from vf import common, runner
from vf.ref import refoptions as R
from vf.monitors import c07_options as mon

PID = 'C07'
S = R.SUB_SOURCES            # the eight source names, increasing priority
(S1, S2, S3, S4, S5, S6, S7, S8) = S
GCC = shutil.which('gcc') or '/usr/bin/gcc'

# =============================================================================================
# option catalogue

PROJECT_KINDS: T.Dict[str, dict] = {
    'ps': {'kind': 'string'},
    'pb': {'kind': 'boolean'},
    'pi': {'kind': 'integer', 'min': 0, 'max': 1000},
    'pc': {'kind': 'combo', 'choices': [f'c{i}' for i in range(12)]},
    'pa': {'kind': 'array', 'choices': [f'a{i}' for i in range(12)]},
    'pf': {'kind': 'feature'},
}
BUILTIN_PERSUB = ['unity_size', 'warning_level', 'default_library', 'werror', 'strip', 'unity',
                  'default_both_libraries', 'namingscheme']
BUILTIN_GLOBAL = ['errorlogs', 'stdsplit', 'auto_features', 'layout', 'install_umask', 'wrap_mode',
                  'force_fallback_for', 'prefer_static', 'pkg_config_path', 'cmake_prefix_path',
                  'bindir', 'datadir', 'mandir', 'python.bytecompile', 'python.install_env',
                  'python.platlibdir', 'python.purelibdir', 'python.allow_limited_api',
                  'pkgconfig.relocatable']
# get_option('install_umask') in a build file dies with MesonBugException (OctalInt has no holder): an
# interpreter defect outside C07's statement (reported separately); observed via intro + in-process only.
NO_MESSAGE = {'install_umask'}
C_STDS = ['c89', 'c99', 'c11', 'c17', 'c18', 'c2x', 'gnu89', 'gnu99', 'gnu11', 'gnu17']


def spec_of(name: str) -> R.Spec:
    if name in PROJECT_KINDS:
        d = PROJECT_KINDS[name]
        return R.Spec(d['kind'], None, d.get('choices'), d.get('min'), d.get('max'))
    if name == 'c_args' or name == 'c_link_args':
        return R.Spec('array', [], per_subproject=True)
    if name == 'c_std':
        return R.Spec('combo', 'none', ['none'] + C_STDS, per_subproject=True)
    return R.BUILTINS[name]


def domain(name: str) -> T.Optional[T.List[T.Any]]:
    """Small value domain (cannot give every source its own value) or None for a rich kind."""
    sp = spec_of(name)
    if sp.kind == 'boolean':
        return [False, True]
    if sp.kind == 'feature':
        return ['enabled', 'disabled', 'auto']
    if sp.kind == 'combo' and len(sp.choices or []) < 11:
        return [c for c in (sp.choices or []) if c != 'custom']
    if name == 'python.bytecompile':
        return [0, 1, 2]   # (a negative integer literal is not accepted by the machine-file parser)
    return None


def rich_value(name: str, idx: int) -> T.Any:
    """idx: 0 top declared default, 1 sub declared default, 2..9 the sources s1..s8."""
    sp = spec_of(name)
    tag = ['dt', 'ds', 's1', 's2', 's3', 's4', 's5', 's6', 's7', 's8'][idx]
    if sp.kind == 'string':
        return f'vf_{name.replace(".", "_")}_{tag}'
    if sp.kind == 'integer':
        return 100 + idx if name == 'pi' else 10 + idx
    if sp.kind == 'umask':
        return [0o022, 0o077, 0o027, 0o002, 0o007, 0o037, 0o072, 0o070, 0o020, 0o000][idx] if idx else 0o022
    if sp.kind == 'combo':
        ch = [c for c in (sp.choices or []) if c not in ('none', 'custom')]
        return ch[idx]
    if sp.kind == 'array':
        if sp.choices:
            return [sp.choices[idx], sp.choices[(idx + 5) % len(sp.choices)]]
        if name.endswith('_path'):
            return [f'/vf/{tag}/a', f'/vf/{tag}/b']
        if name in ('c_args', 'c_link_args'):
            # one element: Builtin-options.md calls c_args "comma-separated", the code splits it shell-style;
            # that string syntax is not C07's subject, a single argument is the same list in both readings
            return [f'-DVF_{tag.upper()}=1']
        return [f'vf{tag}a', f'vf{tag}b']
    raise ValueError((name, sp.kind))


def assign(name: str, present: T.Sequence[str], win_top: T.Optional[str], win_sub: T.Optional[str],
           default_top: T.Any, default_sub: T.Any, variant: int, fixed_default: bool
           ) -> T.Tuple[T.Dict[str, T.Any], T.Any, T.Any]:
    """Choose a value per present source.  Rich kinds: all distinct.  Small domains: the winners
    (as named by the reference) get values no other source and no default has, as far as the
    domain allows; for two-valued domains `variant` says which of the two observers is decisive.
    Returns (values, declared default top, declared default sub)."""
    dom = domain(name)
    if dom is None:
        vals = {s: rich_value(name, 2 + S.index(s)) for s in present}
        return vals, default_top, default_sub
    if fixed_default:
        D = default_top
    else:
        D = dom[(variant + len(present)) % len(dom)]
        default_top = default_sub = D
    others = [v for v in dom if v != D]
    winners = [w for w in (win_sub, win_top) if w in present]
    if variant % 2 == 1:
        winners.reverse()
    wvals: T.Dict[str, T.Any] = {}
    pool = others[variant % len(others):] + others[:variant % len(others)]
    for w in winners:
        if w in wvals:
            continue
        free = [v for v in pool if v not in wvals.values()]
        wvals[w] = free[0] if free else D
    losers_pool = [v for v in dom if v not in wvals.values()] or [D]
    vals = {}
    i = 0
    for s in present:
        if s in wvals:
            vals[s] = wvals[s]
        else:
            vals[s] = losers_pool[i % len(losers_pool)]
            i += 1
    return vals, default_top, default_sub


# =============================================================================================
# scenario -> files / argv

def emit_str(v: T.Any) -> str:
    """Value as written after `opt=` on the command line or in a default_options string."""
    if isinstance(v, bool):
        return 'true' if v else 'false'
    if isinstance(v, list):
        return ','.join(v)
    if isinstance(v, dict) and 'raw' in v:
        return str(v['raw'])
    return str(v)


def emit_ini(v: T.Any, name: str = '') -> str:
    if isinstance(v, dict) and 'ini' in v:
        return str(v['ini'])
    if isinstance(v, dict) and 'raw' in v:
        return "'" + str(v['raw']) + "'"
    if isinstance(v, bool):
        return 'true' if v else 'false'
    if isinstance(v, int):
        if name == 'install_umask':
            return "'" + format(v, '04o') + "'"
        return str(v)
    if isinstance(v, list):
        return '[' + ', '.join("'" + x + "'" for x in v) + ']'
    return "'" + str(v) + "'"


def emit_cmd(v: T.Any, name: str) -> str:
    if name == 'install_umask' and isinstance(v, int) and not isinstance(v, bool):
        return format(v, '04o')
    return emit_str(v)


def decl_line(name: str, d: dict) -> str:
    """option() line; d: kind, value (or absent), choices, min, max, yield."""
    parts = [f"'{name}'", f"type: '{d['kind']}'"]
    if d.get('choices') is not None:
        parts.append('choices: ' + emit_ini(d['choices']))
    if 'value' in d:
        v = d['value']
        if d['kind'] in ('boolean', 'integer'):
            parts.append('value: ' + emit_str(v))
        else:
            parts.append('value: ' + emit_ini(v))
    if d.get('min') is not None:
        parts.append(f"min: {d['min']}")
    if d.get('max') is not None:
        parts.append(f"max: {d['max']}")
    if d.get('yield'):
        parts.append('yield: true')
    return 'option(' + ', '.join(parts) + ')\n'


def probe_lines(where: str, names: T.Sequence[str], kinds: T.Mapping[str, str]) -> str:
    out = []
    for i, n in enumerate(names):
        if kinds[n] == 'feature':
            v = f'_vf_{where}_{i}'
            out.append(f"{v} = get_option('{n}')\n"
                       f"if {v}.enabled()\n  message('VF|{where}|{n}|enabled')\n"
                       f"elif {v}.disabled()\n  message('VF|{where}|{n}|disabled')\n"
                       f"else\n  message('VF|{where}|{n}|auto')\nendif\n")
        else:
            out.append(f"message('VF|{where}|{n}|@0@'.format(get_option('{n}')))\n")
    return ''.join(out)


def do_list(entries: T.Sequence[T.Tuple[str, T.Any]], form: str) -> str:
    if form == 'dict':
        items = []
        for k, v in entries:
            if isinstance(v, dict) and 'raw' in v:
                items.append(f"'{k}': '{v['raw']}'")
            elif isinstance(v, (bool, int)) and not k.endswith('install_umask'):
                items.append(f"'{k}': {emit_str(v)}")
            elif isinstance(v, list):
                items.append(f"'{k}': {emit_ini(v)}")
            else:
                items.append(f"'{k}': '{emit_cmd(v, k.split(':')[-1])}'")
        return '{' + ', '.join(items) + '}'
    return '[' + ', '.join("'" + k + '=' + emit_cmd(v, k.split(':')[-1]) + "'" for k, v in entries) + ']'


def is_project_opt(sc: dict, name: str) -> bool:
    return name in sc['top_decl'] or name in sc['sub_decl']


def build_tree(sc: dict, root: str) -> T.Tuple[str, str, T.List[str]]:
    """Write the scenario's source tree; returns (srcdir, builddir, argv)."""
    src = os.path.join(root, 'src')
    bdir = os.path.join(root, 'b')
    srcs: T.Dict[str, T.List[T.List[T.Any]]] = sc['src']
    form = sc.get('do_form', 'list')
    lang = sc.get('lang')
    langarg = f", '{lang}'" if lang else ''

    def entries(source: str, prefix: str = '') -> T.List[T.Tuple[str, T.Any]]:
        return [(prefix + n, v) for n, v in srcs.get(source, [])]

    top_do = entries(S1) + entries(S5, 'sub:')
    sub_do = entries(S2)
    call_do = entries(S6)
    kinds = sc['kinds']
    kinds_top = {**kinds, **sc.get('kinds_top', {})}
    top_probe = [p for p in sc['probe_top'] if p not in NO_MESSAGE]
    sub_probe = [p for p in sc['probe_sub'] if p not in NO_MESSAGE]
    top = f"project('top'{langarg}, meson_version: '>=1.8.0'"
    if top_do:
        top += ', default_options: ' + do_list(top_do, form)
    top += ')\n' + probe_lines('top', top_probe, kinds_top)
    hist = sc.get('history') or {}
    if not sc.get('no_sub') and not sc.get('omit_subcall'):
        call = "subproject('sub'"
        if hist.get('mode') == 'retry':
            call += ', required: false'
        if call_do:
            call += ', default_options: ' + do_list(call_do, form)
        call += ')\n'
        if hist.get('mode') == 'late-gate':
            call = "if get_option('vf_use_sub')\n  " + call + 'endif\n'
        top += call + probe_lines('top2', top_probe, kinds_top)
    sub_lang = sc.get('sub_lang', lang)
    sub_langarg = f", '{sub_lang}'" if sub_lang else ''
    sub = f"project('sub'{sub_langarg}, meson_version: '>=1.8.0'"
    if sub_do:
        sub += ', default_options: ' + do_list(sub_do, form)
    sub += ')\n' + probe_lines('sub', sub_probe, kinds)
    files = {'meson.build': top}
    if not sc.get('no_sub'):
        files['subprojects/sub/meson.build'] = sub
    if sc['top_decl'] or hist.get('mode') == 'late-gate':
        files['meson.options'] = ''.join(decl_line(n, d) for n, d in sc['top_decl'].items())
        if hist.get('mode') == 'late-gate':
            files['meson.options'] += "option('vf_use_sub', type: 'boolean', value: false)\n"
    if sc['sub_decl'] and not sc.get('no_sub'):
        files['subprojects/sub/meson.options'] = ''.join(decl_line(n, d) for n, d in sc['sub_decl'].items())
    # machine file
    sections: T.Dict[str, T.List[str]] = {}
    native_build: T.Dict[str, T.List[str]] = {}
    for source, pfx in ((S3, ''), (S7, 'sub:')):
        for n, v in srcs.get(source, []):
            if sc.get('cross') and n.startswith('build.'):
                # the build machine's value of a per-machine option comes from the native file (unprefixed there)
                native_build.setdefault(pfx + 'built-in options', []).append(f'{n[6:]} = {emit_ini(v, n)}')
                continue
            proj = n in (sc['top_decl'] if source == S3 else sc['sub_decl']) or sc.get('force_project_section', {}).get(n)
            sec = pfx + ('project options' if proj else 'built-in options')
            sections.setdefault(sec, []).append(f'{n} = {emit_ini(v, n)}')
    argv = ['setup', '--backend=none']
    mtxt = ''.join(f'[{sec}]\n' + '\n'.join(lines) + '\n' for sec, lines in sections.items())
    if sc.get('cross'):
        cross = ("[binaries]\nc = '%s'\nar = 'ar'\nstrip = 'strip'\n"
                 "[host_machine]\nsystem = 'linux'\ncpu_family = 'x86_64'\ncpu = 'x86_64'\nendian = 'little'\n" % GCC)
        files['cross.ini'] = cross + mtxt
        argv += ['--cross-file', os.path.join(src, 'cross.ini')]
        decoy = sc.get('native_decoy')
        if native_build:
            decoy = (decoy or '') + ''.join(f'[{sec}]\n' + '\n'.join(lines) + '\n' for sec, lines in native_build.items())
        if decoy:
            files['native.ini'] = decoy
            argv += ['--native-file', os.path.join(src, 'native.ini')]
    elif mtxt or sc.get('always_native'):
        files['native.ini'] = mtxt
        argv += ['--native-file', os.path.join(src, 'native.ini')]
    if sc.get('entry', 'setup') == 'setup':
        # (other entry points: the option arguments are given to a later command, see run_scenario)
        argv += cmd_option_args(sc)
    for fn, text in sc.get('extra_files', {}).items():
        files[fn] = text
    argv += [a.replace('@SRC@', src) for a in sc.get('extra_argv', [])]
    argv += [bdir, src]
    runner.write_tree(src, files)
    return src, bdir, argv


CMD_FORMS = ('D', 'long-eq', 'long-space')


def cmd_option_groups(sc: dict) -> T.List[T.Tuple[str, str, T.List[str]]]:
    """The command-line source(s) of a scenario as (option name, spelling used, argv tokens) per option, in
    the order the arguments are written.
      spelling  sc['cmd_forms'][name], else sc['cmd_form'], else 'D':  -Dname=value | --name=value | --name value
                (Builtin-options.md: "Some options can also be set by --option=value, or --option value";
                "--warnlevel is the cli argument for the warning_level option"; a boolean's dedicated
                spelling is the bare flag and can only say true, so false is always written with -D)
      order     sc['cmd_order']: absent = as generated (global entries, then sub: entries);
                'reverse'; {'shuffle': n} seeded permutation; {'perm': [names...]} the named options in
                that order first.  The documents order SOURCES, never positions on one command line, and
                no scenario names an option twice on it, so every order states the same configuration."""
    srcs = sc['src']
    forms = sc.get('cmd_forms') or {}
    groups: T.List[T.Tuple[str, str, T.List[str]]] = []
    cmd_entries = list(srcs.get(S4, []))
    if sc.get('cmd_bt_last'):
        cmd_entries = [e for e in cmd_entries if e[0] != 'buildtype'] + [e for e in cmd_entries if e[0] == 'buildtype']
    for n, v in cmd_entries:
        bare = n[6:] if n.startswith('build.') else n
        form = forms.get(n, sc.get('cmd_form', 'D'))
        if form != 'D' and bare in R.BUILTINS and not (isinstance(v, bool) and not v):
            arg = '--warnlevel' if n == 'warning_level' else '--' + n.replace('_', '-')
            if isinstance(v, bool):
                groups.append((n, 'long-flag', [arg]))
            elif form == 'long-eq':
                groups.append((n, form, [f'{arg}={emit_cmd(v, bare)}']))
            else:
                groups.append((n, 'long-space', [arg, emit_cmd(v, bare)]))
        else:
            groups.append((n, 'D', [f'-D{n}={emit_cmd(v, bare)}']))
    for n, v in srcs.get(S8, []):
        groups.append(('sub:' + n, 'D', [f'-Dsub:{n}={emit_cmd(v, n)}']))
    order = sc.get('cmd_order')
    if order == 'reverse':
        groups.reverse()
    elif isinstance(order, dict) and 'shuffle' in order:
        import random
        random.Random(int(order['shuffle'])).shuffle(groups)
    elif isinstance(order, dict) and 'perm' in order:
        pos = {n: i for i, n in enumerate(order['perm'])}
        groups.sort(key=lambda g: pos.get(g[0], len(pos)))
    return groups


def cmd_option_args(sc: dict) -> T.List[str]:
    return [tok for _n, _f, toks in cmd_option_groups(sc) for tok in toks]


def cli_cell(sc: dict) -> T.Optional[str]:
    """Coverage cell of the one documented interaction BETWEEN arguments of a command line (buildtype sets
    debug/optimization "unless they are given explicitly"): entry point : spelling of buildtype : whether an
    explicit debug/optimization is written before it."""
    groups = cmd_option_groups(sc)
    names = [g[0] for g in groups]
    if 'buildtype' not in names or not ({'debug', 'optimization'} & set(names)):
        return None
    i = names.index('buildtype')
    before = bool({'debug', 'optimization'} & set(names[:i]))
    form = 'D' if groups[i][1] == 'D' else 'long'
    return f"{sc.get('entry', 'setup')}:buildtype-{form}:{'after-explicit' if before else 'first'}"


# =============================================================================================
# running one scenario

def parse_messages(out: str) -> T.Dict[str, T.List[str]]:
    obs: T.Dict[str, T.List[str]] = {}
    for line in out.splitlines():
        i = line.find('Message: VF|')
        if i < 0:
            continue
        parts = line[i + len('Message: VF|'):].split('|', 2)
        if len(parts) == 3:
            obs.setdefault(parts[0] + '|' + parts[1], []).append(parts[2])
    return obs


def same(name: str, expected: T.Any, observed_txt: str) -> bool:
    if name == 'install_umask' and isinstance(expected, int):
        try:
            return int(observed_txt, 0) == expected
        except ValueError:
            try:
                return int(observed_txt, 8) == expected
            except ValueError:
                return False
    return R.render(expected) == observed_txt


def same_val(expected: T.Any, got: T.Any) -> bool:
    if isinstance(expected, bool) != isinstance(got, bool):
        return False
    return expected == got


def run_scenario(sc: dict, root: str) -> dict:
    """Run one scenario; returns plain data: rc, observations, monitor records, mismatches."""
    shutil.rmtree(root, ignore_errors=True)
    os.makedirs(root)
    try:
        hist = sc.get('history')
        pre: dict = {}
        if hist:
            # phase 1: a setup that does not (successfully) configure the subproject, all sources already given
            sc1 = json.loads(json.dumps(sc))
            if hist['mode'] == 'late-edit':
                sc1['omit_subcall'] = True
            elif hist['mode'] == 'retry':
                for e in sc1['src'][hist['poison_source']]:
                    if e[0] == hist['poison_name']:
                        e[1] = hist['poison_value']
            src, bdir, argv1 = build_tree(sc1, root)
            r1 = runner.meson(argv1, cwd=src, env={'MESON_FORCE_BACKTRACE': ''}, timeout=120)
            pre = {'phase1_rc': r1.rc, 'phase1_argv': argv1[:-2]}
            sub_ran = 'Message: VF|sub|' in r1.out
            if r1.timed_out or r1.traceback or r1.rc != 0 or sub_ran:
                return {'id': sc['id'], 'rc': r1.rc, 'timed_out': r1.timed_out, 'traceback': r1.traceback, 'wall': r1.wall,
                        'mismatch': [], 'counts': {}, 'argv': argv1[:-2], 'phase1_stopped': True, 'phase1_sub_ran': sub_ran,
                        'configured': os.path.exists(os.path.join(bdir, 'meson-private', 'coredata.dat')),
                        'err_tail': (r1.out[-600:] if r1.rc != 0 else '') + r1.err[-600:], **pre}
            # phase 2: the (corrected) tree, reconfigured without repeating what the first command line said
            build_tree(sc1 if 'fix_via_cmd' in hist else sc, root)
            extra: T.List[str] = []
            if hist['mode'] == 'late-gate':
                extra = ['-Dvf_use_sub=true']
            elif hist['mode'] == 'retry' and 'fix_via_cmd' in hist:
                extra = [f"-Dsub:{hist['poison_name']}={emit_cmd(hist['fix_via_cmd'], hist['poison_name'])}"]
            elif hist['mode'] == 'retry' and hist['poison_source'] == S8:
                good = [v for n, v in sc['src'][S8] if n == hist['poison_name']][0]
                extra = [f"-Dsub:{hist['poison_name']}={emit_cmd(good, hist['poison_name'])}"]
            argv = ['setup', '--reconfigure'] + extra + [bdir, src]
        else:
            src, bdir, argv = build_tree(sc, root)
        names = sorted(set(sc['probe_top']) | set(sc['probe_sub']))
        probes: T.List[T.Tuple[str, T.Optional[str]]] = []
        for n in sc['probe_top']:
            probes.append((n, '' if n in sc['top_decl'] else None))
        for n in sc['probe_sub']:
            probes.append((n, 'sub'))
        trace = set(names) | {'buildtype', 'debug', 'optimization', 'prefix'}
        entry = sc.get('entry', 'setup')
        after_configure: T.Optional[dict] = None
        if entry != 'setup' and not hist:
            # the command-line source reaches the build directory through another command that accepts
            # option arguments: `meson configure <args>` or `meson setup --reconfigure <args>`, after a
            # first setup that saw every other source
            def stopped(phase: str, rr: T.Any, av: T.List[str]) -> dict:
                return {'id': sc['id'], 'rc': rr.rc, 'timed_out': rr.timed_out, 'traceback': rr.traceback, 'wall': rr.wall,
                        'mismatch': [], 'counts': {}, 'argv': av, 'entry_stopped': phase,
                        'configured': os.path.exists(os.path.join(bdir, 'meson-private', 'coredata.dat')),
                        'err_tail': (rr.out[-600:] if rr.rc != 0 else '') + rr.err[-600:], **pre}
            r1 = runner.meson(argv, cwd=src, env={'MESON_FORCE_BACKTRACE': ''}, timeout=120)
            pre = {'phase1_rc': r1.rc, 'phase1_argv': argv[:-2]}
            if r1.timed_out or r1.traceback or r1.rc != 0:
                return stopped('first-setup', r1, argv[:-2])
            if entry == 'configure':
                argv2 = ['configure'] + cmd_option_args(sc) + [bdir]
                r2 = runner.meson(argv2, cwd=src, env={'MESON_FORCE_BACKTRACE': ''},
                                  monitors=[mon.make(bdir, probes, sorted(trace))], timeout=120)
                pre['configure_rc'] = r2.rc
                pre['configure_argv'] = argv2[:-1]
                if r2.timed_out or r2.traceback or r2.rc != 0:
                    return stopped('configure', r2, argv2[:-1])
                for ev in r2.records:
                    if ev.get('ev') == 'loaded' and ev.get('values'):
                        after_configure = {('sub|' if sub == 'sub' else 'top|') + n: (ok, v) for n, sub, ok, v in ev['values']}
                argv = ['setup', '--reconfigure', bdir, src]
            else:
                argv = ['setup', '--reconfigure'] + cmd_option_args(sc) + [bdir, src]
        r = runner.meson(argv, cwd=src, env={'MESON_FORCE_BACKTRACE': ''}, monitors=[mon.make(bdir, probes, sorted(trace))], timeout=120)
        res: dict = {'id': sc['id'], 'rc': r.rc, 'timed_out': r.timed_out, 'traceback': r.traceback,
                     'wall': r.wall, 'mismatch': [], 'counts': {}, 'argv': argv[:-2], **pre}
        cnt = res['counts']
        if hist:
            cnt['monitor:first_init_by_later_command:' + hist['mode']] = 1
        if entry != 'setup' and not hist:
            cnt['monitor:cmdline_entry:' + entry] = 1
        # command-line shape coverage: which spelling each option got and whether the order was permuted
        cgroups = cmd_option_groups(sc)
        for _n, f_, _t in cgroups:
            cnt['cmdline_spelling:' + f_] = cnt.get('cmdline_spelling:' + f_, 0) + 1
        if len(cgroups) > 1 and (sc.get('cmd_order') or sc.get('cmd_bt_last')):
            cnt['cmdline_order_permuted'] = 1
        if len({f_ == 'D' for _n, f_, _t in cgroups}) > 1:
            cnt['cmdline_spellings_mixed'] = 1
        ca = cli_cell(sc)
        if ca:
            cnt['monitor:cmdline_cell:' + ca] = 1
        if r.timed_out:
            return res
        configured = os.path.exists(os.path.join(bdir, 'meson-private', 'coredata.dat'))
        res['configured'] = configured
        res['err_tail'] = (r.out[-600:] if r.rc != 0 else '') + r.err[-600:]
        # monitor records
        inv_bad: T.List[dict] = []
        loaded = None
        trace_evs: T.List[dict] = []
        for ev in r.records:
            k = ev.get('ev')
            if k == 'invariant':
                cnt['monitor:invariant:' + ev['at']] = cnt.get('monitor:invariant:' + ev['at'], 0) + 1
                cnt['monitor:invariant_values_checked'] = cnt.get('monitor:invariant_values_checked', 0) + ev['checked']
                for b in ev['bad']:
                    inv_bad.append({'at': ev['at'], **b})
            elif k == 'loaded':
                loaded = ev
            elif k in ('set_option', 'set_user_option'):
                trace_evs.append(ev)
            elif k == 'counts':
                cnt['monitor:set_option_calls'] = ev['set_option']
                cnt['monitor:set_user_option_calls'] = ev['set_user_option']
            elif k == 'monitor_error':
                cnt['monitor_error'] = cnt.get('monitor_error', 0) + 1
        if loaded and loaded.get('exists') and 'bad' in loaded:
            cnt['monitor:invariant:loaded'] = 1
            cnt['monitor:invariant_values_checked'] = cnt.get('monitor:invariant_values_checked', 0) + loaded['checked']
            for b in loaded['bad']:
                inv_bad.append({'at': 'loaded', **b})
        res['invariant_bad'] = inv_bad
        res['trace'] = [[e['ev'][4:], e['phase'], e.get('depth', 0), e['key'], e['value']] for e in trace_evs][:80]
        if sc.get('expect_fail'):
            return res
        if r.rc != 0:
            return res
        # observations
        msgs = parse_messages(r.out)
        intro: T.Dict[str, T.Any] = {}
        try:
            with open(os.path.join(bdir, 'meson-info', 'intro-buildoptions.json'), encoding='utf-8') as f:
                for e in json.load(f):
                    if e.get('machine', 'any') != 'build' or str(e.get('name', '')).startswith('build.'):
                        intro[e['name']] = e['value']
        except (OSError, ValueError):
            intro = {}
        inproc: T.Dict[str, T.Any] = {}
        if loaded and loaded.get('values'):
            for n, sub, ok, v in loaded['values']:
                inproc[('sub|' if sub == 'sub' else 'top|') + n] = (ok, v)
        res['observed'] = {k: v for k, v in msgs.items()}
        for key, exp in sc['expect'].items():
            where, name = key.split('|', 1)
            chans: T.List[T.Tuple[str, T.Any, bool]] = []   # channel, observed, equal?
            wl = [where] + (['top2'] if where == 'top' and not sc.get('no_sub') else [])
            documented = exp['documented']
            if exp.get('dir_default_of_observed_prefix'):
                # the default of a prefix-dependent directory must belong to the prefix meson itself reports
                op = msgs.get('top|prefix')
                if op and len(op) == 1:
                    exp = dict(exp, value=R.dir_default(name, op[0]))
                    cnt['monitor:dir_default_follows_reported_prefix'] = cnt.get('monitor:dir_default_follows_reported_prefix', 0) + 1
            allowed = [exp['value']] if documented else exp['allowed']
            for w in ([] if name in NO_MESSAGE else wl):
                got = msgs.get(w + '|' + name)
                cnt['monitor:get_option_message'] = cnt.get('monitor:get_option_message', 0) + 1
                if got is None or len(got) != 1:
                    chans.append((f'message:{w}', got, False))
                else:
                    chans.append((f'message:{w}', got[0], any(same(name, a, got[0]) for a in allowed)))
            if where == 'top' and sc.get('use_intro', True):
                cnt['monitor:intro_buildoptions_top'] = cnt.get('monitor:intro_buildoptions_top', 0) + 1
                if name in intro:
                    iv = intro[name]
                    ok = any(same_val(a, iv) or (name == 'install_umask' and same(name, a, str(iv))) or
                             (isinstance(iv, str) and not isinstance(a, str) and R.render(a) == iv) for a in allowed)
                    chans.append(('intro', iv, ok))
                else:
                    # an option missing from the introspection file is C15's business, not a precedence fact
                    cnt['intro_option_absent:' + name] = cnt.get('intro_option_absent:' + name, 0) + 1
            ip = inproc.get(where + '|' + name)
            cnt['monitor:inprocess_get_value_for'] = cnt.get('monitor:inprocess_get_value_for', 0) + 1
            if ip is None or not ip[0]:
                chans.append(('inprocess', ip, False))
            else:
                chans.append(('inprocess', ip[1], any(same_val(a, ip[1]) for a in allowed)))
            if after_configure is not None:
                # what `meson configure` itself persisted, before the next reconfigure looks at it
                ac = after_configure.get(where + '|' + name)
                cnt['monitor:inprocess_after_configure'] = cnt.get('monitor:inprocess_after_configure', 0) + 1
                if ac is None or not ac[0]:
                    chans.append(('after-configure', ac, False))
                else:
                    chans.append(('after-configure', ac[1], any(same_val(a, ac[1]) for a in allowed)))
            if documented:
                cnt['cells_documented'] = cnt.get('cells_documented', 0) + 1
            else:
                cnt['cells_consistency_only'] = cnt.get('cells_consistency_only', 0) + 1
            if not all(c[2] for c in chans):
                res['mismatch'].append({'where': where, 'name': name, 'expected': exp,
                                        'channels': [[c[0], c[1], c[2]] for c in chans]})
        return res
    finally:
        shutil.rmtree(root, ignore_errors=True)


# =============================================================================================
# scenario generators

def new_sc(id_: str, group: str, **kw: T.Any) -> dict:
    sc = {'id': id_, 'group': group, 'src': {}, 'top_decl': {}, 'sub_decl': {}, 'kinds': {},
          'probe_top': [], 'probe_sub': [], 'expect': {}}
    sc.update(kw)
    return sc


def add_src(sc: dict, source: str, name: str, value: T.Any) -> None:
    sc['src'].setdefault(source, []).append([name, value])


def exp(res: R.Resolution) -> dict:
    return {'value': res.value, 'winner': res.winner, 'documented': res.documented, 'allowed': res.allowed}


def mask_sources(mask: int) -> T.List[str]:
    return [S[i] for i in range(8) if mask >> i & 1]


def add_option(sc: dict, name: str, scope: str, present: T.Sequence[str], variant: int,
               declare_top_value: bool = True) -> None:
    """Add one option with the given present sources to a scenario and compute its expectation."""
    sp = spec_of(name)
    sc['kinds'][name] = sp.kind
    project = scope.startswith('project')
    ph = {s: s for s in present}
    if project:
        d_top: T.Any = rich_value(name, 0) if domain(name) is None else None
        d_sub: T.Any = rich_value(name, 1) if domain(name) is None else None
        if not declare_top_value:
            d_top, _doc = R.kind_default(sp.kind, sp.choices)
    else:
        d_top = d_sub = sp.default
    has_top_opt = scope in ('project', 'project_yield', 'builtin_persub', 'builtin_global', 'project_toponly')
    if scope == 'project_subonly':
        has_top_opt = False
    # winners as named by the reference (placeholders), then values, then expectations
    wt = R.resolve_top(ph, 'default').winner if has_top_opt else None
    sub_scope = {'project_subonly': 'project', 'project_toponly': None}.get(scope, scope)
    ws = R.resolve_sub(sub_scope, ph, 'default', 'pdefault').winner if sub_scope else None
    if ws == 'parent':
        ws = wt
    fixed = not project or not declare_top_value
    vals, d_top, d_sub = assign(name, list(present), wt if wt != 'default' else None,
                                ws if ws not in ('default', None) else None, d_top, d_sub, variant, fixed)
    if project and not declare_top_value and domain(name) is not None:
        d_sub = d_top
    for s in present:
        add_src(sc, s, name, vals[s])
    if project:
        base = {k: v for k, v in PROJECT_KINDS[name].items()}
        if has_top_opt:
            dt = dict(base)
            if declare_top_value:
                dt['value'] = d_top
            sc['top_decl'][name] = dt
        if sub_scope:
            ds = dict(base)
            ds['value'] = d_sub
            if scope == 'project_yield' or sc.get('sub_yield'):
                ds['yield'] = True
            sc['sub_decl'][name] = ds
    if has_top_opt:
        sc['probe_top'].append(name)
        sc['expect']['top|' + name] = exp(R.resolve_top(vals, d_top))
    if sub_scope:
        sc['probe_sub'].append(name)
        sc['expect']['sub|' + name] = exp(R.resolve_sub(sub_scope, vals, d_sub if project else d_top, d_top))


def gen_subsets(group: str, names: T.Sequence[str], scope: str, masks: T.Iterable[int], seed: int,
                both_variants: bool = False, **kw: T.Any) -> T.List[dict]:
    out = []
    for mask in masks:
        for variant in ((0, 1) if both_variants else ((mask + seed) % 2,)):
            sc = new_sc(f'{group}:{mask:02x}:{variant}', group, mask=mask, variant=variant, scope=scope, **kw)
            for n in names:
                add_option(sc, n, scope, mask_sources(mask), variant + seed * 2)
            out.append(sc)
    return out


def gen_combined(group: str, parts: T.Sequence[T.Tuple[T.Sequence[str], str]], masks: T.Iterable[int], seed: int) -> T.List[dict]:
    """One setup per source subset that carries several independent option families at once (quick tier):
    every family still meets every subset, at the price of one setup instead of one per family."""
    out = []
    for mask in masks:
        variant = (mask + seed) % 2
        sc = new_sc(f'{group}:{mask:02x}:{variant}', group, mask=mask, variant=variant, scopes={})
        for names, scope in parts:
            for n in names:
                add_option(sc, n, scope, mask_sources(mask), variant + seed * 2)
                sc['scopes'][n] = scope
        out.append(sc)
    return out


def gen_top16(seed: int) -> T.List[dict]:
    """Top-level only: all subsets of {cmd, mfile, proj} x {declared default given, omitted}."""
    out = []
    for declared in (True, False):
        for m in range(8):
            present = [s for i, s in enumerate((S1, S3, S4)) if m >> i & 1]
            sc = new_sc(f'T16:{int(declared)}{m}', 'T16', mask=m, declared=declared, no_sub=True)
            for n in PROJECT_KINDS:
                if not declared and not R.kind_default(PROJECT_KINDS[n]['kind'], PROJECT_KINDS[n].get('choices'))[1]:
                    continue
                add_option(sc, n, 'project_toponly', present, m + seed, declare_top_value=declared)
            out.append(sc)
    return out


PREFIXES = ['/usr', '/usr/local', '/opt/vf']


def gen_dirs(seed: int, thorough: bool) -> T.List[dict]:
    """prefix from every subset of the three top-level sources (values permuted over /usr,
    /usr/local, other) x an explicit sysconfdir/localstatedir/sharedstatedir at one source or none."""
    out = []
    srcs3 = (S1, S3, S4)
    perms = list(itertools.permutations(PREFIXES))
    idx = 0
    for m in range(8):
        present = [s for i, s in enumerate(srcs3) if m >> i & 1]
        for perm in (perms if thorough else [perms[(m + seed) % 6], perms[(m + seed + 3) % 6]]):
            for explicit in (None, S1, S3, S4):
                if not thorough and explicit is not None and (idx + seed) % 2:
                    idx += 1
                    continue
                idx += 1
                sc = new_sc(f'DIR:{m}:{"".join(str(PREFIXES.index(p)) for p in perm)}:{explicit}', 'DIR',
                            mask=m, use_intro=True)
                pp = {s: perm[srcs3.index(s)] for s in present}
                for s, v in pp.items():
                    add_src(sc, s, 'prefix', v)
                dd: T.Dict[str, T.Dict[str, str]] = {}
                if explicit:
                    for d in ('sysconfdir', 'localstatedir', 'sharedstatedir'):
                        dd[d] = {explicit: f'/vf/x/{d}'}
                        add_src(sc, explicit, d, f'/vf/x/{d}')
                res = R.resolve_dirs(pp, dd)
                for n in ('prefix', 'sysconfdir', 'localstatedir', 'sharedstatedir', 'bindir', 'sbindir', 'includedir'):
                    sc['kinds'][n] = 'string'
                    sc['probe_top'].append(n)
                    sc['probe_sub'].append(n)
                    sc['expect']['top|' + n] = exp(res[n])
                    sc['expect']['sub|' + n] = exp(res[n])
                out.append(sc)
    return out


def gen_prefix_spellings(thorough: bool) -> T.List[dict]:
    """The same prefix written with a trailing slash (and, consistency-only, a doubled one), for /usr,
    /usr/local and another prefix, at every source incl. --prefix.  How get_option('prefix') spells the
    value is not documented (either spelling accepted); the three prefix-dependent directory defaults
    must be the ones that belong to the prefix meson reports."""
    out = []
    forms = [(S1, 'proj'), (S3, 'mfile'), (S4, 'cmd'), ('--prefix', 'dashdash')]
    for base in PREFIXES:
        for spelled, tag in ((base + '/', 'slash'), (base + '//', 'slash2')):
            for src_, sname in forms:
                if tag == 'slash2' and not thorough and src_ != S4:
                    continue
                sc = new_sc(f'DIRS:{base}:{tag}:{sname}', 'DIRS', scope='prefix-spelling')
                if src_ == '--prefix':
                    sc['extra_argv'] = ['--prefix', spelled]
                else:
                    add_src(sc, src_, 'prefix', spelled)
                norm = spelled[:-1]
                for n in ('prefix', 'sysconfdir', 'localstatedir', 'sharedstatedir', 'bindir'):
                    sc['kinds'][n] = 'string'
                    sc['probe_top'].append(n)
                    sc['probe_sub'].append(n)
                    for w in ('top', 'sub'):
                        if n == 'prefix':
                            sc['expect'][f'{w}|{n}'] = {'value': None, 'winner': sname, 'documented': False,
                                                        'allowed': [spelled, norm, base]}
                        else:
                            sc['expect'][f'{w}|{n}'] = {'value': R.dir_default(n, norm), 'winner': 'default', 'documented': True,
                                                        'allowed': None, 'dir_default_of_observed_prefix': True}
                out.append(sc)
    return out


YT_KINDS: T.Dict[str, dict] = {
    'string': {'kind': 'string'},
    'boolean': {'kind': 'boolean'},
    'integer': {'kind': 'integer', 'min': 0, 'max': 1000},
    'combo': {'kind': 'combo', 'choices': [f'c{i}' for i in range(12)]},
    'fcombo': {'kind': 'combo', 'choices': ['enabled', 'disabled', 'auto', 'c3', 'c4', 'c5', 'c6', 'c7', 'c8', 'c9']},
    'array': {'kind': 'array', 'choices': [f'a{i}' for i in range(12)]},
    'feature': {'kind': 'feature'},
}
# (subproject kind, parent kind) of a same-named option; the subproject's one says yield: true
YT_PAIRS = [('combo', 'feature'), ('feature', 'combo'), ('feature', 'fcombo'), ('fcombo', 'feature'), ('string', 'combo'),
            ('combo', 'string'), ('integer', 'string'), ('string', 'integer'), ('boolean', 'feature'), ('feature', 'boolean'),
            ('array', 'string'), ('string', 'array'), ('boolean', 'string'), ('integer', 'boolean')]


def yt_value(kind: str, name: str, idx: int) -> T.Any:
    d = YT_KINDS[kind]
    k = d['kind']
    if k == 'string':
        return f'vf_{name}_{idx}'
    if k == 'integer':
        return 100 + idx
    if k == 'combo':
        return d['choices'][idx % len(d['choices'])]
    if k == 'array':
        return [d['choices'][idx], d['choices'][(idx + 5) % 12]]
    if k == 'boolean':
        return idx % 2 == 1
    return ['auto', 'enabled', 'disabled'][idx % 3]


def gen_yield_type_mismatch(thorough: bool, seed: int) -> T.List[dict]:
    """A yielding subproject option whose same-named parent option has a DIFFERENT type, parent set /
    unset from its three sources, subproject option set / unset from its own sources.  Build-options.md
    only describes yielding to "an option called some_option"; what a type mismatch does is not
    documented, so the cell is consistency-only -- but whatever get_option() returns in the subproject
    must satisfy the subproject option's own declared type / choices / range (C07: "a stored value
    always satisfies them"): admissible are the subproject's own value by its own sources, or the
    parent's value if that is a valid value of the subproject's option."""
    out = []
    top_sets: T.List[T.Tuple[str, ...]] = [(), (S1,), (S3,), (S4,), (S1, S4)]
    sub_sets: T.List[T.Tuple[str, ...]] = [(), (S8,), (S2,)]
    if thorough:
        top_sets = [tuple(x for i, x in enumerate((S1, S3, S4)) if m >> i & 1) for m in range(8)]
        sub_sets = [tuple(x for i, x in enumerate(R.SUB_SPECIFIC) if m >> i & 1) for m in range(32)]
    tag_idx = {S1: 2, S2: 3, S3: 4, S4: 5, S5: 6, S6: 7, S7: 8, S8: 9}
    for ts in top_sets:
        for ss in sub_sets:
            sc = new_sc('YT:' + '+'.join(ts or ('none',)) + ':' + '+'.join(ss or ('none',)), 'YT', scope='yield-type-mismatch',
                        kinds_top={})
            for i, (subk, topk) in enumerate(YT_PAIRS):
                name = f'y{i}'
                sc['kinds'][name] = YT_KINDS[subk]['kind']
                sc['kinds_top'][name] = YT_KINDS[topk]['kind']
                d_top, d_sub = yt_value(topk, name, 0 + seed % 2), yt_value(subk, name, 1 + seed % 2)
                tv = {s_: yt_value(topk, name, tag_idx[s_]) for s_ in ts}
                sv = {s_: yt_value(subk, name, tag_idx[s_]) for s_ in ss}
                for s_, v in list(tv.items()) + list(sv.items()):
                    add_src(sc, s_, name, v)
                sc['top_decl'][name] = dict(YT_KINDS[topk], value=d_top)
                sc['sub_decl'][name] = dict(YT_KINDS[subk], value=d_sub, **{'yield': True})
                sc['probe_top'].append(name)
                sc['probe_sub'].append(name)
                parent = R.resolve_top(tv, d_top)
                own = R.resolve_sub('project', sv, d_sub)
                sd = YT_KINDS[subk]
                ok, cv = R.canon(R.Spec(sd['kind'], None, sd.get('choices'), sd.get('min'), sd.get('max')), parent.value)
                allowed = [own.value] + ([cv] if ok and cv is not None else [])
                sc['expect']['top|' + name] = exp(parent)
                sc['expect']['sub|' + name] = {'value': None, 'winner': None, 'documented': False, 'allowed': allowed}
            out.append(sc)
    return out


def gen_cmd_spellings(thorough: bool, seed: int) -> T.List[dict]:
    """The command-line source written in its other documented spellings (--option=value, --option value,
    --warnlevel, bare --flag for a true boolean) instead of -Doption=value: same source, same priority."""
    out: T.List[dict] = []
    forms = ('long-eq', 'long-space')
    s4 = 1 << S.index(S4)
    if thorough:
        masks = [m for m in range(256) if m & s4]
    else:
        masks = [0x08, 0x0c, 0x09, 0x0a, 0x88, 0x18, 0x0f, 0xff]
    for j, m in enumerate(masks):
        for f in (forms[(j + seed) % 2],):
            for sc in gen_subsets('BSL', BUILTIN_PERSUB, 'builtin_persub', [m], seed, cmd_form=f):
                sc['id'] += ':' + f
                out.append(sc)
    for j, m in enumerate([0x08, 0x09, 0x0c, 0x0d]):
        for f in forms:
            for sc in gen_subsets('BGL', BUILTIN_GLOBAL, 'builtin_global', [m], seed + j, cmd_form=f):
                sc['id'] += ':' + f
                out.append(sc)
    return out


PER_MACHINE = ['pkg_config_path', 'cmake_prefix_path']


def gen_per_machine(thorough: bool, seed: int, rng: T.Any) -> T.List[dict]:
    """Per-machine builtins, host and build variant, each with its own subset of {project default_options,
    machine file, command line}; command line as -D or in the long spelling.  Builtin-options.md: "Prefixing
    the option with build. only affects the build machine configuration, while leaving it unprefixed only
    affects the host machine configuration"; Machine-files.md: for these options "the values from both a
    cross file and a native file are used" (cross file -> host, native file -> build).
      cross:  both variants are resolved by the top-level order, independently of each other;
      native: the unprefixed option is resolved from the unprefixed sources only (a build.-spelled source must
              not reach it); what build.X itself reads in a native build is not documented and not observed."""
    out: T.List[dict] = []
    srcs3 = (S1, S3, S4)
    combos = [(h, b) for h in range(8) for b in range(8)]
    if not thorough:
        must = [(h, b) for h, b in combos if (b & 4 and bin(h).count('1') <= 1) or (h, b) in ((7, 7), (4, 4), (2, 4), (4, 2))]
        rest = [c for c in combos if c not in must]
        combos = must + rng.sample(rest, 6)
    forms = ('D', 'long-eq', 'long-space')
    for j, (h, b) in enumerate(combos):
        for cross in (True, False):
            if not cross and not (b & 4):
                continue     # native: only a build.-spelled command-line source can reach the wrong option
            for f in (forms if thorough else (forms[(j + seed + int(cross)) % 3],)):
                if f != 'D' and not ((h | b) & 4):
                    continue
                sc = new_sc(f'{"XPM" if cross else "NPM"}:{h}{b}:{f}', 'XPM' if cross else 'NPM', cross=cross, cmd_form=f,
                            use_intro=True, scope='per-machine')
                for name in PER_MACHINE:
                    hv = {s_: [f'/vf/{name[:3]}/host/{s_}'] for i, s_ in enumerate(srcs3) if h >> i & 1}
                    bv = {s_: [f'/vf/{name[:3]}/build/{s_}'] for i, s_ in enumerate(srcs3) if b >> i & 1}
                    if not cross:
                        bv.pop(S3, None)     # a native build has one machine file: no separate build-machine file
                    for s_, v in hv.items():
                        add_src(sc, s_, name, v)
                    for s_, v in bv.items():
                        add_src(sc, s_, 'build.' + name, v)
                    sc['kinds'][name] = sc['kinds']['build.' + name] = 'array'
                    sc['probe_top'].append(name)
                    sc['probe_sub'].append(name)
                    rh = exp(R.resolve_top(hv, []))
                    sc['expect']['top|' + name] = rh
                    sc['expect']['sub|' + name] = rh
                    if cross:
                        sc['probe_top'].append('build.' + name)
                        sc['probe_sub'].append('build.' + name)
                        rb = exp(R.resolve_top(bv, []))
                        sc['expect']['top|build.' + name] = rb
                        sc['expect']['sub|build.' + name] = rb
                out.append(sc)
    return out


def gen_sub_first_language(thorough: bool, seed: int, rng: T.Any) -> T.List[dict]:
    """The subproject is the FIRST project to add the language (the parent has none), so every compiler-option
    value given for it -- globally or as sub:opt, for the host and, in a cross build, for the build machine --
    arrives before the option exists and waits until the compilers are detected.  Compiler options are per
    subproject and per machine (Builtin-options.md), so host and build variant each follow the eight-step
    order inside the subproject."""
    out: T.List[dict] = []
    singles = [1 << i for i in range(8)]
    if thorough:
        plan = [(m, True) for m in singles + [255, 0] + rng.sample(range(1, 255), 40)] + \
               [(m, False) for m in singles + [255] + rng.sample(range(1, 255), 20)]
    else:
        pick = rng.sample(singles, 2)
        plan = [(0x80, True), (0x10 | 0x08, True), (pick[0] | 0x40, True), (255, True), (0x80 | 0x08, False), (pick[1], False)]
    for m, cross in plan:
        g = 'XSF' if cross else 'NSF'
        sc = new_sc(f'{g}:{m:02x}', g, mask=m, cross=cross, sub_lang='c', scope='builtin_persub', use_intro=False)
        names = ['c_args'] + (['build.c_args', 'build.c_link_args'] if cross else ['c_link_args'])
        for name in names:
            vals = {}
            for s_ in mask_sources(m):
                tag = f'S{S.index(s_) + 1}'
                vals[s_] = [f'-DVF_{name.replace(".", "_").upper()}_{tag}=1']
                add_src(sc, s_, name, vals[s_])
            sc['kinds'][name] = 'array'
            sc['probe_sub'].append(name)
            sc['expect']['sub|' + name] = exp(R.resolve_sub('builtin_persub', vals, []))
        out.append(sc)
    return out


def gen_histories(thorough: bool, seed: int, rng: T.Any) -> T.List[dict]:
    """The subproject is initialised for the first time by a LATER command on the same build directory:
      late-edit   setup while the parent does not call subproject() yet; the call is added; setup --reconfigure
      late-gate   the call sits behind a boolean project option; setup --reconfigure -Dvf_use_sub=true
      retry       subproject(required: false): the first attempt is aborted by an invalid value at the winning
                  source of one option (rejected, subproject disabled, setup succeeds); the value is corrected
                  (file edit, or -Dsub:opt on the reconfigure command line); setup --reconfigure
    All eight sources were already given to the first command; nothing is repeated.  The eight-step order is
    about the sources, not about which command first reaches the subproject, so the expectation is the one of
    a fresh setup."""
    out: T.List[dict] = []
    pk = list(PROJECT_KINDS)
    base_masks = sorted({1 << i for i in range(8)} | {0b00001010, 0b10001000, 255})
    if thorough:
        masks = list(range(1, 256))
    else:
        masks = base_masks + rng.sample([m for m in range(1, 255) if m not in base_masks], 3)
    for group, names, scope in (('LPN', pk, 'project'), ('LBS', BUILTIN_PERSUB, 'builtin_persub')):
        for j, mask in enumerate(masks):
            for mode in (('late-edit', 'late-gate') if thorough else (('late-edit', 'late-gate')[(j + seed) % 2],)):
                sc = gen_subsets(group, names, scope, [mask], seed)[0]
                sc['id'] += ':' + mode
                sc['history'] = {'mode': mode}
                out.append(sc)
    # retry: poison the winning source of one option
    plans = [('RPN', pk, 'project', ['pc', 'pi']), ('RBS', BUILTIN_PERSUB, 'builtin_persub', ['unity_size', 'warning_level'])]
    for group, names, scope, poisonable in plans:
        for si, s_ in enumerate(R.SUB_SPECIFIC):
            bit = 1 << S.index(s_)
            lower = bit - 1
            lows = {0, lower} | ({rng.randrange(lower + 1) for _ in range(6)} if thorough else set())
            for k, low in enumerate(sorted(lows)):
                mask = bit | low
                pname = poisonable[(si + k + seed) % len(poisonable)]
                inv = [x for x in invalid_values(pname) if 'str' in x[2] and 'ini' in x[2]]
                cls, val, _forms = inv[(si + k) % len(inv)]
                sc = gen_subsets(group, names, scope, [mask], seed)[0]
                sc['id'] += f':retry:{s_}:{pname}:{cls}'
                sc['history'] = {'mode': 'retry', 'poison_source': s_, 'poison_name': pname, 'poison_value': val,
                                 'poison_class': cls}
                if s_ == S5:
                    # project(default_options) of the already configured parent is only used by its first
                    # configuration, so editing it is no correction; the user overrides it with -Dsub:opt instead
                    good2 = rich_value(pname, 9) if domain(pname) is None else \
                        [c for c in spec_of(pname).choices if c not in (spec_of(pname).default,)][-1]
                    sc['history']['fix_via_cmd'] = good2
                    sc['expect']['sub|' + pname] = {'value': good2, 'winner': S8, 'documented': True, 'allowed': None}
                out.append(sc)
    return out


BT_VALUES = ['plain', 'debug', 'debugoptimized', 'release', 'minsize']
OPT_VALUES = ['plain', '0', 'g', '1', '2', '3', 's']


def gen_buildtype(seed: int, thorough: bool, rng: T.Any) -> T.List[dict]:
    """Top level: every way to give buildtype / debug / optimization at the three sources (2^9),
    values drawn so that an explicit debug/optimization differs from what any buildtype implies."""
    out = []
    srcs3 = (S1, S3, S4)
    combos = list(range(512))
    if not thorough:
        must = [c for c in combos if bin(c).count('1') <= 2]
        rest = [c for c in combos if bin(c).count('1') > 2]
        rng.shuffle(rest)
        combos = must + rest[:30]
    for c in combos:
        present: T.Dict[str, T.Dict[str, T.Any]] = {}
        bts = BT_VALUES[:]
        rng.shuffle(bts)
        for i, s in enumerate(srcs3):
            g: T.Dict[str, T.Any] = {}
            if c >> (3 * i) & 1:
                g['buildtype'] = bts[i]
            if c >> (3 * i + 1) & 1:
                g['debug'] = None
            if c >> (3 * i + 2) & 1:
                g['optimization'] = None
            if g:
                present[s] = g
        # explicit values: differ from what the buildtype of the same and of other sources imply
        implied_dbg = {R.BUILDTYPE_TABLE[g['buildtype']][0] for g in present.values() if 'buildtype' in g}
        implied_opt = {R.BUILDTYPE_TABLE[g['buildtype']][1] for g in present.values() if 'buildtype' in g} | {'0'}
        free_opt = [o for o in OPT_VALUES if o not in implied_opt]
        rng.shuffle(free_opt)
        k = 0
        for s in srcs3:
            g = present.get(s, {})
            if 'optimization' in g:
                g['optimization'] = free_opt[k % len(free_opt)]
                k += 1
            if 'debug' in g:
                if 'buildtype' in g:
                    g['debug'] = not R.BUILDTYPE_TABLE[g['buildtype']][0]
                else:
                    g['debug'] = (not next(iter(implied_dbg))) if len(implied_dbg) == 1 else bool(rng.getrandbits(1))
        sc = new_sc(f'BT:{c:03x}', 'BT', combo=c, no_sub=False, cmd_bt_last=bool((c + seed) % 2))
        for s in srcs3:
            g = present.get(s, {})
            # buildtype first inside a source (same-source order in build files is not documented)
            for n in ('buildtype', 'debug', 'optimization'):
                if n in g:
                    add_src(sc, s, n, g[n])
        res = R.resolve_buildtype(srcs3, present)
        for n in ('buildtype', 'debug', 'optimization'):
            sc['kinds'][n] = 'boolean' if n == 'debug' else 'combo'
            sc['probe_top'].append(n)
            sc['probe_sub'].append(n)
            sc['expect']['top|' + n] = exp(res[n])
            sc['expect']['sub|' + n] = exp(res[n])
        out.append(sc)
    return out


def gen_buildtype_sub(seed: int) -> T.List[dict]:
    """buildtype given for the subproject only, by each subproject-specific source, with and
    without a global buildtype on the command line."""
    out = []
    for s in R.SUB_SPECIFIC:
        for glob in (None, 'release', 'minsize'):
            for bt in ('plain', 'debugoptimized'):
                sc = new_sc(f'BTS:{s}:{glob}:{bt}', 'BTS')
                present: T.Dict[str, T.Dict[str, T.Any]] = {s: {'buildtype': bt}}
                add_src(sc, s, 'buildtype', bt)
                if glob:
                    present[S4] = {'buildtype': glob}
                    add_src(sc, S4, 'buildtype', glob)
                rs = R.resolve_buildtype(S, present)
                rt = R.resolve_buildtype(S, {k: v for k, v in present.items() if k == S4})
                for n in ('buildtype', 'debug', 'optimization'):
                    sc['kinds'][n] = 'boolean' if n == 'debug' else 'combo'
                    sc['probe_top'].append(n)
                    sc['probe_sub'].append(n)
                    sc['expect']['top|' + n] = exp(rt[n])
                    sc['expect']['sub|' + n] = exp(rs[n])
                out.append(sc)
    return out


ENTRIES = ('setup', 'configure', 'reconfigure')


def gen_cli_buildtype(thorough: bool, seed: int, rng: T.Any) -> T.List[dict]:
    """One command line that names buildtype AND an explicit debug and/or optimization, in every order of
    the arguments x every spelling of buildtype (-Dbuildtype=X, --buildtype=X, --buildtype X) x the explicit
    ones as -D or in their dedicated spelling x every command that accepts option arguments (meson setup,
    meson configure, meson setup --reconfigure), on top of a varying state of the lower-priority sources.
    The property: buildtype sets debug/optimization "unless they are given explicitly" -- a statement about
    what the command line says, not about where on it; so the expectation is the one of the -D spelling with
    buildtype first.  The command line's buildtype always differs from the one in force before it (the listed
    finding about a repeated buildtype value is a different question)."""
    out: T.List[dict] = []
    srcs3 = (S1, S3, S4)
    lowers: T.List[T.Dict[str, T.Dict[str, T.Any]]] = [
        {}, {S1: {'buildtype': 'B1'}}, {S3: {'buildtype': 'B1'}}, {S1: {'debug': 'X', 'optimization': 'X'}},
        {S1: {'buildtype': 'B1'}, S3: {'optimization': 'X'}}, {S3: {'buildtype': 'B1', 'debug': 'X'}},
    ]
    idx = 0
    pi = -1
    for extras in (('debug',), ('optimization',), ('debug', 'optimization')):
        for perm in itertools.permutations(('buildtype',) + extras):
            pi += 1
            for bt_form in CMD_FORMS:
                for ex_form in ('D', 'long'):
                    idx += 1
                    for entry in ENTRIES:
                        # quick: the later commands get a third each, rotating so that every perm meets every spelling
                        if not thorough and entry != 'setup' and \
                                (pi + CMD_FORMS.index(bt_form) + int(ex_form == 'long') + seed) % 3 != ENTRIES.index(entry) - 1:
                            continue
                        low = json.loads(json.dumps(lowers[rng.randrange(len(lowers))]))
                        bts = BT_VALUES[:]
                        rng.shuffle(bts)
                        b1 = bts[0]
                        in_force = b1 if any('buildtype' in g for g in low.values()) else 'debug'
                        bt = [b for b in bts[1:] if b != in_force][0]
                        imp_dbg, imp_opt = R.BUILDTYPE_TABLE[bt]
                        taken = {imp_opt, R.BUILDTYPE_TABLE[b1][1], '0'}
                        free_opt = [o for o in OPT_VALUES if o not in taken]
                        rng.shuffle(free_opt)
                        for g in low.values():
                            if 'buildtype' in g:
                                g['buildtype'] = b1
                            if 'debug' in g:
                                # two values only: the lower source says the opposite of what is expected
                                g['debug'] = imp_dbg if 'debug' in extras else not imp_dbg
                            if 'optimization' in g:
                                g['optimization'] = free_opt[1]
                        cmd: T.Dict[str, T.Any] = {'buildtype': bt}
                        if 'debug' in extras:
                            cmd['debug'] = not imp_dbg
                        if 'optimization' in extras:
                            cmd['optimization'] = free_opt[0]
                        present = dict(low)
                        present[S4] = cmd
                        forms = {'buildtype': bt_form}
                        for e in extras:
                            forms[e] = 'D' if ex_form == 'D' else CMD_FORMS[1 + (idx + seed) % 2]
                        sc = new_sc(f'BTO:{"".join(p[0] for p in perm)}:{bt_form}:{ex_form}:{entry}', 'BTO', scope='cmdline-shape',
                                    entry=entry, cmd_forms=forms, cmd_order={'perm': list(perm)})
                        for s in srcs3:
                            for n in ('buildtype', 'debug', 'optimization'):
                                if n in present.get(s, {}):
                                    add_src(sc, s, n, present[s][n])
                        res = R.resolve_buildtype(srcs3, present)
                        for n in ('buildtype', 'debug', 'optimization'):
                            sc['kinds'][n] = 'boolean' if n == 'debug' else 'combo'
                            sc['probe_top'].append(n)
                            sc['probe_sub'].append(n)
                            sc['expect']['top|' + n] = exp(res[n])
                            sc['expect']['sub|' + n] = exp(res[n])
                        out.append(sc)
    return out


def vary_command_line(scs: T.List[dict], seed: int, thorough: bool) -> None:
    """Give existing valid scenarios the other shapes of the same command line (in place unless said otherwise):
      * the order of the option arguments permuted (half of the scenarios with >= 2 of them),
      * in the groups whose command-line options are builtins, each option independently in one of its
        spellings instead of all in the same one,
      * for top-level-only groups, additional copies with the command line delivered by `meson configure` /
        `setup --reconfigure` instead of the first `meson setup` (precedence is about sources; the command line is the highest
        whichever command carries it).  Not for subproject sources and not for prefix: what a LATER
        global -Dopt does to a subproject value that a lower-numbered source set, and whether directory
        defaults follow a prefix changed later, is lifecycle (C08), the documents do not say."""
    import zlib
    extra: T.List[dict] = []
    for sc in scs:
        if sc.get('history') or sc.get('expect_fail') or sc.get('may_fail') or sc['group'] in ('BTO', 'KF'):
            continue
        h = zlib.crc32(sc['id'].encode()) + seed
        n_cmd = len(sc['src'].get(S4, [])) + len(sc['src'].get(S8, []))
        if n_cmd >= 2 and 'cmd_order' not in sc and h % 2 == 0:
            sc.pop('cmd_bt_last', None)
            sc['cmd_order'] = {'shuffle': h}
        if sc['group'] in ('BT', 'BTS', 'DIR', 'BSL', 'BGL') and sc['src'].get(S4) and (sc['group'] in ('BSL', 'BGL') or (h >> 1) % 3):
            sc['cmd_forms'] = {n: CMD_FORMS[(h >> (5 + 2 * i)) % 3] for i, (n, _v) in enumerate(sc['src'][S4])}
        if sc['group'] in ('T16', 'BG', 'BGL') and sc['src'].get(S4) and not sc['src'].get(S8) and (thorough or (h >> 2) % 2 == 0):
            # an additional scenario (the first `meson setup` keeps its own)
            for entry in (ENTRIES[1:] if thorough else (ENTRIES[1 + (h >> 4) % 2],)):
                s2 = json.loads(json.dumps(sc))
                s2['entry'] = entry
                s2['id'] += ':' + entry
                extra.append(s2)
    scs.extend(extra)


# ---- invalid values ---------------------------------------------------------------------------

def invalid_values(name: str) -> T.List[T.Tuple[str, T.Any, T.Sequence[str]]]:
    """(class, value, forms) -- forms: 'str' usable where values are strings (command line,
    default_options strings), 'ini' usable in a machine file.  {'ini': text} is a literal machine
    file value; {'raw': text} a string that is not a valid value."""
    sp = spec_of(name)
    k = sp.kind
    out: T.List[T.Tuple[str, T.Any, T.Sequence[str]]] = []
    if k == 'string':
        out += [('wrong-type-int', {'ini': '3'}, ['ini']), ('wrong-type-bool', {'ini': 'true'}, ['ini']),
                ('wrong-type-array', {'ini': "['x', 'y']"}, ['ini'])]
    elif k == 'boolean':
        out += [('not-boolean', {'raw': 'maybe'}, ['str', 'ini']), ('wrong-type-int', {'ini': '1'}, ['ini']),
                ('not-boolean-num', {'raw': '1'}, ['str']), ('not-boolean-zero', {'raw': '0'}, ['str']),
                ('not-boolean-yes', {'raw': 'yes'}, ['str'])]
    elif k == 'integer':
        out += [('not-integer', {'raw': 'abc'}, ['str', 'ini']), ('wrong-type-bool', {'ini': 'true'}, ['ini'])]
        if sp.min is not None:
            out.append(('below-min', sp.min - 1, ['str', 'ini']))
        if sp.max is not None:
            out.append(('above-max', sp.max + 1, ['str', 'ini']))
    elif k == 'umask':
        out += [('above-max', {'raw': '1000'}, ['str', 'ini']), ('not-octal', {'raw': '99'}, ['str', 'ini']),
                ('not-integer', {'raw': 'abc'}, ['str', 'ini'])]
    elif k in ('combo', 'feature'):
        out += [('not-in-choices', {'raw': 'vf_nochoice'}, ['str', 'ini']), ('wrong-type-bool', {'ini': 'true'}, ['ini']),
                ('wrong-type-int', {'ini': '7'}, ['ini'])]
        if k == 'feature':
            out.append(('not-in-choices-true', {'raw': 'true'}, ['str']))
    elif k == 'array':
        if sp.choices:
            out += [('not-in-choices', [sp.choices[0], 'vf_nochoice'], ['str', 'ini'])]
        out += [('wrong-type-int', {'ini': '3'}, ['ini']), ('wrong-type-elem', {'ini': "['a0', 3]" if sp.choices else "['x', 3]"}, ['ini'])]
    return out


SCOPE_SOURCES = {
    'project_toponly': (S1, S3, S4),
    'project_subonly': R.SUB_SPECIFIC,
    'builtin_persub': S,
    'builtin_global': (S1, S3, S4),
}


def gen_invalid(thorough: bool, seed: int) -> T.List[dict]:
    """One invalid value at one source that is the only (hence winning) source of that option."""
    out = []
    plan: T.List[T.Tuple[str, str]] = []
    for n in PROJECT_KINDS:
        plan += [(n, 'project_toponly'), (n, 'project_subonly')]
    for n in ['warning_level', 'default_library', 'werror', 'unity_size', 'optimization', 'buildtype', 'debug']:
        plan.append((n, 'builtin_persub'))
    for n in ['install_umask', 'python.bytecompile', 'python.install_env', 'pkgconfig.relocatable', 'auto_features',
              'wrap_mode', 'errorlogs', 'python.platlibdir', 'pkg_config_path']:
        plan.append((n, 'builtin_global'))
    for name, scope in plan:
        for ci, (cls, val, forms) in enumerate(invalid_values(name)):
            for si, s in enumerate(SCOPE_SOURCES[scope]):
                mf = s in (S3, S7)
                if ('ini' if mf else 'str') not in forms:
                    continue
                if not thorough and (ci + si + seed) % 2:
                    continue
                sc = new_sc(f'INV:{name}:{scope}:{cls}:{s}', 'INV', expect_fail=True, inv_class=cls,
                            inv_source=s, inv_name=name, scope=scope,
                            no_sub=(scope == 'project_toponly'))
                sp = spec_of(name)
                sc['kinds'][name] = sp.kind
                add_src(sc, s, name, val)
                if scope.startswith('project'):
                    base = dict(PROJECT_KINDS[name])
                    base['value'] = rich_value(name, 0) if domain(name) is None else domain(name)[0]
                    sc['top_decl' if scope == 'project_toponly' else 'sub_decl'][name] = base
                    (sc['probe_top'] if scope == 'project_toponly' else sc['probe_sub']).append(name)
                else:
                    sc['probe_top'].append(name)
                    sc['probe_sub'].append(name)
                out.append(sc)
    # prefix / directory specials (documented: prefix is absolute; no '..' inside a dir option is code-only)
    for s in (S1, S3, S4):
        sc = new_sc(f'INV:prefix:relative:{s}', 'INV', expect_fail=True, inv_class='relative-prefix',
                    inv_source=s, inv_name='prefix', scope='builtin_global')
        sc['kinds']['prefix'] = 'string'
        add_src(sc, s, 'prefix', 'relative/prefix')
        sc['probe_top'].append('prefix')
        out.append(sc)
    return out


def gen_unknown() -> T.List[dict]:
    """An option name nobody declares, at each source."""
    out = []
    for s in S:
        for proj_section in (False, True):
            if s not in (S3, S7) and proj_section:
                continue
            sc = new_sc(f'UNK:{s}:{int(proj_section)}', 'UNK', expect_fail=True, inv_class='unknown-option',
                        inv_source=s, inv_name='vf_nosuch_option', scope='unknown',
                        force_project_section={'vf_nosuch_option': proj_section})
            sc['kinds']['ps'] = 'string'
            sc['top_decl']['ps'] = {'kind': 'string', 'value': 'x'}
            sc['sub_decl']['ps'] = {'kind': 'string', 'value': 'y'}
            sc['probe_top'].append('ps')
            sc['probe_sub'].append('ps')
            add_src(sc, s, 'vf_nosuch_option', 'v')
            out.append(sc)
    return out


def gen_overridden_invalid(seed: int) -> T.List[dict]:
    """An invalid value at a source that a higher-priority valid source overrides: the documents do
    not say whether it must be diagnosed; it must never become the effective value."""
    out = []
    for name, scope in (('unity_size', 'builtin_persub'), ('warning_level', 'builtin_persub'), ('pi', 'project_subonly'), ('pc', 'project_subonly')):
        srcs = SCOPE_SOURCES[scope]
        for lo, hi in zip(srcs, srcs[1:]):
            cls, val, forms = [x for x in invalid_values(name) if 'str' in x[2] and 'ini' in x[2]][0]
            sc = new_sc(f'OVI:{name}:{lo}:{hi}', 'OVI', inv_name=name, overridden=True, scope=scope)
            sp = spec_of(name)
            sc['kinds'][name] = sp.kind
            good = rich_value(name, 2 + S.index(hi)) if domain(name) is None else [c for c in sp.choices if c != sp.default][0]
            add_src(sc, lo, name, val)
            add_src(sc, hi, name, good)
            if scope.startswith('project'):
                base = dict(PROJECT_KINDS[name])
                base['value'] = rich_value(name, 1)
                sc['sub_decl'][name] = base
            sc['probe_sub'].append(name)
            sc['expect']['sub|' + name] = {'value': good, 'winner': hi, 'documented': True, 'allowed': None}
            sc['may_fail'] = True
            out.append(sc)
    return out


def gen_boundaries() -> T.List[dict]:
    """Valid values on the edge of an option's range / choices must be accepted and become effective."""
    out = []
    plans: T.List[T.Tuple[str, str, T.Any, T.Sequence[str]]] = [
        ('pi', 'project_toponly', 0, (S1, S3, S4)), ('pi', 'project_toponly', 1000, (S1, S3, S4)),
        ('pa', 'project_toponly', [], (S3, S4)), ('pa', 'project_toponly', list(PROJECT_KINDS['pa']['choices']), (S3, S4)),
        ('unity_size', 'builtin_persub', 2, (S1, S3, S4, S8)),
        ('python.bytecompile', 'builtin_global', -1, (S1, S4)), ('python.bytecompile', 'builtin_global', 2, (S1, S3, S4)),
        ('install_umask', 'builtin_global', 0, (S1, S3, S4)), ('install_umask', 'builtin_global', 0o777, (S1, S3, S4)),
        ('install_umask', 'builtin_global', 'preserve', (S1, S3, S4)),
        ('warning_level', 'builtin_persub', 'everything', (S4, S8)), ('warning_level', 'builtin_persub', '0', (S4, S8)),
    ]
    for name, scope, val, sources in plans:
        for src_ in sources:
            sc = new_sc(f'BND:{name}:{emit_str(val) if not isinstance(val, list) else len(val)}:{src_}', 'BND', scope=scope,
                        no_sub=(scope == 'project_toponly'))
            sp = spec_of(name)
            sc['kinds'][name] = sp.kind
            add_src(sc, src_, name, val)
            if scope == 'project_toponly':
                base = dict(PROJECT_KINDS[name])
                base['value'] = rich_value(name, 0)
                sc['top_decl'][name] = base
                sc['probe_top'].append(name)
                sc['expect']['top|' + name] = {'value': val, 'winner': src_, 'documented': True, 'allowed': None}
            else:
                sc['probe_top'].append(name)
                sc['probe_sub'].append(name)
                tv = sp.default if src_ == S8 else val
                sc['expect']['top|' + name] = {'value': tv, 'winner': 'default' if src_ == S8 else src_, 'documented': True, 'allowed': None}
                sc['expect']['sub|' + name] = {'value': val, 'winner': src_, 'documented': True, 'allowed': None}
            out.append(sc)
    return out


def gen_machine_file_directed(thorough: bool) -> T.List[dict]:
    """Machine-files.md: a later --native-file overrides an earlier one; in a cross build per-machine
    options take the host value from the cross file and the build value from the native file."""
    out = []
    sc = new_sc('MF:layering', 'MF', always_native=True,
                extra_files={'n2.ini': "[built-in options]\nunity_size = 22\n[project options]\nps = 'vf_second'\n"
                                       "[sub:project options]\nps = 'vf_sub_second'\n"},
                extra_argv=['--native-file', '@SRC@/n2.ini'])
    sc['kinds'].update({'unity_size': 'integer', 'ps': 'string', 'warning_level': 'combo'})
    sc['top_decl']['ps'] = {'kind': 'string', 'value': 'vf_dt'}
    sc['sub_decl']['ps'] = {'kind': 'string', 'value': 'vf_ds'}
    add_src(sc, S3, 'unity_size', 21)
    add_src(sc, S3, 'ps', 'vf_first')
    add_src(sc, S3, 'warning_level', '3')
    add_src(sc, S7, 'ps', 'vf_sub_first')
    sc['probe_top'] += ['unity_size', 'ps', 'warning_level']
    sc['probe_sub'] += ['unity_size', 'ps', 'warning_level']
    for k, v in (('top|unity_size', 22), ('sub|unity_size', 22), ('top|ps', 'vf_second'), ('sub|ps', 'vf_sub_second'),
                 ('top|warning_level', '3'), ('sub|warning_level', '3')):
        sc['expect'][k] = {'value': v, 'winner': 'mfile(second file)' if 'warning' not in k else 'mfile', 'documented': True, 'allowed': None}
    out.append(sc)
    if thorough:
        sc = new_sc('MF:per-machine-cross', 'MF', cross=True, use_intro=False,
                    native_decoy="[built-in options]\npkg_config_path = ['/vf/build/a']\n")
        sc['kinds'].update({'pkg_config_path': 'array', 'build.pkg_config_path': 'array'})
        add_src(sc, S3, 'pkg_config_path', ['/vf/host/a'])
        sc['probe_top'] += ['pkg_config_path', 'build.pkg_config_path']
        sc['probe_sub'] += ['pkg_config_path', 'build.pkg_config_path']
        for w in ('top', 'sub'):
            sc['expect'][w + '|pkg_config_path'] = {'value': ['/vf/host/a'], 'winner': 'cross file', 'documented': True, 'allowed': None}
            sc['expect'][w + '|build.pkg_config_path'] = {'value': ['/vf/build/a'], 'winner': 'native file', 'documented': True, 'allowed': None}
        out.append(sc)
    return out


def gen_directed() -> T.List[dict]:
    """Directed probes re-observing the listed findings on every run."""
    out = []
    plans = [
        ('KF:bt-default-vs-proj-optimization', {S1: {'optimization': '3'}, S4: {'buildtype': 'debug'}}),
        ('KF:bt-default-vs-proj-debug', {S1: {'debug': False}, S4: {'buildtype': 'debug'}}),
        ('KF:bt-repeated-vs-proj-debug', {S1: {'buildtype': 'release', 'debug': True}, S3: {'buildtype': 'release'}}),
    ]
    for id_, present in plans:
        sc = new_sc(id_, 'KF')
        for s in (S1, S3, S4):
            for n in ('buildtype', 'debug', 'optimization'):
                if n in present.get(s, {}):
                    add_src(sc, s, n, present[s][n])
        res = R.resolve_buildtype((S1, S3, S4), present)
        for n in ('buildtype', 'debug', 'optimization'):
            sc['kinds'][n] = 'boolean' if n == 'debug' else 'combo'
            sc['probe_top'].append(n)
            sc['probe_sub'].append(n)
            sc['expect']['top|' + n] = exp(res[n])
            sc['expect']['sub|' + n] = exp(res[n])
        out.append(sc)
    return out


def gen_c(thorough: bool, seed: int, cross: bool = False) -> T.List[dict]:
    masks: T.List[int]
    if thorough:
        masks = list(range(256))
    else:
        masks = sorted({0, 255} | {1 << i for i in range(8)} | {0b00001010, 0b00110000, 0b11000000, 0b00000110})
    group = 'CX' if cross else 'CC'
    names = ['c_args', 'c_std', 'unity_size']
    out = []
    for mask in masks:
        sc = new_sc(f'{group}:{mask:02x}', group, mask=mask, lang='c', cross=cross, scope='builtin_persub')
        for n in names:
            add_option(sc, n, 'builtin_persub', mask_sources(mask), mask + seed)
        out.append(sc)
    return out


# =============================================================================================
# classification

def classify(sc: dict, mm: dict) -> str:
    """Mechanism key of a value mismatch: which source's value showed up instead of the expected one."""
    name, where = mm['name'], mm['where']
    e = mm['expected']
    got_src = None
    observed = None
    for ch, val, ok in mm['channels']:
        if not ok:
            observed = val
            break
    cands: T.Dict[str, T.Any] = {}
    for s, lst in sc['src'].items():
        for n, v in lst:
            if n == name:
                cands[s] = v
    for s, v in cands.items():
        if observed is not None and (same(name, v, str(observed)) or same_val(v, observed)):
            got_src = s
    if got_src is None:
        dflt = None
        for decl in (sc['sub_decl'] if where == 'sub' else sc['top_decl'], ):
            if name in decl:
                dflt = decl[name].get('value')
        if dflt is None and name in R.BUILTINS:
            dflt = R.BUILTINS[name].default
        if observed is not None and dflt is not None and (same(name, dflt, str(observed)) or same_val(dflt, observed)):
            got_src = 'default'
    scope = sc.get('scopes', {}).get(name) or sc.get('scope') or sc['group']
    bad_ch = sorted({c[0].split(':')[0] for c in mm['channels'] if not c[2]})
    if sc['group'] in ('XPM', 'NPM'):
        variant = 'build' if name.startswith('build.') else 'host'
        got_any = None
        for s_, lst in sc['src'].items():
            for n, v in lst:
                if observed is not None and (same(n, v, str(observed)) or same_val(v, observed)):
                    got_any = ('build.' if n.startswith('build.') else 'host.') + s_
        return f'per-machine:{"cross" if sc.get("cross") else "native"}:{variant}-option:expected-{e["winner"]}:got-{got_any or "other"}'
    if sc['group'] == 'YT':
        i = int(name[1:])
        return f'yield-type-mismatch:sub-{YT_PAIRS[i][0]}-parent-{YT_PAIRS[i][1]}:value-not-valid-for-own-option-or-not-own'
    if sc['group'] == 'DIRS':
        return f'prefix-spelling:{where}:{name}:default-does-not-follow-reported-prefix'
    if not e['documented']:
        return f'inconsistent:{scope}:{where}:{name}'
    if sc['group'] in ('BT', 'BTS', 'KF', 'BTO') and name in ('debug', 'optimization', 'buildtype'):
        w = str(e['winner'])
        cell = cli_cell(sc)
        if cell and name != 'buildtype' and w == S4 and got_src != S4:
            # an explicit command-line debug/optimization lost although the same command line names it:
            # the key says how buildtype was spelled and whether the explicit argument stood before it
            return f'explicit-{name}-on-command-line-lost:{cell.split(":", 1)[1]}:{where}'
        if w.endswith(':buildtype') and name != 'buildtype':
            # the winning buildtype repeats the value buildtype already had from the lower-priority
            # sources (or its built-in default): the code only expands a *changed* buildtype
            ws = w.split(':')[0]
            bts = {s: v for s, lst in sc['src'].items() for n, v in lst if n == 'buildtype'}
            order = [s for s in S if s in bts]
            lower = [s for s in order if S.index(s) < S.index(ws)]
            if where == 'top':
                lower = [s for s in lower if s in (S1, S3, S4)]
            prior = bts[lower[-1]] if lower else 'debug'
            if ws in bts and bts[ws] == prior:
                return 'buildtype-equal-to-previous-value-not-expanded'
        return f'buildtype:{where}:{name}:expected-from-{e["winner"]}:got-{got_src or "other"}'
    if sc['group'] == 'DIR':
        return f'prefix-dirs:{where}:{name}:expected-from-{e["winner"]}:got-{got_src or "other"}'
    if len(bad_ch) < 3 and 'message' not in bad_ch:
        return f'channel-disagrees:{"+".join(bad_ch)}:{scope}:{where}'
    return f'precedence:{scope}:{where}:expected-{e["winner"]}:got-{got_src or "other"}'


# =============================================================================================
# driver

def worker(arg: T.Tuple[dict, str]) -> dict:
    sc, root = arg
    res = run_scenario(sc, root)
    if res.get('rc') == 0 and any(not e['documented'] for e in sc['expect'].values()) and \
            (os.environ.get('VERIF_TIER') == 'thorough' or sc['group'] in ('YT', 'PY', 'BGS', 'DIRS', 'PSY')):
        # cells the documents do not order: at least the same answer every time
        again = run_scenario(sc, root + '-again')
        res['rerun_same'] = (again.get('rc') == res.get('rc') and again.get('observed') == res.get('observed'))
        res['rerun_observed'] = again.get('observed')
    # minimise: re-run every mismatching option alone
    if res.get('mismatch') and len(sc['probe_top']) + len(sc['probe_sub']) > 2 and sc['group'] not in ('BT', 'BTS', 'DIR', 'DIRS') and not sc.get('history'):
        minimal = []
        for mm in res['mismatch']:
            single = single_option(sc, mm['name'])
            r2 = run_scenario(single, root + '-min')
            if r2.get('mismatch'):
                minimal.append({'scenario': single, 'result': slim(r2)})
        res['minimal'] = minimal
    return res


def single_option(sc: dict, name: str) -> dict:
    s2 = json.loads(json.dumps(sc))
    s2['id'] = sc['id'] + ':only:' + name
    s2['src'] = {s: [[n, v] for n, v in lst if n == name] for s, lst in sc['src'].items()}
    s2['src'] = {s: l for s, l in s2['src'].items() if l}
    s2['top_decl'] = {n: d for n, d in sc['top_decl'].items() if n == name}
    s2['sub_decl'] = {n: d for n, d in sc['sub_decl'].items() if n == name}
    s2['probe_top'] = [n for n in sc['probe_top'] if n == name]
    s2['probe_sub'] = [n for n in sc['probe_sub'] if n == name]
    s2['expect'] = {k: v for k, v in sc['expect'].items() if k.split('|', 1)[1] == name}
    s2['kinds'] = {name: sc['kinds'][name]}
    return s2


def slim(res: dict) -> dict:
    return {k: res.get(k) for k in ('id', 'rc', 'traceback', 'configured', 'mismatch', 'invariant_bad', 'err_tail', 'argv', 'trace', 'observed', 'phase1_rc', 'phase1_argv', 'phase1_stopped',
                                    'entry_stopped', 'configure_rc', 'configure_argv')}


def source_view(sc: dict) -> dict:
    return {'id': sc['id'], 'sources': sc['src'], 'top_decl': sc['top_decl'], 'sub_decl': sc['sub_decl'],
            'expect': {k: {'value': v['value'], 'winner': v['winner'], 'documented': v['documented']} for k, v in sc['expect'].items()}}


def apply_order(sc: dict, res: dict) -> T.Optional[str]:
    """From the set_option trace: the order in which the sources' values reached the store."""
    val2src: T.Dict[str, str] = {}
    for s, lst in sc['src'].items():
        for n, v in lst:
            val2src[n + '=' + json.dumps(v if not isinstance(v, dict) else v.get('raw', v.get('ini')), sort_keys=True)] = s
    order = []
    for kind, phase, depth, key, value in res.get('trace', []):
        if kind != 'option' or depth:
            continue
        n = key.split(':')[-1]
        for cand in (value, emit_str(value) if not isinstance(value, list) else value):
            s = val2src.get(n + '=' + json.dumps(cand, sort_keys=True))
            if s is None and isinstance(cand, str):
                for k2, s2 in val2src.items():
                    if k2.startswith(n + '=') and emit_str(json.loads(k2.split('=', 1)[1])) == cand:
                        s = s2
            if s:
                tag = f'{phase.split(":")[0]}:{s}'
                if tag not in order:
                    order.append(tag)
                break
    return '<'.join(order) if order else None


def judge(chk: common.Check, sc: dict, res: dict, orders: T.Dict[str, int]) -> None:
    g = sc['group']
    chk.case(sc['id'])
    chk.count('setups')
    chk.count('group:' + g)
    chk.merge_counts(res.get('counts', {}))
    if res.get('timed_out'):
        chk.inconclusive_case('watchdog')
        return
    hist = sc.get('history')
    if hist and res.get('phase1_stopped'):
        w = {'scenario': source_view(sc), 'full_scenario': sc, 'result': slim(res), 'phase': 1}
        if res.get('traceback') or res['rc'] not in (0, 1):
            chk.violation(f'internal-error:{g}:phase1', w)
        elif hist['mode'] != 'retry':
            chk.violation(f'valid-configuration-rejected:{g}:phase1' if res['rc'] else f'subproject-ran-before-it-was-called:{g}', w)
        elif res.get('phase1_sub_ran'):
            chk.violation(f'invalid-accepted:{sc.get("scope")}:{hist["poison_class"]}:{hist["poison_source"]}:optional-subproject', w)
        else:
            # the whole setup was refused instead of only disabling the optional subproject: also a rejection
            chk.count('retry_phase1_rejected_whole_setup')
            if res.get('configured'):
                chk.violation(f'failed-setup-left-configured:{g}:phase1', w)
        return
    if res.get('entry_stopped'):
        # the first setup (without the command-line source) or `meson configure <args>` itself did not succeed
        w = {'scenario': source_view(sc), 'full_scenario': sc, 'result': slim(res), 'phase': res['entry_stopped']}
        if res.get('traceback') or res['rc'] not in (0, 1):
            chk.violation(f'internal-error:{g}:{res["entry_stopped"]}', w)
        else:
            chk.violation(f'valid-configuration-rejected:{g}:{res["entry_stopped"]}', w)
        return
    if res.get('traceback') or res['rc'] not in (0, 1):
        mech = f'internal-error:{g}:{sc.get("inv_class", "valid")}'
        if sc.get('inv_class') == 'wrong-type-elem' and sc.get('inv_source') in (S3, S7) and \
                'AssertionError' in res.get('err_tail', '') and 'machinefile.py' in res.get('err_tail', ''):
            mech = 'machine-file-array-non-string-element-assertion'
        chk.violation(mech,
                      {'scenario': source_view(sc), 'full_scenario': sc, 'result': slim(res)})
        return
    for b in res.get('invariant_bad', []):
        chk.violation(f'stored-value-invalid:{b["where"]}:{b["type"]}',
                      {'scenario': source_view(sc), 'full_scenario': sc, 'bad': b, 'result': slim(res)})
    o = apply_order(sc, res)
    if o:
        orders[o] = orders.get(o, 0) + 1
    if sc.get('expect_fail'):
        chk.count('monitor:invalid_value_rejection')
        chk.count(f'invalid:{sc["inv_class"]}')
        chk.count(f'invalid_at:{sc["inv_source"]}')
        if res['rc'] == 0:
            mech = f'invalid-accepted:{sc["scope"]}:{sc["kinds"].get(sc["inv_name"], "any")}:{sc["inv_class"]}:{sc["inv_source"]}'
            chk.violation(mech, {'scenario': source_view(sc), 'full_scenario': sc, 'result': slim(res)})
        elif 'ERROR' not in res.get('err_tail', ''):
            chk.violation(f'rejected-without-error-message:{sc["inv_class"]}',
                          {'scenario': source_view(sc), 'full_scenario': sc, 'result': slim(res)})
        elif res.get('configured'):
            chk.violation(f'failed-setup-left-configured:{sc["inv_class"]}:{sc["inv_source"]}',
                          {'scenario': source_view(sc), 'full_scenario': sc, 'result': slim(res)})
        return
    if res['rc'] != 0:
        if sc.get('may_fail'):
            chk.count('overridden_invalid_diagnosed')
            if res.get('configured'):
                chk.violation('failed-setup-left-configured:overridden', {'scenario': source_view(sc), 'full_scenario': sc, 'result': slim(res)})
            return
        chk.violation(f'valid-configuration-rejected:{g}',
                      {'scenario': source_view(sc), 'full_scenario': sc, 'result': slim(res)})
        return
    if sc.get('may_fail'):
        chk.count('overridden_invalid_ignored')
    chk.count('monitor:value_comparison', len(sc['expect']))
    if 'rerun_same' in res:
        chk.count('monitor:undocumented_cell_rerun')
        if not res['rerun_same']:
            chk.violation(f'nondeterministic:{g}', {'scenario': source_view(sc), 'full_scenario': sc, 'result': slim(res),
                                                    'second_run_observed': res.get('rerun_observed')})
    for mm in res.get('mismatch', []):
        mech = classify(sc, mm)
        if sc.get('entry', 'setup') != 'setup' and not hist:
            mech = f'command-line-given-to-{sc["entry"]}:' + mech
        if hist:
            mech = f'first-init-by-{hist["mode"]}:' + mech
            if hist['mode'] == 'retry' and hist['poison_source'] == S5 and mm['expected']['winner'] == S5 \
                    and mm['name'] != hist['poison_name'] and mm['where'] == 'sub':
                # values the parent gave as sub:opt and that the aborted attempt had already taken out of
                # pending_subproject_options are gone when the subproject is initialised again
                mech = 'aborted-first-init-consumes-parent-sub-defaults'
        w = {'scenario': source_view(sc), 'full_scenario': sc, 'mismatch': mm, 'result': slim(res)}
        for m in res.get('minimal', []):
            if any(x['name'] == mm['name'] and x['where'] == mm['where'] for x in m['result']['mismatch']):
                w = {'scenario': source_view(m['scenario']), 'full_scenario': m['scenario'],
                     'mismatch': [x for x in m['result']['mismatch'] if x['name'] == mm['name'] and x['where'] == mm['where']][0],
                     'result': m['result'], 'minimised_from': sc['id']}
                break
        chk.violation(mech, w)


def scenarios(chk: common.Check) -> T.List[dict]:
    thorough = chk.tier == 'thorough'
    seed = chk.seed
    all256 = range(256)
    out: T.List[dict] = []
    pk = list(PROJECT_KINDS)
    out += gen_directed()
    out += gen_top16(seed)
    if thorough:
        out += gen_subsets('PN', pk, 'project', all256, seed, both_variants=True)
        out += gen_subsets('BS', BUILTIN_PERSUB, 'builtin_persub', all256, seed, both_variants=True)
    else:
        # quick: the six project-option kinds and the eight per-subproject builtins share one setup per subset
        out += gen_combined('PB', [(pk, 'project'), (BUILTIN_PERSUB, 'builtin_persub')], all256, seed)
    ymasks = list(all256) if thorough else [m for m in all256 if not (m & 0b01110010)] + \
        chk.rng.sample([m for m in all256 if m & 0b01110010], 20)
    out += gen_subsets('PY', pk, 'project_yield', ymasks, seed, both_variants=thorough)
    out += gen_subsets('PS', pk, 'project_subonly', [m for m in all256 if not (m & 0b00001101)], seed, both_variants=thorough)
    gmasks = [m for m in all256 if not (m & 0b11110010)]
    out += gen_subsets('BG', BUILTIN_GLOBAL, 'builtin_global', gmasks, seed, both_variants=True)
    out += gen_subsets('BGS', BUILTIN_GLOBAL[:8], 'builtin_global', [1 << i for i in (1, 4, 5, 6, 7)] + [0b10001000], seed)
    out += gen_dirs(seed, thorough)
    out += gen_prefix_spellings(thorough)
    out += gen_yield_type_mismatch(thorough, seed)
    out += gen_histories(thorough, seed, chk.rng)
    out += gen_cmd_spellings(thorough, seed)
    out += gen_per_machine(thorough, seed, chk.rng)
    out += gen_sub_first_language(thorough, seed, chk.rng)
    out += gen_buildtype(seed, thorough, chk.rng)
    out += gen_buildtype_sub(seed)
    out += gen_cli_buildtype(thorough, seed, chk.rng)
    out += gen_invalid(thorough, seed)
    out += gen_unknown()
    out += gen_overridden_invalid(seed)
    out += gen_boundaries()
    out += gen_machine_file_directed(thorough)
    out += gen_c(thorough, seed)
    if thorough:
        out += gen_subsets('PNd', pk, 'project', all256, seed, do_form='dict')
        out += gen_subsets('BSd', BUILTIN_PERSUB, 'builtin_persub', all256, seed, do_form='dict')
        out += gen_subsets('PSY', pk, 'project_subonly', [m for m in all256 if not (m & 0b00001101)], seed, sub_yield=True)
        out += gen_c(True, seed, cross=True)
        out += gen_subsets('BSx', BUILTIN_PERSUB, 'builtin_persub', all256, seed, cross=True)
        out += gen_subsets('PNx', pk, 'project', all256, seed, cross=True,
                           native_decoy="[project options]\nps = 'vf_decoy'\npi = 999\n[sub:project options]\nps = 'vf_decoy'\npi = 999\n")
    vary_command_line(out, seed, thorough)
    # a time cut (quick: 150 s) drops the tail: cheap, deciding groups first, the C-compiler group last
    prio = ['KF', 'T16', 'BTO', 'PB', 'PN', 'BS', 'LPN', 'LBS', 'RPN', 'RBS', 'XPM', 'NPM', 'BSL', 'BGL', 'YT', 'DIRS', 'PY', 'PS', 'INV', 'UNK', 'DIR', 'BT', 'BTS',
            'BG', 'BGS', 'BND', 'MF', 'OVI']
    out.sort(key=lambda sc: prio.index(sc['group']) if sc['group'] in prio else len(prio) + (sc['group'] in ('CC', 'CX', 'XSF', 'NSF')))
    return out


def replay(chk: common.Check, path: str) -> int:
    with open(path, encoding='utf-8') as f:
        w = json.load(f)
    sc = w.get('full_scenario')
    if not sc:
        print('replay: witness has no scenario')
        return 2
    runner.preload()
    root = os.path.join(common.scratch_dir('c07'), 'r')
    res = run_scenario(sc, root)
    orders: T.Dict[str, int] = {}
    judge(chk, sc, res, orders)
    still = bool(chk.violations or chk.known_hits)
    print(json.dumps(slim(res), indent=1, default=repr)[:4000])
    print('replay: still fails' if still else 'replay: no longer fails')
    return 1 if still else 0


def main() -> int:
    chk = common.Check(PID)
    if os.environ.get('VERIF_REPLAY'):
        return replay(chk, os.environ['VERIF_REPLAY'])
    runner.preload()
    scs = scenarios(chk)
    only = os.environ.get('C07_ONLY')
    if only:
        scs = [s for s in scs if s['group'] in only.split(',')]
    root = common.scratch_dir('c07')
    budget = 130.0 if chk.tier == 'quick' else 1100.0
    # cheap language-less scenarios first; C ones last, biggest first inside pmap chunks
    t0 = time.time()
    items = [(sc, os.path.join(root, f'{i:05d}')) for i, sc in enumerate(scs)]
    results: T.List[T.Optional[dict]] = []
    B = max(64, chk.jobs * 16)
    for i in range(0, len(items), B):
        if time.time() - t0 > budget:
            chk.count('skipped_time_budget', len(items) - i)
            break
        results += common.pmap(worker, items[i:i + B], chk.jobs)
    orders: T.Dict[str, int] = {}
    for (sc, _), res in zip(items, results):
        if res is None:
            continue
        judge(chk, sc, res, orders)
        if sc['group'] in ('PB', 'PN', 'BS', 'BT', 'INV', 'PY', 'DIR') and sc['id'].split(':')[1] not in ('00',):
            if len([s for s in chk.samples if s['id'].startswith(sc['group'])]) < 1:
                chk.sample({**source_view(sc), 'argv': res.get('argv'), 'observed': res.get('observed'),
                            'rc': res['rc'], 'set_option_trace': res.get('trace', [])[:12]}, limit=8)
    for name in ('monitor:get_option_message', 'monitor:inprocess_get_value_for', 'monitor:intro_buildoptions_top',
                 'monitor:invariant:init_top', 'monitor:invariant:init_sub', 'monitor:invariant:save',
                 'monitor:invariant:loaded', 'monitor:set_option_calls', 'monitor:set_user_option_calls',
                 'monitor:invalid_value_rejection', 'monitor:value_comparison',
                 'monitor:first_init_by_later_command:late-edit', 'monitor:first_init_by_later_command:late-gate',
                 'monitor:first_init_by_later_command:retry',
                 'monitor:cmdline_entry:configure', 'monitor:cmdline_entry:reconfigure', 'monitor:inprocess_after_configure',
                 'cmdline_order_permuted', 'cmdline_spellings_mixed', 'cmdline_spelling:long-eq', 'cmdline_spelling:long-space',
                 'cmdline_spelling:long-flag') + \
            tuple(f'monitor:cmdline_cell:{e_}:buildtype-{f_}:{p_}' for e_ in ENTRIES for f_ in ('D', 'long') for p_ in ('first', 'after-explicit')):
        if not only:
            chk.require(name, 1)
    groups = sorted({s['group'] for s in scs})
    return chk.finish(
        rule='one case = one generated (top + subproject) tree with one subset of value sources for a set of options; '
             'distinct by scenario id = group : source-subset bitmask (or buildtype/dir/invalid parameters) : value variant; '
             'every case runs a real `meson setup --backend=none` and is non-trivial (>=1 option observed through 3 channels '
             'or an invalid value that must be rejected)',
        assumptions=[
            'documentation (Builtin-options.md, Machine-files.md, Build-options.md) is the oracle; cells it does not order are consistency-only',
            'for a same-named project option in parent and subproject without yield, plain opt=value outside the subproject addresses the parent option only',
            'a subproject-specific source other than -Dsub:opt on a yielding option is undocumented (either parent or own value accepted)',
            'an invalid value at a source that a higher-priority source overrides need not be diagnosed, but must never become effective',
            'two- and three-valued kinds cannot give each source its own value: the reference winner(s) get values no other source has',
            'native builds in quick; cross file (same gcc) only in thorough',
            'the spelling of a command-line option (-Dname=value / --name=value / --name value), the order of the arguments and the '
            'command that carries them (setup / configure / setup --reconfigure) are not sources: each shape must resolve like -D in generated order; '
            'later commands carry only top-level options other than prefix, and a buildtype different from the one in force',
        ],
        exhaustive=not chk.counters.get('skipped_time_budget') and not only,
        extra={'groups': groups, 'source_application_orders': dict(sorted(orders.items(), key=lambda kv: -kv[1])[:12]),
               'exhaustive_bound': '2^3 x {default declared, omitted} top-level subsets; 2^8 subproject subsets for project options '
                                   '(6 kinds) and per-subproject builtins (8 options); sampled subsets for compiler options in quick; '
                                   'command line naming buildtype + explicit debug/optimization: all argument orders x 3 spellings of buildtype x '
                                   '2 of the explicit ones, for meson setup (all) and configure / setup --reconfigure (a rotating third each in quick)'})


if __name__ == '__main__':
    sys.exit(main())
