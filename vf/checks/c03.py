"""C03 — commands receive exactly the arguments the build definition specifies.

Per generated project (vf/gen/gen_c03.py):
  1. the real `meson setup` (forked, monitors of vf/monitors/c03.py installed; rsp projects with
     MESON_RSP_THRESHOLD=0); a configure-time run_command dump proves the meson.build literals denote
     the intended strings (otherwise the project is skipped as inconclusive, never a violation);
  2. build.ninja is expanded by mini-ninja and every edge run by the real /bin/sh (mn.Executor) with a PATH
     prefix in which cc/gcc/ar/gcc-ar are the dumper (tools/dumper.py) - configuration saw the real gcc;
     custom targets / run targets / generators run the dumper directly, through `env`, through
     `meson --internal exe --capture/--feed`, or through the pickled wrapper - all real;
  3. the real `meson test --no-rebuild` runs the dumper as the test program;
  4. the dumper log (argv bytes, DUMP_* environment, stdin) is compared with the plan's expectation;
     response files are decoded by vf/ref/buildargv.py, which is calibrated per run against the real
     gcc driver on the very texts that were decoded;
  4b. scoping: add_project_arguments / add_project_link_arguments / add_global_arguments / add_global_link_arguments are
     called for both machines (native: true / false / omitted) with distinct tagged lists, in the top project, in an
     ordinary subproject and in a subproject built for the build machine; targets of both machines exist in one
     non-cross build.  Every compile and link line must carry exactly the lists of its own machine and project, per
     language (scope_check: sentinel or string of a sibling scope in the argv = that scope's list was delivered);
  5. the monitor records localise a loss: element lines read back by mini-ninja + /bin/sh (or buildargv),
     quote contracts, pickled ExecutableSerialisation vs. input.
A configure-time refusal (newline: "Ninja does not support newlines") is `rejected`, never a violation.
"""
from __future__ import annotations

import io
import json
import os
import shutil
import signal
import subprocess
import sys
import time
import typing as T

from vf import common, runner
from vf import mininja as mn
from vf.gen import gen_c03 as gen
from vf.monitors import c03 as mon
from vf.ref import buildargv as ba

RAW_NAMES = {'DEPFILE_UNQUOTED', 'DESC', 'pool', 'description', 'targetdep', 'dyndep'}
FAKE_TOOLS = ('cc', 'gcc', 'c++', 'g++', 'ar', 'gcc-ar')
PROJECT_TIMEOUT = 420
# one root cause whatever the command kind / wrapping mode (decided at configure time): see known_findings.d/C03.json
KNOWN_SUBPROJECT_ORDER = 'scope:global-arguments:subproject-configured-after-build-machine-subproject-gets-build-machine-lists'


# ------------------------------------------------------------------------------------------- helpers
def l1_to_str(s: str) -> str:
    """dumper strings are bytes shown as latin-1; the plan holds text: compare in the text domain."""
    return s.encode('latin-1').decode('utf-8', 'surrogateescape')


def str_to_l1(s: str) -> str:
    return s.encode('utf-8', 'surrogateescape').decode('latin-1')


class ShellReader:
    """De-quotes a command fragment with the REAL /bin/sh: `printf '%s\\0' X <fragment>` in a directory that has
    files (so an unquoted glob expands visibly), with HOME and a few variables set (so an unquoted ~ or $x
    changes visibly)."""

    def __init__(self, root: str) -> None:
        self.dir = os.path.join(root, 'globdir')
        os.makedirs(self.dir, exist_ok=True)
        for n in ('a', 'b.c', 'q', 'zx', 'x', 'k7w', 'main.c'):
            with open(os.path.join(self.dir, n), 'w'):
                pass
        self.env = {'PATH': '/usr/bin:/bin', 'HOME': '/c03-home', 'x': 'XVAL', 'q': 'QVAL', 'in': 'INVAL',
                    'out': 'OUTVAL', 'LC_ALL': 'C.UTF-8'}
        self.cache: T.Dict[str, T.Optional[T.List[str]]] = {}
        self.calls = 0

    def words(self, fragment: str) -> T.Optional[T.List[str]]:
        if fragment in self.cache:
            return self.cache[fragment]
        self.calls += 1
        res: T.Optional[T.List[str]]
        try:
            p = subprocess.run(['/bin/sh', '-c', "printf '%s\\0' X " + fragment], cwd=self.dir, env=self.env,
                               stdin=subprocess.DEVNULL, stdout=subprocess.PIPE, stderr=subprocess.PIPE, timeout=20)
            if p.returncode != 0:
                res = None
            else:
                parts = p.stdout.split(b'\0')
                if parts and parts[-1] == b'':
                    parts.pop()
                res = [x.decode('utf-8', 'surrogateescape') for x in parts[1:]] if parts and parts[0] == b'X' else None
        except (OSError, subprocess.TimeoutExpired, ValueError):
            res = None
        self.cache[fragment] = res
        return res


def first_diff(exp: T.Sequence[str], obs: T.Sequence[str]) -> dict:
    k = next((i for i in range(min(len(exp), len(obs))) if exp[i] != obs[i]), min(len(exp), len(obs)))
    return {'index': k, 'expected': list(exp[k:k + 2]), 'observed': list(obs[k:k + 3]),
            'n_expected': len(exp), 'n_observed': len(obs)}


def lost_classes(exp: T.Sequence[str], obs: T.Sequence[str]) -> str:
    """Which hostile character classes are involved in the first difference (classifier input)."""
    k = next((i for i in range(min(len(exp), len(obs))) if exp[i] != obs[i]), min(len(exp), len(obs)))
    e = exp[k] if k < len(exp) else ''
    o = obs[k] if k < len(obs) else ''
    if k >= len(exp):
        return 'extra-arg'
    if len(obs) < len(exp) and list(obs[k:k + 2]) == list(exp[k + 1:k + 3]):
        # the argument exp[k] vanished as a whole
        cd = gen.classes_of(exp[k]) - {'long'}
        return 'dropped-' + '+'.join(sorted(cd)[:3] or ['plain'])
    ce = gen.classes_of(e) | (gen.classes_of(o) if o else set())
    ce.discard('empty')
    if e == '':
        return 'empty'
    # the character(s) at the first differing offset, on both sides; then their neighbourhood; then the whole argument
    j = next((i for i in range(min(len(e), len(o))) if e[i] != o[i]), min(len(e), len(o)))
    for lo, hi in ((j, j + 1), (max(0, j - 1), j + 2)):
        ca: T.Set[str] = set()
        for s_ in (e[lo:hi], o[lo:hi]):
            if s_:
                ca |= gen.classes_of(s_)
        ca.discard('empty')
        ca.discard('dash')
        ca.discard('long')
        if ca:
            return '+'.join(sorted(ca)[:3])
    return '+'.join(sorted(ce)[:3]) or 'plain'


def mechanism(kind: str, mode: str, what: str, exp: T.Sequence[str], obs: T.Sequence[str]) -> str:
    return f'{kind}:{mode}:{what}:{lost_classes(exp, obs)}'


# ------------------------------------------------------------------------------------------- one project
class Outcome:
    def __init__(self) -> None:
        self.counts: T.Dict[str, int] = {}
        self.violations: T.List[T.Tuple[str, dict]] = []
        self.cases: T.List[T.Any] = []
        self.cov: T.Dict[str, T.Dict[str, int]] = {}       # position -> class -> n verified
        self.modes: T.Dict[str, T.Dict[str, int]] = {}     # position -> mode -> n
        self.rejected: T.Dict[str, int] = {}
        self.inconclusive: T.List[dict] = []
        self.samples: T.List[T.Any] = []
        self.notes: T.List[dict] = []

    def count(self, k: str, n: int = 1) -> None:
        self.counts[k] = self.counts.get(k, 0) + n

    def as_dict(self) -> dict:
        return self.__dict__


class _Timeout(Exception):
    pass


def _alarm(signum: int, frame: T.Any) -> None:
    raise _Timeout()


def plan_params(plan: dict) -> dict:
    return {k: plan.get(k) for k in ('idx', 'seed', 'tier', 'rsp', 'newline_pos', 'nargs', 'force')}


def run_project(arg: T.Tuple[dict, str]) -> dict:
    params, root = arg
    plan = gen.build_plan(**params)
    out = Outcome()
    old = signal.signal(signal.SIGALRM, _alarm)
    signal.alarm(PROJECT_TIMEOUT)
    pdir = os.path.join(root, f'p{plan["idx"]}')
    try:
        _run_project(plan, root, pdir, out)
    except _Timeout:
        out.inconclusive.append({'why': 'project-timeout', 'plan': plan_params(plan)})
        out.count('inconclusive:project-timeout')
    except Exception as e:  # harness problem: inconclusive, never a verdict
        import traceback
        out.inconclusive.append({'why': 'harness-error', 'err': repr(e), 'tb': traceback.format_exc()[-1500:],
                                 'plan': plan_params(plan)})
        out.count('inconclusive:harness-error')
    finally:
        signal.alarm(0)
        signal.signal(signal.SIGALRM, old)
        shutil.rmtree(pdir, ignore_errors=True)
    return out.as_dict()


def _violate(out: Outcome, plan: dict, mech: str, detail: dict) -> None:
    w = {'plan': plan_params(plan)}
    w.update(detail)
    out.violations.append((mech, w))


def _run_project(plan: dict, root: str, pdir: str, out: Outcome) -> None:
    src = os.path.join(pdir, 'src')
    bdir = os.path.join(pdir, 'b')
    log = os.path.join(pdir, 'dump.log')
    os.makedirs(src)
    runner.write_tree(src, plan['files'])
    env = {'C03_DUMP_LOG': log}
    if plan['rsp']:
        env['MESON_RSP_THRESHOLD'] = '0'
    r = runner.meson(['setup', bdir, src] + plan['setup_args'], cwd=pdir, env=env, monitors=[mon.install], timeout=150)
    out.count('projects')
    nlpos = plan.get('newline_pos')
    if r.timed_out:
        out.count('inconclusive:setup-timeout')
        out.inconclusive.append({'why': 'setup-timeout', 'plan': plan_params(plan)})
        return
    if r.rc != 0:
        text = r.out + r.err
        if 'MesonException: Ninja does not support newlines' in text or \
                ('does not support newlines' in text and not r.traceback):
            if nlpos:
                out.count('rejected:newline')
                out.rejected[nlpos] = out.rejected.get(nlpos, 0) + 1
            else:
                # this project has newlines ONLY in custom_target/run_target/generator commands and test args/env,
                # where the property (and meson's own 'because command contains newlines' wrapper) promises delivery
                out.count('monitor:argv_compared')
                _violate(out, plan, 'command:newline:refused-at-configure', {'tail': text[-700:]})
            return
        if nlpos and nlpos.startswith('opt_') and 'cannot compile programs' in text:
            # the value reached the real compiler in meson's sanity check and the toolchain refused it
            out.count('rejected:compiler-sanity-check')
            out.rejected[nlpos] = out.rejected.get(nlpos, 0) + 1
            return
        out.count('inconclusive:setup-failed')
        out.inconclusive.append({'why': 'setup-failed', 'plan': plan_params(plan), 'tail': text[-1200:]})
        return
    out.count('configured')

    records = read_log(log)
    # ---- 1. literal calibration
    ok = True
    for i, chunk in enumerate(plan['calib']):
        got = [x for x in records if x['id'] == f'calib{i}']
        if len(got) != 1 or [l1_to_str(a) for a in got[0]['argv'][1:]] != list(chunk):
            ok = False
    got = [x for x in records if x['id'] == 'calibopt']
    if len(got) != 1 or [l1_to_str(a) for a in got[0]['argv'][1:]] != list(plan['calibopt']):
        ok = False
    if not ok:
        out.count('inconclusive:literal-miscalibrated')
        out.inconclusive.append({'why': 'literal-miscalibrated', 'plan': plan_params(plan)})
        return
    out.count('monitor:literal_calibration')

    # ---- 2. monitor records
    sh = ShellReader(pdir)
    elem_fail: T.Dict[str, dict] = {}     # first output name -> failure detail
    exe_fail: T.List[dict] = []
    for recd in r.records:
        k = recd.get('k')
        if k == 'counts':
            for name, n in recd['counts'].items():
                out.count('monitor:contract_' + name if name in ('quote_arg', 'rsp_quote', 'ninja_quote') else 'monitor:hook_' + name, n)
        elif k == 'contract':
            _violate(out, plan, f'contract:{recd["name"]}:{lost_classes([recd["x"]], recd.get("back") if isinstance(recd.get("back"), list) else [str(recd.get("back"))])}',
                     {'monitor': recd})
        elif k == 'monitor-error':
            out.count('inconclusive:monitor-error')
            out.notes.append({'what': 'monitor-error', 'rec': recd})
        elif k == 'elem':
            bad = elem_roundtrip(recd, sh, out)
            if bad:
                elem_fail[recd['outs'][0] if recd['outs'] else '?'] = bad
        elif k == 'exe':
            bad = exe_check(recd, out)
            if bad:
                exe_fail.append(bad)
        elif k == 'exe-rsp':
            # written with quote_arg per argument, joined by blanks: a POSIX-shell word list
            out.count('monitor:exe_rsp_file_checked')
            content = recd.get('content')
            got = sh.words(content) if content is not None and '\n' not in ''.join(recd['args']) else None
            if content is None:
                exe_fail.append({'form': 'rsp-file', 'cls': 'not-written', 'cmd_args': recd['cmd_args'][-2:]})
            else:
                import shlex
                try:
                    got_py = shlex.split(content)
                except ValueError:
                    got_py = None
                if got_py != recd['args'] or (got is not None and got != recd['args']):
                    exe_fail.append({'form': 'rsp-file', 'cls': lost_classes(recd['args'], got_py or []),
                                     'diff': first_diff(recd['args'], got_py or []), 'content': content[:600]})
    out.count('monitor:sh_reader_calls', sh.calls)

    # ---- 3. execute with the real /bin/sh through mini-ninja
    try:
        m = mn.parse_manifest('build.ninja', cwd=bdir)
    except mn.ManifestError as e:
        out.count('monitor:argv_compared')
        _violate(out, plan, 'manifest-unparseable:' + ('elem-roundtrip' if elem_fail else 'unknown-layer'),
                 {'err': str(e), 'elem': next(iter(elem_fail.values()), None)})
        for oname, bad in elem_fail.items():
            _violate(out, plan, 'elem-roundtrip:%s:%s' % (bad['via'], bad['cls']), {'edge_out': oname, 'detail': bad})
        return
    xenv = runner.base_env()
    fakebin = os.path.join(root, 'fakebin')
    xenv['PATH'] = fakebin + os.pathsep + xenv['PATH']
    xenv['C03_DUMP_LOG'] = log
    xenv['HOME'] = '/c03-home'
    xenv['x'] = 'XVAL'
    xenv['q'] = 'QVAL'
    outer_b = dict(plan.get('outer_env_build') or {})
    outer_t = dict(plan.get('outer_env_test') or {})
    xenv.update(outer_b)
    os.truncate(log, 0)
    sink = io.StringIO()
    ex = mn.Executor(m, bdir, jobs=3, incremental=False, keep_going=0, env=xenv, out=sink)
    try:
        ex.run(['all'] + list(plan.get('run_targets') or ['rt_plain', 'rt_env']))
    except mn.BuildFailure as e:
        out.count('inconclusive:build-failure')
        out.inconclusive.append({'why': 'mini-ninja BuildFailure', 'err': str(e), 'plan': plan_params(plan)})
        return
    build_records = read_log(log)
    failed_edges = {tuple(ev['outputs']): ev for ev in ex.events if ev['rc'] != 0}
    started = set(ex.order)
    os.truncate(log, 0)

    # ---- 4. tests through the real `meson test`
    tr = runner.meson(['test', '--no-rebuild', '--num-processes', '2'], cwd=bdir,
                      env=dict(outer_t, C03_DUMP_LOG=log, MESON_TESTTHREADS='2'), timeout=100)
    test_records = read_log(log)
    import re
    mt = re.search(r'^Timeout:\s+(\d+)', tr.out, re.M)
    tests_unreliable = tr.timed_out or bool(mt and int(mt.group(1)) > 0)
    if tests_unreliable:
        # a watchdog fired (machine load): nothing can be concluded about the tests of this project
        out.count('inconclusive:test-timeout')
        out.inconclusive.append({'why': 'meson test watchdog/timeout', 'plan': plan_params(plan), 'tail': tr.out[-400:]})

    # ---- 4b. the same tests again with --repeat N (+ --test-args): EVERY execution gets args + test-args, once
    trp = plan.get('test_repeat')
    if trp and not tests_unreliable:
        os.truncate(log, 0)
        targv = ['test', '--no-rebuild', '--num-processes', '2', '--repeat', str(trp['repeat'])]
        if trp['test_args']:
            # --test-args takes ONE string that meson splits like a POSIX shell: spell it with plain '...' quoting
            targv.append('--test-args=' + ' '.join("'" + a.replace("'", "'\\''") + "'" for a in trp['test_args']))
        tr2 = runner.meson(targv, cwd=bdir, env=dict(outer_t, C03_DUMP_LOG=log, MESON_TESTTHREADS='2'), timeout=150)
        rep_records = read_log(log)
        mt2 = re.search(r'^Timeout:\s+(\d+)', tr2.out, re.M)
        if tr2.timed_out or bool(mt2 and int(mt2.group(1)) > 0):
            out.count('inconclusive:test-timeout')
            out.inconclusive.append({'why': 'meson test --repeat watchdog/timeout', 'plan': plan_params(plan), 'tail': tr2.out[-400:]})
        else:
            rep_by_id: T.Dict[str, T.List[dict]] = {}
            for rr in rep_records:
                rep_by_id.setdefault(rr['id'], []).append(rr)
            for ident, exp in plan['cmd'].items():
                if exp['kind'] != 'test':
                    continue
                want = list(exp['runs'][0]) + list(trp['test_args'])
                wenv = expected_env(plan, exp['env'], outer_t)
                got = rep_by_id.get(ident, [])
                out.count('monitor:test_repeat_compared')
                out.count('monitor:argv_compared', trp['repeat'])
                out.cases.append(common.digest([exp['pos'], 'test-repeat', trp['repeat'], want]))
                locus = {'id': ident, 'pos': exp['pos'], 'kind': 'test', 'mode': 'test-repeat', 'repeat': trp['repeat'],
                         'test_args': trp['test_args']}
                if len(got) != trp['repeat']:
                    _violate(out, plan, mechanism('test', 'test-repeat', 'executed-%d-of-%d-times' % (len(got), trp['repeat']), want[1:], []),
                             dict(locus, expected_argv=want, tail=tr2.out[-600:]))
                    continue
                ok_all = True
                for n_, g in enumerate(sorted(got, key=lambda g_: len(g_['argv']))):
                    obs = [l1_to_str(a) for a in g['argv']]
                    if obs != want:
                        ok_all = False
                        what = 'arg-count' if len(obs) != len(want) else 'arg-bytes'
                        special = None
                        if len(obs) > len(want) and obs[:len(want)] == want:
                            extra = obs[len(want):]
                            special = 'args-appended-again' if extra == (want * (len(extra) // max(1, len(want)) + 1))[:len(extra)] \
                                else 'extra-args'
                        _violate(out, plan, ('test:test-repeat:' + special) if special else mechanism('test', 'test-repeat', what, want, obs),
                                 dict(locus, execution=n_ + 1, diff=first_diff(want, obs)))
                        break
                    oenv = {k_: l1_to_str(v_) for k_, v_ in g['env'].items()}
                    if exp['env'] is not None and any(k_ in outer_t for k_ in exp['env']):
                        out.count('monitor:env_append_prepend_onto_outer_compared')
                    if oenv != wenv:
                        ok_all = False
                        dk = next(k_ for k_ in sorted(set(wenv) | set(oenv)) if wenv.get(k_) != oenv.get(k_))
                        seen_vals = sorted({l1_to_str(g_['env'].get(dk, '')) for g_ in got})
                        mech_ = 'test:test-repeat:env-differs-between-executions' if len(seen_vals) > 1 and wenv.get(dk) in seen_vals \
                            else mechanism('test', 'test-repeat', 'env-bytes', [wenv.get(dk, '')], [oenv.get(dk, '')])
                        _violate(out, plan, mech_,
                                 dict(locus, var=dk, expected=wenv.get(dk), observed=oenv.get(dk), values_seen=seen_vals[:4]))
                        break
                if ok_all:
                    mm_ = out.modes.setdefault(exp['pos'], {})
                    key_ = 'test-repeat%d%s' % (trp['repeat'], '+test-args' if trp['test_args'] else '')
                    mm_[key_] = mm_.get(key_, 0) + 1
                    if trp['test_args']:
                        out.count('monitor:test_args_compared')

    by_out = {}
    for e in m.edges:
        for o in e.outputs:
            by_out[o] = e

    # ---- 5. compare command positions
    by_id: T.Dict[str, T.List[dict]] = {}
    for rr in build_records + test_records:
        by_id.setdefault(rr['id'], []).append(rr)
    strings_by_pos: T.Dict[str, T.List[str]] = {}
    for pos, s in plan['strings']:
        strings_by_pos.setdefault(pos, []).append(s)

    def verified(pos: str, mode: str) -> None:
        c = out.cov.setdefault(pos, {})
        for s in strings_by_pos.get(pos, []):
            for cls in gen.classes_of(s):
                c[cls] = c.get(cls, 0) + 1
        mm = out.modes.setdefault(pos, {})
        mm[mode] = mm.get(mode, 0) + 1

    for ident, exp in plan['cmd'].items():
        pos = exp['pos']
        kind = exp['kind']
        mode = 'test'
        cmdline = ''
        if exp.get('out'):
            e = by_out.get(exp['out'])
            cmdline = e.get('command') if e is not None else ''
            mode = command_mode(cmdline)
        got = by_id.get(ident, [])
        if kind == 'test' and tests_unreliable:
            continue
        out.count('monitor:argv_compared')
        if kind == 'test':
            out.count('monitor:test_argv_compared')
        out.cases.append(common.digest([pos, mode, exp['runs'], exp['env']]))
        locus = {'id': ident, 'pos': pos, 'kind': kind, 'mode': mode, 'rsp_project': plan['rsp']}
        if exp.get('multi'):
            # a group of pickled-wrapper commands sharing program/env/workdir: each must get its OWN argv
            out.count('monitor:argv_compared', len(exp['multi']) - 1)
            out.count('monitor:pickle_collision_group_compared')
            if any(o in by_out and by_out[o].idx not in started for o in exp['outs']):
                out.count('blocked_by_failed_dependency')
                continue
            obs_set = sorted([l1_to_str(a) for a in g['argv']] for g in got)
            want_set = sorted(list(v) for v in exp['multi'])
            wenv = expected_env(plan, exp['env'], outer_b)
            env_bad = [g['env'] for g in got if {k_: l1_to_str(v_) for k_, v_ in g['env'].items()} != wenv]
            modes_seen = sorted({command_mode(by_out[o].get('command')) for o in exp['outs'] if o in by_out})
            if obs_set != want_set or env_bad:
                missing = [v for v in want_set if v not in obs_set]
                extra = [v for v in obs_set if v not in want_set]
                cmds = {o: by_out[o].get('command')[-120:] for o in exp['outs'] if o in by_out}
                what = 'argv-delivered-to-wrong-command' if missing and len(obs_set) == len(want_set) else \
                    ('env-bytes' if not missing and not extra else 'argv-set-mismatch')
                _violate(out, plan, f'{kind}:{"+".join(modes_seen)}:{what}',
                         dict(locus, missing=missing[:3], unexpected=extra[:3], n_expected=len(want_set), n_observed=len(obs_set),
                              env_bad=env_bad[:1], commands=cmds, same_pickle_file=len(set(cmds.values())) < len(cmds)))
            else:
                mm = out.modes.setdefault(pos, {})
                for md in modes_seen:
                    mm[md] = mm.get(md, 0) + 1
            continue
        if not got and exp.get('out') and exp['out'] in by_out and by_out[exp['out']].idx not in started:
            # never started because an edge it depends on failed: that failure is reported at its own position
            out.count('blocked_by_failed_dependency')
            continue
        if len(got) != 1:
            ev = failed_edges.get(tuple(by_out[exp['out']].outputs)) if exp.get('out') and exp['out'] in by_out else None
            detail = dict(locus, expected_argv=exp['runs'][0], n_records=len(got), command=cmdline[:2000],
                          edge_rc=(ev or {}).get('rc'), layer=layer_hint(exp, elem_fail, exe_fail),
                          test_tail=(tr.out[-800:] if kind == 'test' else None))
            _violate(out, plan, mechanism(kind, mode, 'not-executed' if not got else 'executed-%d-times' % len(got),
                                          exp['runs'][0][1:], []), detail)
            continue
        obs = [l1_to_str(a) for a in got[0]['argv']]
        want = exp['runs'][0]
        bad = False
        if obs != want:
            bad = True
            what = 'arg-count' if len(obs) != len(want) else 'arg-bytes'
            _violate(out, plan, mechanism(kind, mode, what, want, obs),
                     dict(locus, diff=first_diff(want, obs), command=cmdline[:2000], layer=layer_hint(exp, elem_fail, exe_fail)))
        wenv = expected_env(plan, exp['env'], outer_t if kind == 'test' else outer_b)
        if exp['env'] is not None and any(k_ in (outer_t if kind == 'test' else outer_b) for k_ in exp['env']):
            out.count('monitor:env_append_prepend_onto_outer_compared')
        oenv = {k: l1_to_str(v) for k, v in got[0]['env'].items()}
        if exp['env'] is not None:
            out.count('monitor:env_compared')
        if oenv != wenv:
            bad = True
            keys = sorted(set(wenv) | set(oenv))
            dk = next(k for k in keys if wenv.get(k) != oenv.get(k))
            _violate(out, plan, mechanism(kind, mode, 'env-bytes' if dk in oenv and dk in wenv else 'env-missing',
                                          [wenv.get(dk, '')], [oenv.get(dk, '')]),
                     dict(locus, var=dk, expected=wenv.get(dk), observed=oenv.get(dk), command=cmdline[:2000]))
        if exp['stdin'] is not None:
            out.count('monitor:stdin_compared')
            if got[0].get('stdin') is None or l1_to_str(got[0]['stdin']) != exp['stdin']:
                bad = True
                _violate(out, plan, f'{kind}:{mode}:stdin', dict(locus, expected=exp['stdin'], observed=got[0].get('stdin')))
        if not bad:
            verified(pos, mode)
            if exp.get('also_pos'):
                verified(exp['also_pos'], mode)
            for suffix in ('.env',):
                if exp['env'] is not None and not kind.endswith('&&'):
                    verified(pos + suffix, mode)
                    form = (plan.get('env_forms') or {}).get(pos + suffix)
                    if form:
                        mm_ = out.modes.setdefault(pos + suffix, {})
                        mm_['form:' + form] = mm_.get('form:' + form, 0) + 1
                        out.count('monitor:env_form_' + ('string_or_list' if ('string' in form or 'list' in form) else 'dict_or_set'))
            if len(out.samples) < 3 and any(c in ''.join(want) for c in "'$\\"):
                out.samples.append({'pos': pos, 'mode': mode, 'argv': [a[:80] for a in want[:6]]})

    # ---- 6. compile / link edges
    cc = by_id.get('cc', [])
    decoded: T.Dict[str, T.Tuple[T.List[str], str]] = {}
    rsp_texts: T.Dict[str, str] = {}
    for rr in cc:
        argv: T.List[str] = []
        mode = 'plain'
        for a in rr['argv']:
            if a.startswith('@') and rr.get('rsp') and a[1:] in rr['rsp']:
                mode = 'rsp'
                text = rr['rsp'][a[1:]]
                rsp_texts[a[1:]] = text
                argv += ba.buildargv(text)
                out.count('monitor:rsp_decoded')
            else:
                argv.append(a)
        argv = [l1_to_str(a) for a in argv]
        if '-o' in argv and argv.index('-o') + 1 < len(argv):
            decoded[argv[argv.index('-o') + 1]] = (argv, mode)
    # calibrate the tokenizer on exactly the texts it decoded (real gcc driver)
    for path, text in list(rsp_texts.items())[:6]:
        st, det = ba.calibrate_text(text, pdir)
        out.count('monitor:buildargv_calibrated_' + st)
        if st == 'disagree':
            out.count('inconclusive:buildargv-miscalibrated')
            out.inconclusive.append({'why': 'buildargv disagrees with the real gcc driver', 'detail': det, 'plan': plan_params(plan)})

    # every position that belongs to a SCOPED family (project/global (link) arguments: per machine, per project):
    # its sentinels and every string it was given, for whatever language
    scoped: T.Dict[str, dict] = {}
    for grp_ in (plan['compile'], plan['link']):
        for sls_ in grp_.values():
            for o_ in sls_:
                if o_['pos'] in gen.SCOPE:
                    scoped.setdefault(o_['pos'], {'b': o_['b'], 'e': o_['e'], 'args': set()})['args'].update(o_['args'])
    for pos_, lst_ in (plan.get('scope_all') or {}).items():
        if pos_ in scoped:
            scoped[pos_]['args'].update(a for a in lst_ if a not in (scoped[pos_]['b'], scoped[pos_]['e']))

    owners: T.Dict[str, T.Set[str]] = {}
    for grp_ in (plan['compile'], plan['link']):
        for sls_ in grp_.values():
            for o_ in sls_:
                for a in o_['args']:
                    owners.setdefault(a, set()).add(o_['pos'])
    for pos_, d_ in scoped.items():
        for a in d_['args']:
            owners.setdefault(a, set()).add(pos_)
    n_owners = {a: len(v) for a, v in owners.items()}

    def scope_check(kind: str, target: str, outname: str, slots: T.List[dict], argv: T.List[str], mode: str) -> T.Set[str]:
        """A command carries the project/global arguments of ITS OWN machine and project only.  Evidence that the list of
        another scope of the same function was delivered: that list's sentinel, or one of its strings more often than this
        command's own positions specify it.  Returns the families reported (their slice comparison would only repeat it)."""
        import collections
        have = collections.Counter(argv)
        want_here = collections.Counter(a for sl in slots for a in sl['args'])
        own = {sl['pos']: sl for sl in slots}
        fam_own = {gen.SCOPE[p_][0]: p_ for p_ in own if p_ in gen.SCOPE}
        if not fam_own:
            return set()
        out.count('monitor:scope_edge_checked')
        machines = {gen.SCOPE[p_][1] for p_ in fam_own.values()}
        projects = {gen.SCOPE[p_][2] for p_ in fam_own.values()} - {'*'}
        if 'build' in machines:
            out.count('monitor:scope_native_true_target_edge')
        if 'host' in machines and 'glob_args_nat' in scoped:
            out.count('monitor:scope_native_false_target_edge')
        if projects - {'top'}:
            out.count('monitor:scope_subproject_target_edge')
        if 'default' in machines:
            out.count('monitor:scope_build_machine_subproject_edge')
        reported: T.Set[str] = set()
        for q in sorted(scoped):
            fam, mach, proj = gen.SCOPE[q]
            if q in own or fam in reported:
                continue
            d = scoped[q]
            ev = [x for x in (d['b'], d['e']) if have.get(x, 0)]
            # (a string that several lists of this project contain proves nothing about WHICH list was delivered: left to
            # the whole-argv accounting below)
            ev += [a for a in sorted(d['args']) if n_owners.get(a, 0) == 1 and have.get(a, 0) > want_here.get(a, 0)]
            if not ev:
                continue
            mine = fam_own.get(fam)
            if mine is None:
                rel = 'list-of-another-function'
            elif gen.SCOPE[mine][2] != proj:
                rel = 'other-project'
            else:
                rel = 'other-machine'
            own_missing = mine is not None and not have.get(own[mine]['b'], 0)
            reported.add(fam)
            what = f'{rel}-args-delivered' + ('+own-missing' if own_missing else '')
            # one narrow, separately named case: a host-machine target of an ordinary subproject that was configured AFTER
            # a build-machine subproject receives, instead of the global arguments of the host machine, exactly the
            # complete global list of the build machine (for its language)
            order = plan.get('sub_order') or []
            if mine is not None and rel == 'other-machine' and own_missing and gen.SCOPE[mine][1:] == ('host', '*') and mach == 'build' \
                    and projects == {'sp'} and 'sp' in order and 'spn' in order and order.index('spn') < order.index('sp') \
                    and have.get(d['b'], 0) == 1 and have.get(d['e'], 0) == 1 and argv.index(d['b']) < argv.index(d['e']):
                lang_ = own[mine].get('lang')
                full = next((o_['args'] for grp_ in (plan['compile'], plan['link']) for sls_ in grp_.values() for o_ in sls_
                             if o_['pos'] == q and o_.get('lang') == lang_), None)
                if full is not None and argv[argv.index(d['b']) + 1:argv.index(d['e'])] == full \
                        and not any(have.get(a, 0) > want_here.get(a, 0) for a in own[mine]['args'] if n_owners.get(a, 0) == 1):
                    what = KNOWN_SUBPROJECT_ORDER
            _violate(out, plan, what if what == KNOWN_SUBPROJECT_ORDER else f'{kind}:{mode}:scope:{fam}:{what}',
                     {'kind': kind, 'mode': mode, 'target': target, 'edge_out': outname,
                      'own_position': mine, 'own_scope': gen.SCOPE.get(mine or '', None), 'own_expected': own[mine]['args'][:6] if mine else None,
                      'delivered_position': q, 'delivered_scope': [fam, mach, proj], 'evidence_in_argv': ev[:6],
                      'argv_tail': argv[-24:]})
        return reported

    def check_slots(kind: str, target: str, outname: str, slots: T.List[dict]) -> None:
        ent = decoded.get(outname)
        scope_reported: T.Set[str] = scope_check(kind, target, outname, slots, ent[0], ent[1]) if ent is not None else set()
        for sl in slots:
            out.count('monitor:argv_compared')
            out.count('monitor:%s_slot_compared' % kind)
            if gen.SCOPE.get(sl['pos'], ('',))[0] in scope_reported:
                continue
            mode = ent[1] if ent else ('rsp' if plan['rsp'] else 'plain')
            out.cases.append(common.digest([sl['pos'], mode, sl['args']]))
            locus = {'pos': sl['pos'], 'kind': kind, 'mode': mode, 'target': target, 'edge_out': outname}
            if ent is None:
                e = by_out.get(outname)
                if e is not None and e.idx not in started:
                    out.count('blocked_by_failed_dependency')
                    continue
                ev = failed_edges.get(tuple(e.outputs)) if e is not None else None
                _violate(out, plan, mechanism(kind, mode, 'not-executed', sl['args'], []),
                         dict(locus, expected=sl['args'][:4], edge_rc=(ev or {}).get('rc'),
                              command=(e.get('command')[:1500] if e is not None else None),
                              layer='elem-roundtrip' if outname in elem_fail else None))
                continue
            argv = ent[0]
            nb_, ne_ = argv.count(sl['b']), argv.count(sl['e'])
            if nb_ != 1 or ne_ != 1 or argv.index(sl['b']) > argv.index(sl['e']):
                _violate(out, plan, mechanism(kind, mode, 'sentinel-lost', sl['args'], []),
                         dict(locus, n_begin=nb_, n_end=ne_, argv=argv[:60],
                              layer='elem-roundtrip' if outname in elem_fail else None))
                continue
            obs = argv[argv.index(sl['b']) + 1:argv.index(sl['e'])]
            if obs != sl['args']:
                what = 'arg-count' if len(obs) != len(sl['args']) else 'arg-bytes'
                mech = mechanism(kind, mode, what, sl['args'], obs)
                if sl.get('lang'):
                    # per-language call histories: name the two ways a list can be wrong without any byte being altered
                    import collections
                    surplus = collections.Counter(obs) - collections.Counter(sl['args'])
                    missing = collections.Counter(sl['args']) - collections.Counter(obs)
                    others = {a for grp in (plan['compile'], plan['link']) for sls in grp.values() for o_ in sls
                              if o_['pos'] == sl['pos'] and o_.get('lang') not in (None, sl['lang']) for a in o_['args']}
                    if surplus and not missing:
                        foreign = [a for a in surplus if a not in sl['args']]
                        if foreign and all(a in others for a in foreign):
                            mech = f'{kind}:{mode}:arg-leaked-from-other-language'
                        elif not foreign:
                            mech = f'{kind}:{mode}:arg-duplicated'
                _violate(out, plan, mech,
                         dict(locus, diff=first_diff(sl['args'], obs),
                              layer='elem-roundtrip' if outname in elem_fail else None,
                              elem=elem_fail.get(outname)))
            else:
                verified(sl['pos'], mode)
        # whole-argv accounting: the slices between sentinels are blind to copies that land OUTSIDE them (a list that
        # was extended once more, an argument of another target/language/list).  Every string this project specified
        # for any compile/link position must occur in this edge's argv exactly as often as this edge's own positions
        # specify it - no more, no less.  (-D spellings are subject to meson's documented de-duplication: a surplus
        # identical copy cannot be seen there; everything else can.)
        if ent is not None:
            import collections
            have = collections.Counter(ent[0])
            want_here = collections.Counter(a for sl in slots for a in sl['args'])
            out.count('monitor:whole_argv_accounting')
            for a in sorted(all_my_args):
                if have.get(a, 0) != want_here.get(a, 0):
                    if have.get(a, 0) > want_here.get(a, 0):
                        what = 'arg-repeated-outside-its-position' if a in want_here else 'arg-of-another-list-present'
                    else:
                        what = 'arg-missing'
                    if any(v[1].get('edge_out') == outname for v in out.violations):
                        break       # already reported by the slice comparison of this edge
                    _violate(out, plan, f'{kind}:{ent[1]}:{what}',
                             {'kind': kind, 'mode': ent[1], 'target': target, 'edge_out': outname, 'arg': a[:200],
                              'times_specified_for_this_edge': want_here.get(a, 0), 'times_in_argv': have.get(a, 0),
                              'specified_in': sorted({o_['pos'] for grp in (plan['compile'], plan['link']) for sls in grp.values()
                                                      for o_ in sls if a in o_['args']})})
                    break

    all_my_args = {a for grp in (plan['compile'], plan['link']) for sls in grp.values() for o_ in sls for a in o_['args']
                   if a not in ('-D', '-U', '-isystem')}
    # ... and the strings given for a language that none of this project's targets of that scope happens to use
    all_my_args |= {a for d_ in scoped.values() for a in d_['args'] if a not in ('-D', '-U', '-isystem')}
    objname = {'e1': 'e1.p/main.c.o', 's1': 'libs1.a.p/lib.c.o', 'e2': 'e2.p/main.c.o', 'x1': 'x1.p/main.cpp.o'}
    objname.update(plan.get('objname') or {})
    linkout = plan.get('linkout') or {}
    for target, slots in plan['compile'].items():
        check_slots('compile', target, objname[target], slots)
    for target, slots in plan['link'].items():
        check_slots('link', target, linkout.get(target, target), slots)

    # every edge must have run successfully: a failure nobody above accounted for is still a command that did not
    # receive what the build definition specified (e.g. the shell refused the line)
    if failed_edges and not out.violations:
        ev = next(iter(failed_edges.values()))
        _violate(out, plan, 'edge-failed:' + str(ev.get('rule')), {'outputs': ev.get('outputs'), 'rc': ev.get('rc'),
                                                                 'command': str(ev.get('command'))[:1500]})
    out.count('monitor:edges_run', len(ex.events))
    # a monitor failure without an execution-level difference is still a loss inside a layer
    for oname, bad in elem_fail.items():
        _violate(out, plan, 'elem-roundtrip:%s:%s' % (bad['via'], bad['cls']), {'edge_out': oname, 'detail': bad})
    for bad in exe_fail:
        _violate(out, plan, 'exe-serialisation:%s:%s' % (bad['form'], bad['cls']), {'detail': bad})


def expected_env(plan: dict, exp_env: T.Optional[T.Mapping[str, str]], outer: T.Mapping[str, str]) -> T.Dict[str, str]:
    """DUMP_* variables a process must see: the outer ones untouched, the specified ones on top; a variable given with
    env.append()/prepend() that already has an outer value is outer+sep+values / values+sep+outer (env object reference)."""
    res = dict(outer)
    for k, v in (exp_env or {}).items():
        res[k] = v
    for op in (plan.get('envops') or {}).values():
        k = op['key']
        if exp_env is not None and k in exp_env and k in outer and exp_env[k] == op['sep'].join(op['values']):
            parts = ([outer[k]] + list(op['values'])) if op['method'] == 'append' else (list(op['values']) + [outer[k]])
            res[k] = op['sep'].join(parts)
    return res


def layer_hint(exp: dict, elem_fail: T.Dict[str, dict], exe_fail: T.List[dict]) -> T.Optional[str]:
    if exp.get('out') and exp['out'] in elem_fail:
        return 'elem-roundtrip'
    if exe_fail:
        return 'exe-serialisation?'
    return None


def command_mode(cmdline: str) -> str:
    if '--internal exe --unpickle' in cmdline:
        return 'pickled'
    if '--internal exe ' in cmdline:
        return 'internal-exe'
    if cmdline.startswith('env '):
        return 'env-wrapper'
    return 'plain'


def read_log(path: str) -> T.List[dict]:
    res: T.List[dict] = []
    try:
        with open(path, encoding='ascii') as f:
            for line in f:
                try:
                    res.append(json.loads(line))
                except ValueError:
                    res.append({'id': '<garbled>', 'argv': [], 'env': {}})
    except FileNotFoundError:
        pass
    return res


# ------------------------------------------------------------------------------------------- monitor evaluation
def elem_roundtrip(recd: dict, sh: ShellReader, out: Outcome) -> T.Optional[dict]:
    """Lines meson wrote for one build statement -> mini-ninja -> /bin/sh (or buildargv) == the elements."""
    rule = recd['rule']
    stub = f'rule {rule}\n command = true\nrule {rule}_RSP\n command = true\n'
    try:
        m = mn.parse_manifest_text(stub + recd['text'])
    except mn.ManifestError as e:
        return {'via': 'mini-ninja-parse', 'cls': 'syntax', 'err': str(e), 'text': recd['text'][:800]}
    if len(m.edges) != 1:
        return {'via': 'mini-ninja-parse', 'cls': 'edges', 'n': len(m.edges), 'text': recd['text'][:800]}
    edge = m.edges[0]
    for name, elems in recd['elems']:
        val = edge.scope.vars.get(name)
        if val is None:
            return {'via': 'mini-ninja-parse', 'cls': 'binding-missing', 'name': name}
        out.count('monitor:elem_roundtrip')
        if name in RAW_NAMES:
            if val != ' '.join(elems):
                return {'via': 'ninja', 'cls': lost_classes([' '.join(elems)], [val]), 'name': name,
                        'diff': first_diff([' '.join(elems)], [val])}
            continue
        if '&&' in elems:
            out.count('elem_roundtrip_skipped_andand')
            continue
        if recd['use_rsp']:
            got: T.Optional[T.List[str]] = ba.buildargv(val)
            via = 'rsp'
        else:
            got = sh.words(val)
            via = 'sh'
        if got != list(elems):
            return {'via': via, 'cls': lost_classes(elems, got or []), 'name': name,
                    'diff': first_diff(elems, got or []), 'value': val[:1500], 'sh_failed': got is None}
    return None


def exe_check(recd: dict, out: Outcome) -> T.Optional[dict]:
    """as_meson_exe_cmdline: the string arguments that went in are the tail of what comes out / was pickled."""
    ins = recd['in_args']
    if any(x is None for x in ins):
        k = max(i for i, x in enumerate(ins) if x is None)
        ins = ins[k + 1:]
    if 'pickled' in recd:
        out.count('monitor:exe_pickle_checked')
        pk = recd['pickled']
        tail = pk['cmd_args'][len(pk['cmd_args']) - len(ins):] if ins else []
        if tail != ins:
            return {'form': 'pickled', 'cls': lost_classes(ins, tail), 'diff': first_diff(ins, tail)}
        if pk['capture'] != recd['capture'] or pk['feed'] != recd['feed']:
            return {'form': 'pickled', 'cls': 'capture-feed', 'pickled': pk, 'capture': recd['capture'], 'feed': recd['feed']}
        if (recd['env'] or {}) != (pk['env'] or {}):
            return {'form': 'pickled', 'cls': 'env', 'in': recd['env'], 'pickled': pk['env']}
        return None
    out.count('monitor:exe_cmdline_checked')
    outl = recd['out']
    tail = outl[len(outl) - len(ins):] if ins else []
    if tail != ins:
        return {'form': 'cmdline', 'cls': lost_classes(ins, [x or '' for x in tail]), 'diff': first_diff(ins, [x or '' for x in tail]),
                'reason': recd['reason']}
    return None


# ------------------------------------------------------------------------------------------- directed probes
def directed(chk: common.Check, root: str) -> None:
    """Cheap function-level sweeps over the whole alphabet (every class, every idiom), independent of projects:
    the quoting functions the backend calls, read back by the real /bin/sh and by buildargv."""
    common.use_repo()
    from mesonbuild.backend import ninjabackend as nb
    sh = ShellReader(root)
    strings: T.List[str] = []
    for cls, atoms in gen.ATOMS.items():
        if cls in ('empty', 'long'):
            continue
        for a in atoms:
            strings += [a, 'q' + a + 'w', a + a, a + 'q', 'q' + a, ' ' + a, a + ' ']
    for cls, idioms in gen.IDIOMS.items():
        strings += idioms
    strings += ['', 'x' * 5000, "a'b" * 100]
    strings = [s for s in dict.fromkeys(strings) if '\0' not in s]
    for i in range(0, len(strings), 25):
        chunk = strings[i:i + 25]
        # one shell evaluation for a whole list, exactly like an ARGS line
        no_nl = [s for s in chunk if '\n' not in s]
        line = ' '.join(nb.ninja_quote(nb.quote_func(s)) for s in no_nl)
        try:
            m = mn.parse_manifest_text('v = ' + line + '\n')
            got = sh.words(m.root.vars['v'])
        except mn.ManifestError as e:
            chk.violation('directed:ninja_quote:manifest-syntax', {'err': str(e), 'line': line[:600]})
            got = no_nl
        chk.count('monitor:directed_shell_lines')
        chk.count('monitor:directed_strings', len(no_nl))
        if got != no_nl:
            chk.violation('directed:quote-ninja-sh:' + lost_classes(no_nl, got or []), {'diff': first_diff(no_nl, got or [])})
        got2 = ba.buildargv(' '.join(nb.gcc_rsp_quote(s) for s in chunk))
        chk.count('monitor:directed_rsp_lines')
        if got2 != chunk:
            chk.violation('directed:gcc_rsp_quote:' + lost_classes(chunk, got2), {'diff': first_diff(chunk, got2)})
        # with newlines too: the shell itself (not ninja) must give the bytes back
        got3 = sh.words(' '.join(nb.quote_func(s) for s in chunk))
        if got3 != chunk:
            chk.violation('directed:quote_arg-sh:' + lost_classes(chunk, got3 or []), {'diff': first_diff(chunk, got3 or [])})
        st, det = ba.calibrate_text(' '.join(nb.gcc_rsp_quote(s) for s in chunk).encode('utf-8').decode('latin-1'), root)
        chk.count('monitor:buildargv_calibrated_' + st)
        if st == 'disagree':
            chk.inconclusive.append('buildargv disagrees with the real gcc driver: ' + json.dumps(det)[:300])


# ------------------------------------------------------------------------------------------- driver
REJECT_POS = ['targs_exe', 'proj_args', 'glob_args', 'opt_c_args', 'link_args', 'proj_link_args', 'opt_c_link_args',
              'ct_env.env', 'rt_env.env', 'gen_env.env', 'targs_lib', 'glob_link_args', 'dep_cargs', 'dep_largs']


def make_fakebin(root: str) -> None:
    fb = os.path.join(root, 'fakebin')
    os.makedirs(fb, exist_ok=True)
    for t in FAKE_TOOLS:
        p = os.path.join(fb, t)
        if not os.path.lexists(p):
            os.symlink(gen.DUMPER, p)


def aggregate(chk: common.Check, results: T.Sequence[dict], cov: dict, modes: dict, rejected: dict, incon: list, notes: list) -> None:
    for res in results:
        chk.merge_counts(res['counts'])
        for key in res['cases']:
            chk.case(key)
        for mech, w in res['violations']:
            chk.violation(mech, w)
        for pos, d in res['cov'].items():
            c = cov.setdefault(pos, {})
            for cls, n in d.items():
                c[cls] = c.get(cls, 0) + n
        for pos, d in res['modes'].items():
            c = modes.setdefault(pos, {})
            for md, n in d.items():
                c[md] = c.get(md, 0) + n
        for pos, n in res['rejected'].items():
            rejected[pos] = rejected.get(pos, 0) + n
        incon += res['inconclusive']
        notes += res['notes']
        for s in res['samples']:
            chk.sample(s)


def stream_map(fn: T.Callable, items: T.Sequence, jobs: int, deadline: float) -> T.Iterator:
    """Forked workers (the imported repository modules are inherited), at most `jobs` items in flight, no new item is
    started after `deadline`; results are yielded as they complete.  A dead worker raises (BrokenProcessPool)."""
    import concurrent.futures as cf
    import multiprocessing as mp
    if jobs <= 1:
        for it in items:
            if time.time() > deadline:
                return
            yield fn(it)
        return
    ctx = mp.get_context('fork')
    with cf.ProcessPoolExecutor(max_workers=min(jobs, max(1, len(items))), mp_context=ctx) as ex:
        pending: T.Set = set()
        it = iter(items)
        exhausted = False
        while True:
            while not exhausted and len(pending) < jobs and time.time() <= deadline:
                try:
                    pending.add(ex.submit(fn, next(it)))
                except StopIteration:
                    exhausted = True
            if not pending:
                return
            fin, pending = cf.wait(pending, timeout=PROJECT_TIMEOUT * 2, return_when=cf.FIRST_COMPLETED)
            if not fin:
                raise RuntimeError('C03 worker pool stalled')
            for f in fin:
                yield f.result()


def replay(chk: common.Check, path: str) -> int:
    with open(path, encoding='utf-8') as f:
        w = json.load(f)
    pp = w['plan']
    params = dict(idx=pp['idx'], seed=pp['seed'], tier=pp['tier'], rsp=pp['rsp'], newline_pos=pp.get('newline_pos'),
                  nargs=pp.get('nargs') or 4, force=pp.get('force'))
    root = common.scratch_dir('c03')
    make_fakebin(root)
    runner.preload()
    res = run_project((params, root))
    same = [(m, v) for m, v in res['violations'] if m == w.get('mechanism')]
    for m, v in res['violations']:
        print('  still violated:', m, json.dumps(v, ensure_ascii=True, default=repr)[:500])
    if res['inconclusive']:
        print('  inconclusive:', json.dumps(res['inconclusive'], default=repr)[:500])
    print(f'[C03] replay: {len(res["violations"])} violation(s), {len(same)} with the recorded mechanism')
    return 1 if res['violations'] else 0


def main() -> int:
    chk = common.Check('C03')
    if os.environ.get('VERIF_REPLAY'):
        return replay(chk, os.environ['VERIF_REPLAY'])
    t0 = time.time()
    root = common.scratch_dir('c03')
    make_fakebin(root)
    runner.preload()
    quick = chk.tier == 'quick'
    n_normal = int(os.environ.get('C03_PROJECTS', '48' if quick else '600'))
    rejects = REJECT_POS[:8] if quick else REJECT_POS * 3
    budget = 85 if quick else 1020
    plans = gen.plan_params(chk.seed, chk.tier, n_normal, rejects)
    directed(chk, root)

    cov: dict = {}
    modes: dict = {}
    rejected: dict = {}
    incon: list = []
    notes: list = []
    order = list(range(len(plans)))
    # reject probes first in the quick tier (they are few and cheap), then the normal projects
    order.sort(key=lambda i: (plans[i]['force'] is None, plans[i]['newline_pos'] is None, i))
    done = 0
    for res in stream_map(run_project, [(plans[j], root) for j in order], chk.jobs, t0 + budget):
        aggregate(chk, [res], cov, modes, rejected, incon, notes)
        done += 1
    if done < len(order):
        chk.count('projects_skipped_time_budget', len(order) - done)

    for k in ('monitor:scope_edge_checked', 'monitor:scope_native_true_target_edge', 'monitor:scope_native_false_target_edge',
              'monitor:scope_subproject_target_edge', 'monitor:scope_build_machine_subproject_edge',
              'monitor:whole_argv_accounting', 'monitor:env_append_prepend_onto_outer_compared', 'monitor:test_repeat_compared', 'monitor:test_args_compared', 'monitor:env_form_string_or_list', 'monitor:env_form_dict_or_set', 'monitor:pickle_collision_group_compared', 'monitor:exe_rsp_file_checked', 'monitor:argv_compared', 'monitor:test_argv_compared', 'monitor:elem_roundtrip', 'monitor:exe_pickle_checked',
              'monitor:exe_cmdline_checked', 'monitor:rsp_decoded', 'monitor:compile_slot_compared', 'monitor:link_slot_compared',
              'monitor:env_compared', 'monitor:stdin_compared', 'monitor:contract_quote_arg', 'monitor:contract_rsp_quote',
              'monitor:contract_ninja_quote', 'monitor:buildargv_calibrated_agree', 'monitor:literal_calibration',
              'monitor:directed_strings'):
        chk.require(k, 1)
    chk.require('configured', max(1, (n_normal if done >= len(order) else done) // 2))
    n_incon = sum(v for k, v in chk.counters.items() if k.startswith('inconclusive:'))
    if n_incon > max(2, done // 10):
        chk.inconclusive.append(f'{n_incon} inconclusive projects/events (see coverage.inconclusive_detail)')
    cells_missing = []
    for pos in gen.ALL_POS:
        for cls in gen.CLASSES:
            if cov.get(pos, {}).get(cls, 0) == 0:
                if cls == 'newline' and pos in gen.NEWLINE_REJECTING:
                    continue
                cells_missing.append(f'{pos}/{cls}')
    if not quick and done >= len(order) and cells_missing:
        chk.inconclusive.append(f'coverage matrix incomplete: {len(cells_missing)} cells, e.g. {cells_missing[:5]}')
    return chk.finish(
        rule='one case = (position, wrapping mode observed in build.ninja, expected argv/env) of a generated project; '
             'distinct by digest of those; every case carries >= 3 hostile strings and was executed by the real /bin/sh '
             '(or meson test) and compared byte-for-byte with the dumper log',
        assumptions=['POSIX only (quote_func = shlex.quote; cmd_quote unreachable)',
                     'ninja\'s own $-unescaping is mini-ninja\'s (trusted base); every other layer is the real one',
                     'response files are read with vf/ref/buildargv.py, calibrated per run against the real gcc driver',
                     'strings with NUL, a lone CR, exactly `&&` outside the deliberate separators, or accidental @WORD@ shapes are not generated',
                     'bare compile/link arguments avoid the prefixes/suffixes C13\'s list handling reorders (-I -L -l -D -U, *.a, *.so)',
                     'scoping (Reference manual: add_global_arguments `native:`, add_project_arguments "only used for the current '
                     'project", target `native:`, subproject `native:`): in a non-cross build a target declared native: true '
                     'receives the lists given with native: true, every other target those given with native: false / omitted; '
                     'project (link) arguments reach the targets of the project that gave them only; a subproject built for the '
                     'build machine receives the global lists of the build machine; the c_args / c_link_args options reach the '
                     'C targets of both machines (Builtin-options: "in native builds ... the unprefixed option alone will suffice")'],
        exhaustive=False,
        extra={'matrix_position_x_class': {p: dict(sorted(cov.get(p, {}).items())) for p in gen.ALL_POS},
               'matrix_position_x_mode': modes, 'rejected_newline_by_position': rejected,
               'cells_missing': cells_missing[:40], 'n_cells_missing': len(cells_missing),
               'inconclusive_detail': incon[:10], 'notes': notes[:10]})


if __name__ == '__main__':
    sys.exit(main())
