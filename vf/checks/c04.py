"""C04 - the generated Ninja manifest is well-formed and closed.

Real `meson setup` (ninja backend, mini-ninja shim) on
  * generated target-graph projects (vf/gen/gen_c04.py) x {layout, unity, default_library} (+ rsp threshold),
  * deliberate-collision variants (must be rejected with a MesonException, or at least leave one producer/path),
  * directed probes (among them: every documented way a target becomes built by default, expected flag =
    gen_c04.documented_default; a subproject first configured inside an optional subproject that fails and is
    then used by the parent; extract_objects()/extract_all_objects() with every kind of argument - strings,
    files, configure_file results, whole custom targets, custom-target indexes, generator lists - as subsets
    (non-unity) and as all sources (unity off and on); names with a backslash),
  * collisions include spellings that only the Ninja writer / ninja itself make equal to another target's path
    (backslash -> slash, ./, //, x/..) in target names, custom_target outputs, name_prefix and name_suffix,
  * the repository corpus (test cases/common, test cases/unit; copies; not configurable => skipped, counted).
build.ninja is parsed by mini-ninja (independent implementation) and checked for: parse / defined rules, unique
producers, acyclicity, closed inputs (exist on disk right after configuration or produced), `default all`,
default-built targets reachable from `all`, test prerequisites from `meson-test-prereq` /
`meson-benchmark-prereq`.  Expectations for generated projects come from the generator's own description;
for the corpus from meson's target/test table recorded in the child (interpreter data, not backend output).
Monitors in the configuring child record the element stream handed to NinjaBuildElement.write and compare it
with what is parsed back (write/parse agreement), count check_outputs collisions and check the all_outputs
invariant.
"""
from __future__ import annotations

import json
import os
import re
import shutil
import sys
import time
import typing as T

from vf import common, runner
from vf import mininja as mn
from vf.gen import gen_c04
from vf.monitors import c04_monitors

LAYOUTS = ['mirror', 'flat']
UNITY = ['off', 'on', 'subprojects']
DEFLIB = ['shared', 'static', 'both']
CELLS = [(l, u, d) for l in LAYOUTS for u in UNITY for d in DEFLIB]

PIPE_MECH = 'unescapable-pipe-in-build-line-path'
FLATGEN_MECH = 'flat-layout-wrong-path-for-built-file'
UNITY_EXT_MECH = 'unity-extracted-objects-ignore-non-unity-sources'
LOCALPROG_MECH = 'test-local-program-exe-or-arg-not-in-prereq'
# a subproject first configured from within an optional subproject that then failed stays registered (and is handed
# out again by subproject()/dependency()) although the Build copy holding its targets was thrown away; the suffix
# says what is left dangling
NESTED_MECH = 'nested-subproject-of-failed-optional-subproject-reused'
NESTED_INPUT = NESTED_MECH + ':statement-input'
NESTED_PREREQ = NESTED_MECH + ':test-prerequisite'
NESTED_OWN = NESTED_MECH + ':own-target-dropped'
# two statements whose outputs are DIFFERENT strings for meson (check_outputs compares them unconverted) but the
# same path once NinjaBuildElement.write() has replaced every backslash by a slash; the suffix says where the
# backslash came from
RESPELL_MECH = 'two-producers-for-one-path:backslash-written-as-slash'
RESPELL_AFFIX = RESPELL_MECH + ':from-name-prefix-or-suffix'
RESPELL_NAME = RESPELL_MECH + ':from-target-name-or-output'
# an input that is missing under the written (slash) spelling but exists on disk under the backslash spelling meson
# used when it created the file at configure time (unity sources in the private directory of such a target)
RESPELL_INPUT = 'input-exists-only-under-backslash-spelling'
SCRATCH_ROOT = ''   # set in the parent before forking workers; removed by common at exit


# ------------------------------------------------------------------------------------------------ helpers
def norm(p: str) -> str:
    return mn.canon(p.replace('\\', '/'))


def norm_list(xs: T.Sequence[str]) -> T.List[str]:
    return [norm(x) for x in xs if x != '']


def setup_args(cfg: dict, bdir: str) -> T.List[str]:
    return ['setup', '--layout=' + cfg['layout'], '--unity=' + cfg['unity'],
            '-Ddefault_library=' + cfg['default_library'], '--wrap-mode=nodownload', bdir]


def error_line(out: str) -> str:
    for ln in out.splitlines():
        if 'ERROR:' in ln:
            return ln.strip()[:300]
    return ''


def c04_record(r: runner.Result) -> T.Optional[dict]:
    recs = [x for x in r.records if x.get('ev') == 'c04']
    return recs[-1] if recs else None


def orphan_paths(rec: T.Optional[dict]) -> T.Dict[str, str]:
    """path -> subproject, for the targets of subprojects that are registered as found although they were
    configured inside an optional subproject that failed (recorded in the child from Interpreter.subprojects and
    the holders' call stacks).  Classifier input only: the verdict 'dangling' comes from the parsed manifest."""
    res: T.Dict[str, str] = {}
    for o in (rec or {}).get('orphaned_subprojects', []) or []:
        for p in o.get('dropped_paths', []):
            res[norm(p)] = o['name']
    return res


def respelling_origin(rec: T.Optional[dict], p: str) -> T.Optional[str]:
    """Classifier for a path p with two producers: were the two statements handed to the writer under different
    spellings that only the writer's backslash -> slash replacement makes equal, and where does the backslash come
    from?  None: same spelling (or no record)."""
    if not rec:
        return None
    raw = set()
    for w in rec.get('written', []):
        for x in list(w[0]) + list(w[1]):
            if norm(x) == p:
                raw.add(x)
    bs = [x for x in raw if chr(92) in x]
    if len(raw) < 2 or not bs:
        return None
    names = rec.get('target_names') or {}
    for tid, tn, default, outs in rec.get('targets', []):
        for o in outs:
            if chr(92) in o and any(x == o or x.startswith(o + '.p/') for x in bs):
                nm = names.get(tid) or ['', '', '']
                if chr(92) in nm[1] or chr(92) in nm[2]:
                    return RESPELL_AFFIX
                return RESPELL_NAME
    return RESPELL_MECH


class Out:
    """Per-case result returned by workers (plain data)."""

    def __init__(self, case: dict) -> None:
        self.case = case
        self.counts: T.Dict[str, int] = {}
        self.violations: T.List[T.Tuple[str, dict]] = []
        self.features: T.List[str] = []
        self.notes: T.List[T.Tuple[str, T.Any]] = []
        self.key: T.Optional[str] = None
        self.sample: T.Optional[dict] = None

    def count(self, k: str, n: int = 1) -> None:
        self.counts[k] = self.counts.get(k, 0) + n

    def violation(self, mech: str, w: dict) -> None:
        ww = {'case': self.case}
        ww.update(w)
        self.violations.append((mech, ww))

    def data(self) -> dict:
        return {'case': self.case, 'counts': self.counts, 'violations': self.violations, 'features': self.features,
                'notes': self.notes, 'key': self.key, 'sample': self.sample}


# ------------------------------------------------------------------------------------------------ manifest checks
def check_manifest(out: Out, bdir: str, rec: T.Optional[dict], cfg: dict,
                   orph: T.Optional[T.Dict[str, str]] = None) -> T.Optional[mn.Manifest]:
    """Structural checks that need no expectation. Returns the manifest when it parses."""
    orph = orph or {}
    has_pipe = False
    flat = cfg.get('layout') == 'flat'
    unity_on = cfg.get('unity') != 'off'
    if rec:
        for w in rec['written']:
            if any('|' in p for part in (w[0], w[1], w[3], w[4], w[5]) for p in part):
                has_pipe = True
                break
    try:
        m = mn.parse_manifest('build.ninja', cwd=bdir)
    except mn.ManifestError as e:
        out.count('monitor:parse')
        msg = str(e)
        if 'unknown build rule' in msg:
            mech = 'undefined-rule'
        elif has_pipe:
            mech = PIPE_MECH
        else:
            mech = 'manifest-does-not-parse'
        out.violation(mech, {'error': msg[:400]})
        return None
    except RecursionError:
        out.count('inconclusive:parser-recursion')
        return None
    out.count('monitor:parse')
    out.count('edges', len(m.edges))
    # rules: the parser raises on an unknown rule; make the evaluation visible
    out.count('monitor:rule-defined', len(m.edges))
    # unique producers
    out.count('monitor:unique-producer', sum(len(e.all_outputs) for e in m.edges))
    if m.duplicate_outputs:
        p, i, j = m.duplicate_outputs[0]
        out.count('monitor:duplicate-spelling-classifier')
        respell = None if has_pipe else respelling_origin(rec, p)
        out.violation(PIPE_MECH if has_pipe else respell or 'two-producers-for-one-path',
                      {'path': p, 'first': repr(m.edges[i]), 'second': repr(m.edges[j]),
                       'n_duplicates': len(m.duplicate_outputs),
                       **({'why': 'check_outputs() compares the unconverted strings, write() replaces every '
                                  'backslash by a slash'} if respell else {})})
    # acyclic
    out.count('monitor:acyclic')
    cyc = m.find_cycle()
    if cyc is not None:
        out.violation('dependency-cycle', {'cycle': [m.edges[i].all_outputs[:2] for i in cyc][:12]})
    # closed inputs
    missing = []
    n_in = 0
    n_src = 0
    for e in m.edges:
        for i in e.all_inputs + e.validations:
            n_in += 1
            if i in m.producer:
                continue
            n_src += 1
            if not os.path.lexists(os.path.join(bdir, i)):
                missing.append((i, e.all_outputs[:2], e.rule.name))
    out.count('monitor:input-closed', n_in)
    out.count('inputs_on_disk', n_src)
    if missing:
        # classifier 1: under --layout flat meson names some built files by a path other than the one they are
        # produced at: File.from_built_file(<target>.get_builddir(), name) keeps the mirror-layout path
        # (generator.process(<target>), custom-target index as command argument, preprocess depends:), or the
        # meson-out/ prefix is applied twice (compiler.preprocess outputs used as sources)
        def flat_twin(p: str) -> T.Optional[str]:
            if p.startswith('meson-out/meson-out/'):
                return p[len('meson-out/'):]
            if not p.startswith('meson-out/') and not p.startswith('/') and not p.startswith('../'):
                return 'meson-out/' + p.rsplit('/', 1)[-1]
            return None
        flat_gen = [x for x in missing if flat and flat_twin(x[0]) in m.producer]
        # classifier 2: unity build; objects taken over from another target (extract_all_objects, the static
        # half of both_libraries) are computed as <target>-unityN.c.o although the target's sources cannot be
        # unity-compiled (assembly): no statement produces that object.  (Fixed in /repo by 11c99b1; any other
        # missing unity object -- e.g. a wrong count of unity files -- stays 'input-neither-exists-nor-produced'.)
        def asm_in_same_private_dir(p: str) -> bool:
            d = p.rsplit('/', 1)[0] + '/'
            for e in m.edges:
                if any(o.startswith(d) for o in e.outputs) and \
                        any(i.lower().endswith(('.s', '.asm', '.ll', '.sx')) for i in e.inputs):
                    return True
            return False
        unity_ext = [x for x in missing if x not in flat_gen and unity_on and
                     re.search(r'-unity\d+\.[^/]*\.o$', x[0]) and asm_in_same_private_dir(x[0])]
        # classifier 3: the path is the output of a target of a subproject that was first configured inside an
        # optional subproject that failed: the subproject stays registered and its objects are handed out again,
        # but its targets went away with the failed subproject's Build copy
        nested = [x for x in missing if x not in flat_gen and x not in unity_ext and x[0] in orph]
        # classifier 4: meson created the file at configure time under a name with a backslash (a file name
        # character on POSIX); the writer replaced it by a slash
        raw_in: T.Dict[str, T.Set[str]] = {}
        if rec and any(chr(92) in p for w in rec['written'] for part in (w[3], w[4], w[5]) for p in part):
            for w in rec['written']:
                for part in (w[3], w[4], w[5]):
                    for x in part:
                        if chr(92) in x:
                            raw_in.setdefault(norm(x), set()).add(x)
        respelled = [x for x in missing if x not in flat_gen and x not in unity_ext and x not in nested and
                     any(os.path.lexists(os.path.join(bdir, r)) for r in raw_in.get(x[0], ()))]
        rest = [x for x in missing if x not in flat_gen and x not in unity_ext and x not in nested and
                x not in respelled]
        if respelled:
            names = (rec or {}).get('target_names') or {}
            affix = any(chr(92) in n[1] or chr(92) in n[2] for n in names.values())
            named = any(chr(92) in n[0] for n in names.values())
            out.violation(RESPELL_INPUT + (':from-name-prefix-or-suffix' if affix and not named else ''),
                          {'missing': respelled[:8], 'n_missing': len(respelled),
                           'exists_as': [sorted(raw_in[x[0]])[0] for x in respelled[:8]]})
        if flat_gen:
            out.violation(FLATGEN_MECH, {'missing': flat_gen[:8], 'n_missing': len(flat_gen),
                                         'produced_as': [flat_twin(x[0]) for x in flat_gen[:8]]})
        if unity_ext:
            out.violation(UNITY_EXT_MECH, {'missing': unity_ext[:8], 'n_missing': len(unity_ext)})
        if nested:
            out.violation(NESTED_INPUT, {'missing': nested[:8], 'n_missing': len(nested),
                                         'subprojects': sorted({orph[x[0]] for x in nested}),
                                         'registered': [o for o in (rec or {}).get('orphaned_subprojects', [])][:4]})
        if rest:
            out.violation(PIPE_MECH if has_pipe else 'input-neither-exists-nor-produced',
                          {'missing': rest[:8], 'n_missing': len(rest)})
    # default statement and aggregate targets
    out.count('monitor:default-all')
    if m.defaults != ['all']:
        out.violation('default-is-not-all', {'defaults': m.defaults[:10]})
    for agg in ('all', 'meson-test-prereq', 'meson-benchmark-prereq', 'clean', 'test', 'benchmark', 'install',
                'build.ninja', 'reconfigure', 'PHONY'):
        out.count('monitor:aggregate-present')
        if agg not in m.producer:
            out.violation('aggregate-target-missing', {'target': agg})
    # meson-specific consistency (beyond the property text): the files whose change regenerates build.ninja are
    # declared as outputs of a phony statement, so that a deleted meson.build does not make the manifest unusable
    regen = m.producer.get('build.ninja')
    if regen is not None:
        out.count('monitor:regen-inputs-have-phony', len(regen.all_inputs))
        bad = [i for i in regen.all_inputs if i not in m.producer]
        if bad:
            out.violation('regen-input-without-phony-statement', {'inputs': bad[:8]})
    return m


def check_stream(out: Out, m: mn.Manifest, rec: dict) -> None:
    """write/parse agreement: what meson handed to NinjaBuildElement.write == what mini-ninja reads back."""
    written = rec['written']
    out.count('monitor:write-parse-agreement', len(written))
    has_pipe = any('|' in p for w in written for part in (w[0], w[1], w[3], w[4], w[5]) for p in part)
    if len(written) != len(m.edges):
        out.violation(PIPE_MECH if has_pipe else 'write-parse-disagreement:count',
                      {'written': len(written), 'parsed': len(m.edges)})
        return
    if rec.get('added') != len(written) + rec.get('write_errors', 0):
        out.violation('added-but-not-written', {'added': rec.get('added'), 'written': len(written)})
    fields = ['outputs', 'implicit_outputs', 'rule', 'inputs', 'implicit', 'order_only', 'bindings']
    for w, e in zip(written, m.edges):
        got = [e.outputs, e.implicit_outputs, e.rule.name, e.inputs, e.implicit, e.order_only,
               sorted(e.scope.vars.keys())]
        want = [norm_list(w[0]), norm_list(w[1]), w[2], norm_list(w[3]), norm_list(w[4]), norm_list(w[5]), w[6]]
        # meson sorts deps before quoting; canonicalisation may reorder nothing, compare as written
        for f, a, b in zip(fields, want, got):
            if f in ('implicit', 'order_only'):
                a, b = sorted(a), sorted(b)
            if a != b:
                out.violation(PIPE_MECH if has_pipe else 'write-parse-disagreement:' + f,
                              {'field': f, 'written': a if isinstance(a, str) else a[:12],
                               'parsed': b if isinstance(b, str) else b[:12], 'line': e.line,
                               'triage': 'meson quoting or mini-ninja lexer: compare with the Ninja manual'})
                return
    if any(w[2].endswith('_RSP') for w in written):
        out.count('rsp_edges', sum(1 for w in written if w[2].endswith('_RSP')))
    out.count('implicit_output_edges', sum(1 for w in written if w[1]))


def check_invariants(out: Out, rec: dict) -> None:
    out.count('monitor:check_outputs-calls', rec.get('check_outputs', 0))
    if rec.get('ok'):
        out.count('monitor:all_outputs-invariant')
        if rec.get('all_outputs_ok') is False:
            out.violation('all_outputs-differs-from-written-outputs', {'diff': rec.get('all_outputs_diff')})
        if rec.get('collisions'):
            # a collision was detected but generate() still succeeded: the error was swallowed
            out.violation('collision-detected-but-accepted', {'collisions': rec['collisions'][:4]})


def check_failed_subprojects(out: Out, m: mn.Manifest, failed: T.Sequence[dict], rec: T.Optional[dict]) -> None:
    """Nothing that an optional subproject declared before it failed (and was disabled) may be in the manifest:
    every such name carries the subproject's marker."""
    for f in failed:
        mark = f['marker']
        out.count('monitor:failed-subproject-left-no-trace')
        hits = []
        for e in m.edges:
            for p in e.all_outputs + e.all_inputs + e.validations:
                if mark in p:
                    hits.append(('path', p, e.all_outputs[:2], e.rule.name))
            if not hits:
                for k, v in e.scope.vars.items():
                    if mark in v:
                        hits.append(('binding ' + k, v[:120], e.all_outputs[:2], e.rule.name))
        table = []
        if rec:
            table = [t[0] for t in rec.get('targets', []) if mark in t[0]] + \
                    [t[0] for t in rec.get('tests', []) if mark in t[0]]
        if hits or table:
            out.violation('failed-optional-subproject-left-trace',
                          {'subproject': f, 'manifest': hits[:6], 'n': len(hits), 'meson_tables': table[:6]})


def reach(m: mn.Manifest, root: str) -> T.Set[int]:
    return m.reachable_edges([root])


def check_expectations(out: Out, m: mn.Manifest, targets: T.Sequence[T.Tuple[str, bool, T.Sequence[str], str]],
                       tests: T.Sequence[T.Tuple[str, bool, T.Sequence[T.Tuple[str, T.Sequence[str]]]]],
                       source: str, orph: T.Optional[T.Dict[str, str]] = None) -> None:
    """targets: (id, built by default (None: the documents do not say), paths, kind);
    tests: (name, benchmark, [(target id, paths)])."""
    orph = orph or {}
    r_all = reach(m, 'all')
    r_test = reach(m, 'meson-test-prereq')
    r_bench = reach(m, 'meson-benchmark-prereq')
    for tid, default, paths, kind in targets:
        for p in paths:
            p = norm(p)
            out.count('monitor:target-output-produced')
            e = m.producer.get(p)
            if e is None:
                out.violation(NESTED_OWN if p in orph else 'target-output-has-no-producer',
                              {'target': tid, 'path': p, 'kind': kind, 'oracle': source,
                               **({'subproject': orph[p]} if p in orph else {})})
                continue
            if kind in ('alias', 'run', 'RunTarget', 'AliasTarget'):
                continue
            if default is None:
                out.count('default_undocumented_targets_seen')
            elif default:
                out.count('monitor:default-reachable-from-all')
                if e.idx not in r_all:
                    out.violation(NESTED_OWN if p in orph else 'default-target-not-reachable-from-all',
                                  {'target': tid, 'path': p, 'kind': kind, 'oracle': source,
                                   'all_inputs': m.producer['all'].inputs[:20] if 'all' in m.producer else None})
            else:
                out.count('nondefault_targets_seen')
                if e.idx not in r_all:
                    out.count('nondefault_not_in_all')
    for name, bench, pre in tests:
        rset = r_bench if bench else r_test
        root = 'meson-benchmark-prereq' if bench else 'meson-test-prereq'
        for ent in pre:
            tid, paths = ent[0], ent[1]
            via = ent[2] if len(ent) > 2 else ''
            for p in paths:
                p = norm(p)
                out.count('monitor:test-prereq-reachable')
                e = m.producer.get(p)
                if e is None:
                    out.violation(NESTED_PREREQ if p in orph else 'test-prereq-has-no-producer',
                                  {'test': name, 'target': tid, 'path': p, 'oracle': source,
                                   **({'subproject': orph[p]} if p in orph else {})})
                    continue
                if e.idx not in rset:
                    # classifier: the test's executable / an argument is the result of find_program() for a name
                    # overridden with a built executable (build.LocalProgram); get_testlike_targets() unwraps
                    # neither (it does for depends:, which Test.__init__ unwraps)
                    mech = LOCALPROG_MECH if via in ('local-program-exe', 'local-program-arg') else \
                        NESTED_PREREQ if p in orph else 'test-prerequisite-not-reachable-from-' + root
                    out.violation(mech,
                                  {'test': name, 'target': tid, 'path': p, 'oracle': source, 'referenced_as': via,
                                   'prereq_inputs': m.producer[root].inputs[:20] if root in m.producer else None})
                elif e.idx not in r_all:
                    out.count('test_prereq_only_via_prereq_target')


def table_expectations(rec: dict) -> T.Tuple[list, list]:
    targets = []
    for tid, tn, default, outs in rec.get('targets', []):
        if default is None or tn in ('RunTarget', 'AliasTarget'):
            continue
        targets.append((tid, bool(default), outs, tn))
    tests = [(n, b, [tuple(x) for x in pre]) for n, b, pre in rec.get('tests', [])]
    return targets, tests


def desc_expectations(desc: dict, cfg: dict) -> T.Tuple[list, list]:
    byid = {t['id']: t for t in desc['targets']}
    targets = []
    for t in desc['targets']:
        targets.append((t['id'] + ':' + t['name'], t['default'],
                        gen_c04.expected_paths(t, cfg['layout'], cfg['default_library']), t['kind']))
    tests = []
    for t in desc['tests']:
        pre = [(i + ':' + byid[i]['name'], gen_c04.dependency_paths(byid[i], cfg['layout'], cfg['default_library']),
                t.get('via', {}).get(i, ''))
               for i in t['prereq']]
        tests.append((t['name'], t['benchmark'], pre))
    return targets, tests


# ------------------------------------------------------------------------------------------------ cases
def materialise(case: dict, root: str) -> T.Tuple[str, T.Optional[dict]]:
    """Write the project of a case under root; returns (source dir, description or None)."""
    src = os.path.join(root, 'src')
    typ = case['type']
    if typ == 'gen':
        files, desc = gen_c04.generate(case['seed'])
        runner.write_tree(src, files)
        return src, desc
    if typ == 'collision':
        files, desc = gen_c04.generate_collision(case['seed'], case['kind'])
        runner.write_tree(src, files)
        for link, target in desc.get('symlinks', {}).items():
            os.symlink(target, os.path.join(src, link))
        return src, desc
    if typ == 'probe':
        files, desc = PROBES[case['name']]()
        runner.write_tree(src, files)
        return src, desc
    if typ == 'corpus':
        shutil.copytree(os.path.join(common.REPO, 'test cases', case['rel']), src, symlinks=True,
                        ignore_dangling_symlinks=True)
        return src, None
    raise AssertionError(typ)


def run_case(case: dict) -> dict:
    out = Out(case)
    import tempfile
    root = tempfile.mkdtemp(prefix='case-', dir=SCRATCH_ROOT or None)
    try:
        try:
            _run_case(case, out, root)
        except Exception as e:     # harness error: never a verdict
            import traceback
            out.count('inconclusive:harness-error')
            out.notes.append(('harness_error', {'case': case, 'error': repr(e)[:300],
                                                'tb': traceback.format_exc()[-800:]}))
    finally:
        shutil.rmtree(root, ignore_errors=True)
    return out.data()


def _run_case(case: dict, out: Out, root: str) -> None:
    typ = case['type']
    cfg = case['cfg']
    try:
        src, desc = materialise(case, root)
    except (OSError, shutil.Error) as e:
        out.count('corpus_copy_failed')
        return
    bdir = os.path.join(root, 'b')
    mon = c04_monitors.make_monitor(case.get('rsp'))
    r = runner.meson(setup_args(cfg, bdir), cwd=src, monitors=[mon], timeout=case.get('timeout', 120))
    out.count('setups')
    if r.timed_out:
        out.count('inconclusive:setup-timeout')
        return
    rec = c04_record(r)
    configured = r.rc == 0 and os.path.isfile(os.path.join(bdir, 'build.ninja'))
    if desc is not None:
        out.features = list(desc.get('features', []))
    collision = desc.get('collision') if desc else None
    if collision is not None and collision['kind'].startswith('normalised-spelling:'):
        out.count('normalised_spelling_collisions_tried')

    # ---- outcome classes -------------------------------------------------------------------
    if not configured:
        clean_reject = r.rc == 1 and not r.traceback and r.signal == 0
        if typ == 'corpus':
            out.count('corpus_skipped_not_configurable')
            if r.traceback or r.rc not in (0, 1):
                out.count('corpus_traceback')
                out.notes.append(('corpus_traceback', {'project': case['rel'], 'cfg': cfg, 'rc': r.rc,
                                                       'tail': (r.out[-300:] + r.err[-500:])}))
            return
        if not clean_reject:
            out.count('monitor:rejection-is-clean')
            out.violation('internal-error-instead-of-MesonException',
                          {'rc': r.rc, 'signal': r.signal, 'traceback': r.traceback,
                           'tail': r.out[-400:] + r.err[-800:]})
            return
        err = error_line(r.out)
        if collision is not None:
            out.count('monitor:rejection-is-clean')
            out.count('collision_rejected')
            by = 'check_outputs' if (rec and rec.get('collisions')) else 'interpreter'
            out.count('collision_rejected_by:' + by)
            out.key = f"collision:{collision['kind']}:rejected:{by}"
            out.sample = {'collision': collision['kind'], 'cfg': cfg, 'rejected_with': err}
            return
        if typ == 'probe' and desc and desc.get('may_reject'):
            out.count('monitor:rejection-is-clean')
            out.count('probe_rejected')
            out.key = f"probe:{case['name']}:rejected"
            return
        if typ == 'gen' and cfg['layout'] == 'flat' and desc and desc.get('flat_collision') and \
                'Multiple producers' in err:
            out.count('monitor:rejection-is-clean')
            out.count('flat_collision_rejected')
            out.key = 'gen:flat-collision-rejected'
            return
        out.violation('valid-project-rejected', {'error': err, 'tail': r.out[-600:], 'n_targets': len(desc['targets']) if desc else None})
        return

    # ---- configured --------------------------------------------------------------------------
    out.count('configured')
    if r.traceback:
        out.violation('traceback-during-successful-setup', {'tail': r.err[-800:]})
    if rec is None:
        out.count('inconclusive:no-monitor-record')
    orph = orphan_paths(rec)
    if rec is not None:
        out.count('monitor:orphaned-subprojects-classifier')
        out.count('orphaned_subprojects_seen', len(rec.get('orphaned_subprojects') or []))
    m = check_manifest(out, bdir, rec, cfg, orph)
    if rec is not None:
        check_invariants(out, rec)
    if collision is not None:
        out.count('collision_accepted')
        out.key = f"collision:{collision['kind']}:accepted"
        if collision['certain'] and all(cfg.get(k) == v for k, v in collision.get('certain_when', {}).items()):
            out.violation('colliding-targets-accepted:' + collision['kind'],
                          {'why': collision['why'], 'cfg': cfg})
        else:
            out.count('collision_accepted_config_dependent')
    if m is None:
        return
    if rec is not None:
        check_stream(out, m, rec)
    if desc is not None and desc.get('failed_subprojects'):
        check_failed_subprojects(out, m, desc['failed_subprojects'], rec)
    if desc is not None and desc.get('targets'):
        targets, tests = desc_expectations(desc, cfg)
        check_expectations(out, m, targets, tests, 'generator-description', orph)
        out.count('described_targets', len(targets))
        out.count('described_tests', len(tests))
    if rec is not None:
        # meson's own target/test table (interpreter data): the only expectation for the corpus, a second
        # opinion for generated projects
        targets, tests = table_expectations(rec)
        check_expectations(out, m, targets, tests, 'meson-target-table', orph)
        out.count('table_targets', len(targets))
        out.count('table_tests', len(tests))
    if typ == 'gen':
        shape = sorted(f for f in out.features if not f.startswith('name:'))
        out.key = common.digest(['gen', cfg, shape, len(desc['targets']), case.get('rsp') is not None])
        out.sample = {'gen_seed': case['seed'], 'cfg': cfg, 'targets': len(desc['targets']),
                      'tests': len(desc['tests']), 'edges': len(m.edges), 'features': out.features[:12]}
        out.count('cell:%s/%s/%s' % (cfg['layout'], cfg['unity'], cfg['default_library']))
    elif typ == 'corpus':
        out.key = common.digest(['corpus', case['rel'], cfg])
        out.count('corpus_configured')
    elif typ == 'probe':
        out.key = f"probe:{case['name']}:accepted"
        out.count('probe_accepted')
        post = desc.get('post') if desc else None
        if post:
            post(out, m, bdir, rec)


# ------------------------------------------------------------------------------------------------ probes
_HEAD = "project('c04 probe', 'c', meson_version: '>=1.0.0')\n"
_MAIN = 'int main(void) { return 0; }\n'


def probe_pipe() -> T.Tuple[dict, dict]:
    files = {'meson.build': _HEAD + "executable('a|b', 'm.c')\n"
             "custom_target('x', output: 'o|ut.txt', command: ['true'], build_by_default: true)\n", 'm.c': _MAIN}
    return files, {'targets': [], 'tests': [], 'features': ['probe:pipe-in-name'], 'may_reject': True}


def probe_rsp() -> T.Tuple[dict, dict]:
    # with rsp threshold 0 every rspable statement uses <rule>_RSP; with a middling one both forms coexist
    files = {'meson.build': _HEAD + "l = static_library('l', 'a.c', 'b.c')\n"
             "s = shared_library('s', 'a.c', link_whole: l)\n"
             "executable('e', 'm.c', link_with: s, c_args: ['-DLONG_" + 'X' * 300 + "=1'])\n"
             "executable('e2', 'm.c')\n", 'm.c': _MAIN,
             'a.c': 'int a(void) { return 0; }\n', 'b.c': 'int b(void) { return 0; }\n'}

    def post(out: Out, m: mn.Manifest, bdir: str, rec: T.Optional[dict]) -> None:
        n = sum(1 for e in m.edges if e.rule.name.endswith('_RSP'))
        out.count('probe_rsp_edges', n)
    return files, {'targets': [], 'tests': [], 'features': ['probe:rsp'], 'post': post}


def probe_shlib_alias() -> T.Tuple[dict, dict]:
    files = {'meson.build': _HEAD + "shared_library('v', 'm.c', version: '1.2.3')\n"
             "custom_target('x', output: 'libv.so', command: ['touch', '@OUTPUT@'], build_by_default: true)\n",
             'm.c': 'int v(void) { return 0; }\n'}

    def post(out: Out, m: mn.Manifest, bdir: str, rec: T.Optional[dict]) -> None:
        # informational: the version alias symlink libv.so (created at configure time by the shared library
        # target) is the same path as the custom target's output; the manifest itself has one producer.
        if os.path.islink(os.path.join(bdir, 'libv.so')) and 'libv.so' in m.producer:
            out.notes.append(('shlib_alias_overlaps_custom_target_output_accepted',
                              {'path': 'libv.so', 'producer': repr(m.producer['libv.so'])}))
            out.count('note:shlib-alias-overlap-accepted')
    return files, {'targets': [], 'tests': [], 'features': ['probe:shlib-alias'], 'may_reject': True, 'post': post}


def probe_private_dir() -> T.Tuple[dict, dict]:
    files = {'meson.build': "project('c04 probe', 'c', meson_version: '>=1.10.0')\nexecutable('exe', 'm.c')\n"
             "custom_target('x', output: 'm.c.o', build_subdir: 'exe.p', command: ['touch', '@OUTPUT@'])\n",
             'm.c': _MAIN}
    return files, {'targets': [], 'tests': [], 'features': ['probe:object-path-collision'],
                   'collision': {'kind': 'custom-output-in-private-dir', 'certain': True,
                                 'certain_when': {'unity': 'off'},
                                 'why': 'custom target output exe.p/m.c.o equals the object file of exe'}}


def probe_newline() -> T.Tuple[dict, dict]:
    files = {'meson.build': _HEAD + "custom_target('nl', output: 'a\\nb', command: ['true'])\n"}
    return files, {'targets': [], 'tests': [], 'features': ['probe:newline-in-output'], 'may_reject': True}


def probe_test_depends() -> T.Tuple[dict, dict]:
    """The smallest project for the reachability clauses (also re-observed every run)."""
    files = {'meson.build': _HEAD + "py = find_program('python3')\n"
             "nd = executable('nd exe', 'm.c', build_by_default: false)\n"
             "ct = custom_target('nd ct', output: ['o1.txt', 'o:2.txt'], command: [py, '-c', 'pass'])\n"
             "lib = library('nd lib', 'l.c', build_by_default: false)\n"
             "bl = both_libraries('dflt', 'l.c')\n"
             "ct2 = custom_target('dflt ct', output: 'd.txt', command: [py, '-c', 'pass'], build_by_default: true)\n"
             "ct3 = custom_target('bench only', output: ['b 1.dat', 'b$2.dat'], command: [py, '-c', 'pass'])\n"
             "nd2 = executable('bench exe', 'm.c', build_by_default: false)\n"
             "hdr = custom_target('h$ dr', output: ['h$ x.h', 'h:y.h'], command: [py, '-c', 'pass'])\n"
             "user = executable('us$er', 'm.c', hdr, link_with: lib)\n"
             "test('t1', nd, depends: [ct, lib])\n"
             "benchmark('b1', nd2, args: [ct3[1]])\n", 'm.c': _MAIN, 'l.c': 'int l(void) { return 0; }\n'}
    t = [{'id': 'p0', 'kind': 'exe', 'name': 'nd exe', 'dir': '', 'sp': '', 'default': False},
         {'id': 'p1', 'kind': 'custom', 'name': 'nd ct', 'dir': '', 'sp': '', 'default': False, 'outputs': ['o1.txt', 'o:2.txt']},
         {'id': 'p2', 'kind': 'library', 'name': 'nd lib', 'dir': '', 'sp': '', 'default': False},
         {'id': 'p3', 'kind': 'both', 'name': 'dflt', 'dir': '', 'sp': '', 'default': True},
         {'id': 'p4', 'kind': 'custom', 'name': 'dflt ct', 'dir': '', 'sp': '', 'default': True, 'outputs': ['d.txt']},
         {'id': 'p5', 'kind': 'custom', 'name': 'bench only', 'dir': '', 'sp': '', 'default': False,
          'outputs': ['b 1.dat', 'b$2.dat']},
         {'id': 'p6', 'kind': 'exe', 'name': 'bench exe', 'dir': '', 'sp': '', 'default': False},
         {'id': 'p7', 'kind': 'custom', 'name': 'h$ dr', 'dir': '', 'sp': '', 'default': False,
          'outputs': ['h$ x.h', 'h:y.h']},
         {'id': 'p8', 'kind': 'exe', 'name': 'us$er', 'dir': '', 'sp': '', 'default': True}]
    tests = [{'name': 't1', 'benchmark': False, 'prereq': ['p0', 'p1', 'p2'], 'sp': ''},
             {'name': 'b1', 'benchmark': True, 'prereq': ['p6', 'p5'], 'sp': ''}]
    return files, {'targets': t, 'tests': tests, 'features': ['probe:test-depends']}


def probe_flat_generator() -> T.Tuple[dict, dict]:
    """generator.process() on built targets and a custom-target index as a command argument (known finding
    under --layout flat; this probe is always configured flat)."""
    files = {'meson.build': _HEAD + "py = find_program('python3')\n"
             "ct = custom_target('res', output: 'res3.txt', command: [py, '-c', 'pass'])\n"
             "helper = executable('helper', 'm.c')\n"
             "g = generator(py, output: '@BASENAME@.h', arguments: ['-c', 'pass', '@INPUT@', '@OUTPUT@'])\n"
             "executable('user', 'm.c', g.process('plain.txt', ct, helper))\n"
             "custom_target('ci', output: 'ci.dat', command: [py, '-c', 'pass', ct[0]])\n",
             'm.c': _MAIN, 'plain.txt': 'x\n'}
    return files, {'targets': [], 'tests': [], 'features': ['probe:flat-generator-on-built-target']}


def probe_unity_asm() -> T.Tuple[dict, dict]:
    """library() of an assembly source, --unity=on -Ddefault_library=both (known finding; always that cell)."""
    files = {'meson.build': _HEAD + "l = library('sq', 'sq.S')\nexecutable('u', 'm.c', link_with: l)\n",
             'm.c': _MAIN, 'sq.S': gen_c04.asm_source('sq_fn')}
    return files, {'targets': [], 'tests': [], 'features': ['probe:unity-asm-both']}


def probe_same_name_prereqs() -> T.Tuple[dict, dict]:
    """Distinct targets that share a NAME (same name in two subdirs; executable + custom target + library of one
    name), every one of them non-default, used by exactly one test and one benchmark (as exe, in args:, in
    depends:) and not a dependency of any other prerequisite.  Always configured with --layout mirror."""
    files = {
        'meson.build': _HEAD + "py = find_program('python3')\n"
        "subdir('alpha')\nsubdir('beta')\n"
        "fx_exe = executable('fixture', 'm.c', build_by_default: false)\n"
        "fx_ct = custom_target('fixture', output: 'fixture.dat', command: [py, '-c', 'pass'])\n"
        "fx_lib = shared_library('fixture', 'l.c', build_by_default: false)\n"
        "dat_a = custom_target('data', output: 'data_a.txt', command: [py, '-c', 'pass'])\n"
        "test('t check alpha', chk_a)\n"
        "test('t check beta', chk_b)\n"
        "test('t fixture exe', fx_exe)\n"
        "test('t fixture arg', py, args: ['-c', 'pass', fx_ct])\n"
        "test('t fixture dep', py, args: ['-c', 'pass'], depends: [fx_lib])\n"
        "test('t data', py, args: ['-c', 'pass', dat_a], depends: [dat_b])\n"
        "benchmark('b check beta', chk_b)\n"
        "benchmark('b check alpha', chk_a)\n"
        "benchmark('b fixture', py, args: ['-c', 'pass', fx_ct[0]], depends: [fx_lib, fx_exe])\n"
        "benchmark('b data', py, args: ['-c', 'pass'], depends: [dat_b, dat_a])\n",
        'alpha/meson.build': "chk_a = executable('check', 'm.c', build_by_default: false)\n",
        'beta/meson.build': "chk_b = executable('check', 'm.c', build_by_default: false)\n"
                            "dat_b = custom_target('data', output: 'data_b.txt', command: [py, '-c', 'pass'])\n",
        'm.c': _MAIN, 'alpha/m.c': _MAIN, 'beta/m.c': _MAIN, 'l.c': 'int l(void) { return 0; }\n'}

    def T_(i: str, kind: str, name: str, d: str, **kw: T.Any) -> dict:
        t = {'id': i, 'kind': kind, 'name': name, 'dir': d, 'sp': '', 'default': False}
        t.update(kw)
        return t
    t = [T_('s0', 'exe', 'check', 'alpha'), T_('s1', 'exe', 'check', 'beta'), T_('s2', 'exe', 'fixture', ''),
         T_('s3', 'custom', 'fixture', '', outputs=['fixture.dat']), T_('s4', 'shared', 'fixture', ''),
         T_('s5', 'custom', 'data', '', outputs=['data_a.txt']), T_('s6', 'custom', 'data', 'beta', outputs=['data_b.txt'])]
    tests = [{'name': 't check alpha', 'benchmark': False, 'prereq': ['s0'], 'sp': ''},
             {'name': 't check beta', 'benchmark': False, 'prereq': ['s1'], 'sp': ''},
             {'name': 't fixture exe', 'benchmark': False, 'prereq': ['s2'], 'sp': ''},
             {'name': 't fixture arg', 'benchmark': False, 'prereq': ['s3'], 'sp': ''},
             {'name': 't fixture dep', 'benchmark': False, 'prereq': ['s4'], 'sp': ''},
             {'name': 't data', 'benchmark': False, 'prereq': ['s5', 's6'], 'sp': ''},
             {'name': 'b check beta', 'benchmark': True, 'prereq': ['s1'], 'sp': ''},
             {'name': 'b check alpha', 'benchmark': True, 'prereq': ['s0'], 'sp': ''},
             {'name': 'b fixture', 'benchmark': True, 'prereq': ['s3', 's4', 's2'], 'sp': ''},
             {'name': 'b data', 'benchmark': True, 'prereq': ['s6', 's5'], 'sp': ''}]
    return files, {'targets': t, 'tests': tests, 'features': ['probe:same-name-prereqs']}


def probe_unity_counts() -> T.Tuple[dict, dict]:
    """Objects taken over from unity-built targets (static half of library() under default_library=both,
    extract_all_objects) for source counts around multiples of unity_size (4): 3, 4, 5, 8 and 1 sources.
    Always configured with --unity=on -Ddefault_library=both."""
    files: T.Dict[str, str] = {'m.c': _MAIN}
    lines = [_HEAD.rstrip('\n')]
    for n in (1, 3, 4, 5, 8):
        srcs = []
        for k in range(n):
            fn = f'u{n}_{k}.c'
            files[fn] = f'int u{n}_{k}(void) {{ return {k}; }}\n'
            srcs.append(f"'{fn}'")
        lines.append(f"l{n} = library('lib{n}', {', '.join(srcs)})")
        lines.append(f"s{n} = static_library('st{n}', {', '.join(srcs)}, build_by_default: false)")
        lines.append(f"executable('x{n}', 'm.c', objects: s{n}.extract_all_objects(recursive: false), link_with: l{n})")
    files['meson.build'] = '\n'.join(lines) + '\n'
    return files, {'targets': [], 'tests': [], 'features': ['probe:unity-extracted-object-counts']}


def probe_optional_subprojects() -> T.Tuple[dict, dict]:
    """Optional subprojects disabled at every failure point x both ways of requesting them, next to an optional
    subproject that succeeds (control: its test must be a prerequisite).  The parent must configure."""
    files: T.Dict[str, str] = {'m.c': _MAIN}
    lines = [_HEAD.rstrip('\n'), "py = find_program('python3')"]
    failed = []
    k = 0
    for via in gen_c04.FAIL_VIAS:
        for stage in gen_c04.FAIL_STAGES:
            name, marker = f'opt{k}', f'FAILSP{k}'
            if stage == 'version-mismatch' and via != 'subproject':
                continue
            k += 1
            f, line = gen_c04.failing_subproject(name, marker, stage, via)
            files.update(f)
            lines.append(line)
            failed.append({'name': name, 'marker': marker, 'stage': stage, 'via': via})
    files['subprojects/optok/meson.build'] = ("project('optok', 'c', version: '1.0')\n"
                                              "okh = executable('okhelper', 'm.c', build_by_default: false)\n"
                                              "okl = library('oklib', 'l.c')\n"
                                              "test('ok test', okh, depends: okl)\nbenchmark('ok bench', okh)\n")
    files['subprojects/optok/m.c'] = _MAIN
    files['subprojects/optok/l.c'] = 'int okl(void) { return 0; }\n'
    lines += ["ok = subproject('optok', required: false)", "assert(ok.found())",
              "main_exe = executable('main exe', 'm.c')", "test('main test', main_exe)"]
    files['meson.build'] = '\n'.join(lines) + '\n'
    t = [{'id': 'o0', 'kind': 'exe', 'name': 'okhelper', 'dir': '', 'sp': 'optok', 'default': False},
         {'id': 'o1', 'kind': 'library', 'name': 'oklib', 'dir': '', 'sp': 'optok', 'default': True},
         {'id': 'o2', 'kind': 'exe', 'name': 'main exe', 'dir': '', 'sp': '', 'default': True}]
    tests = [{'name': 'ok test', 'benchmark': False, 'prereq': ['o0', 'o1'], 'sp': 'optok'},
             {'name': 'ok bench', 'benchmark': True, 'prereq': ['o0'], 'sp': 'optok'},
             {'name': 'main test', 'benchmark': False, 'prereq': ['o2'], 'sp': ''}]
    return files, {'targets': t, 'tests': tests, 'features': ['probe:optional-subproject-failures'],
                   'failed_subprojects': failed}


def probe_mixed_languages() -> T.Tuple[dict, dict]:
    """Targets that get a language's compiler only through what they link to (process_compilers_late): C and C++
    libraries between Fortran libraries and Fortran / C / C++ programs, through link_with, link_whole, static,
    shared and both_libraries, with Fortran modules used across targets (module scanning / dyndep statements).
    Skipped (counted) when the sandbox has no Fortran or C++ compiler."""
    langs = gen_c04.available_languages()
    if 'fortran' not in langs or 'cpp' not in langs:
        return {'meson.build': _HEAD}, {'targets': [], 'tests': [], 'features': ['probe:mixed-languages-unavailable']}
    fmod = ("module {m}\n{u}  implicit none\ncontains\n  integer function {m}_f()\n    {m}_f = 1\n"
            "  end function {m}_f\nend module {m}\n")
    files = {
        'fbase.f90': fmod.format(m='fbase', u=''),
        'fbase2.f90': fmod.format(m='fbase2', u='  use fbase\n'),
        'ftop.f90': fmod.format(m='ftop', u='  use fbase\n'),
        'mid.c': 'int mid(void) { return 0; }\n', 'mid2.c': 'int mid2(void) { return 0; }\n',
        'midpp.cpp': 'extern "C" int midpp(void) { return 0; }\n',
        'main.f90': 'program main\n  use fbase\n  implicit none\n  print *, fbase_f()\nend program main\n',
        'main2.f90': 'program main2\n  use ftop\n  implicit none\n  print *, ftop_f()\nend program main2\n',
        'm.c': _MAIN, 'mpp.cpp': 'int main() { return 0; }\n',
        'meson.build': "project('c04 probe', 'c', 'cpp', 'fortran', meson_version: '>=1.0.0')\n"
        "fbase = static_library('fbase', 'fbase.f90', 'fbase2.f90')\n"
        "fshared = shared_library('fshared', 'fbase.f90')\n"
        "mid = static_library('mid', 'mid.c', link_with: fbase)\n"
        "mid_sh = shared_library('mid sh', 'mid.c', link_with: fshared, build_by_default: false)\n"
        "mid_whole = static_library('midwhole', 'mid2.c', link_whole: fbase)\n"
        "mid_both = both_libraries('midboth', 'mid.c', link_with: fbase)\n"
        "midpp = library('midpp', 'midpp.cpp', link_with: mid)\n"
        "ftop = library('ftop', 'ftop.f90', link_with: [mid, fbase])\n"
        "executable('fmain', 'main.f90', link_with: mid)\n"
        "executable('fmain pp', 'main.f90', link_with: [midpp, mid_both])\n"
        "executable('fmain2', 'main2.f90', link_with: [ftop, mid_whole, mid_sh])\n"
        "executable('cmain', 'm.c', link_with: [mid, midpp])\n"
        "e = executable('cppmain', 'mpp.cpp', link_with: [ftop, mid_sh], build_by_default: false)\n"
        "test('mixed', e)\n"}
    return files, {'targets': [], 'tests': [], 'features': ['probe:mixed-languages']}


def probe_local_programs() -> T.Tuple[dict, dict]:
    """Built executables reached through find_program() after meson.override_find_program() (by a subproject and by
    the project itself), none built by default, used by tests and benchmarks in depends:, as the executable and as
    an argument."""
    files = {
        'meson.build': "project('c04 probe', 'c', meson_version: '>=1.12.0')\n"
        "subproject('tool')\n"
        "own = executable('own tool', 'm.c', build_by_default: false)\n"
        "meson.override_find_program('own-tool', own)\n"
        "checker = executable('checker', 'm.c')\n"
        "extra = custom_target('extra', output: 'extra.dat', command: [find_program('python3'), '-c', 'pass'])\n"
        "test('dep sub', checker, depends: [extra, find_program('helper-dep')])\n"
        "benchmark('dep sub bench', checker, depends: [find_program('helper-bdep')])\n"
        "test('dep own', checker, depends: find_program('own-tool'))\n"
        "test('exe sub', find_program('helper-exe'))\n"
        "test('arg sub', checker, args: ['--tool', find_program('helper-arg')])\n",
        'm.c': _MAIN,
        'subprojects/tool/meson.build': "project('tool', 'c')\n" + ''.join(
            f"h_{k} = executable('helper {k}', 'm.c', build_by_default: false)\n"
            f"meson.override_find_program('helper-{k}', h_{k})\n" for k in ('dep', 'bdep', 'exe', 'arg')),
        'subprojects/tool/m.c': _MAIN}
    t = [{'id': 'l' + k, 'kind': 'exe', 'name': 'helper ' + k, 'dir': '', 'sp': 'tool', 'default': False}
         for k in ('dep', 'bdep', 'exe', 'arg')]
    t += [{'id': 'lown', 'kind': 'exe', 'name': 'own tool', 'dir': '', 'sp': '', 'default': False},
          {'id': 'lchk', 'kind': 'exe', 'name': 'checker', 'dir': '', 'sp': '', 'default': True},
          {'id': 'lext', 'kind': 'custom', 'name': 'extra', 'dir': '', 'sp': '', 'default': False, 'outputs': ['extra.dat']}]
    tests = [{'name': 'dep sub', 'benchmark': False, 'prereq': ['lchk', 'lext', 'ldep'], 'via': {'ldep': 'local-program-dep'}},
             {'name': 'dep sub bench', 'benchmark': True, 'prereq': ['lchk', 'lbdep'], 'via': {'lbdep': 'local-program-dep'}},
             {'name': 'dep own', 'benchmark': False, 'prereq': ['lchk', 'lown'], 'via': {'lown': 'local-program-dep'}},
             {'name': 'exe sub', 'benchmark': False, 'prereq': ['lexe'], 'via': {'lexe': 'local-program-exe'}},
             {'name': 'arg sub', 'benchmark': False, 'prereq': ['lchk', 'larg'], 'via': {'larg': 'local-program-arg'}}]
    return files, {'targets': t, 'tests': tests, 'features': ['probe:local-programs']}


def probe_preserve_path() -> T.Tuple[dict, dict]:
    """generator.process(..., preserve_path_from:) with inputs directly in that directory and one and two levels
    below it; a two-output generator (source + header) so that the outputs are both compiled and order-only
    inputs of the target's other objects."""
    files = {
        'meson.build': _HEAD + "py = find_program('python3')\n"
        "g = generator(py, output: ['@BASENAME@.c', '@BASENAME@.h'], arguments: ['-c', 'pass', '@INPUT@', '@OUTPUT0@', '@OUTPUT1@'])\n"
        "gl = g.process('data/top.in', 'data/one/mid.in', 'data/one/two/deep.in', preserve_path_from: meson.current_source_dir() / 'data')\n"
        "executable('app', 'm.c', gl)\n"
        "subdir('sub')\n",
        'sub/meson.build': "gs = g.process('in/a/x.in', 'in/y.in', preserve_path_from: meson.current_source_dir())\n"
                           "library('uses gen', 'l.c', gs)\n",
        'm.c': _MAIN, 'sub/l.c': 'int l(void) { return 0; }\n',
        'data/top.in': 'x\n', 'data/one/mid.in': 'x\n', 'data/one/two/deep.in': 'x\n',
        'sub/in/a/x.in': 'x\n', 'sub/in/y.in': 'x\n'}
    return files, {'targets': [], 'tests': [], 'features': ['probe:generator-preserve-path']}


def probe_default_matrix() -> T.Tuple[dict, dict]:
    """Every documented way a target becomes (or stops being) built by default, in the root, in a sub directory
    and in a subproject: custom_target build_by_default x install x build_always_stale (+ deprecated
    build_always), build targets of every kind with build_by_default x install.  Every target is a leaf, so only
    its own flag brings it into `all`; the expected flag is gen_c04.documented_default (the reference manual),
    None where the manual does not decide (then only 'has a producer' is demanded)."""
    cells = [(f, k, b, i) for f, k in gen_c04.BUILD_TARGET_FUNCS for b in gen_c04.TRI for i in gen_c04.TRI]
    bi = [(b, i) for b in gen_c04.TRI for i in gen_c04.TRI]
    nf = len(gen_c04.BUILD_TARGET_FUNCS)
    # sub directory / subproject: every (build_by_default, install) cell once, the target function rotating
    rot_a = [gen_c04.BUILD_TARGET_FUNCS[n % nf] + c for n, c in enumerate(bi)]
    rot_b = [gen_c04.BUILD_TARGET_FUNCS[(n + 3) % nf] + c for n, c in enumerate(bi)]
    files: T.Dict[str, str] = {}
    targets: T.List[dict] = []
    lr, tr = gen_c04.default_matrix('dr', '', '', cells)
    ld, td = gen_c04.default_matrix('dd', '', 'dm dir', rot_a)
    ls, ts = gen_c04.default_matrix('ds', 'dmsp', '', rot_b)
    lsd, tsd = gen_c04.default_matrix('dt', 'dmsp', 'in', rot_a)
    targets = tr + td + ts + tsd
    for d in ('', 'dm dir/', 'subprojects/dmsp/', 'subprojects/dmsp/in/'):
        files[d + 'm.c'] = _MAIN
        files[d + 'l.c'] = 'int l(void) { return 0; }\n'
    # not decided by the documents (exercised; only 'has a producer' is demanded): vcs_tag(), fs.copyfile(), a
    # target handed to meson.add_install_script()
    files['tag.in'] = 'tag @VCS_TAG@\n'
    extra = ["vcs_tag(input: 'tag.in', output: 'drtag.txt', fallback: 'none')",
             "import('fs').copyfile('tag.in', 'drcopy.txt')",
             "dr_scr = custom_target('drscr', output: 'drscr.out', command: [py, '-c', 'pass'])",
             "meson.add_install_script(py, '-c', 'pass', dr_scr)"]
    for name, outs in (('drtag.txt', ['drtag.txt']), ('drcopy.txt', ['drcopy.txt']), ('drscr', ['drscr.out'])):
        targets.append({'id': 'dx' + name, 'kind': 'custom', 'name': name, 'dir': '', 'sp': '', 'default': None,
                        'cell': 'undocumented/' + name, 'outputs': outs})
    files['meson.build'] = '\n'.join([_HEAD.rstrip('\n'), "py = find_program('python3')"] + lr + extra +
                                     ["subdir('dm dir')", "subproject('dmsp')"]) + '\n'
    files['dm dir/meson.build'] = '\n'.join(ld) + '\n'
    files['subprojects/dmsp/meson.build'] = '\n'.join(
        ["project('dmsp', 'c', meson_version: '>=1.0.0')", "py = find_program('python3')"] + ls + ["subdir('in')"]) + '\n'
    files['subprojects/dmsp/in/meson.build'] = '\n'.join(lsd) + '\n'

    def post(out: Out, m: mn.Manifest, bdir: str, rec: T.Optional[dict]) -> None:
        seen = set()
        for t in targets:
            seen.add((t['cell'], t['default']))
        out.count('default_matrix_cells', len(seen))
        out.count('default_matrix_targets:documented-default', sum(1 for t in targets if t['default'] is True))
        out.count('default_matrix_targets:documented-non-default', sum(1 for t in targets if t['default'] is False))
        out.count('default_matrix_targets:undocumented', sum(1 for t in targets if t['default'] is None))
    return files, {'targets': targets, 'tests': [], 'features': ['probe:default-matrix'], 'post': post}


_NB_LIB = 'int {n}_fn(void) {{ return 0; }}\n'


def nested_subproject(name: str) -> T.Tuple[T.Dict[str, str], T.List[dict], T.List[dict]]:
    """A subproject that configures fine: an executable, a library and a two-output custom target built by
    default, a non-default static library, a dependency object, a test and a benchmark.  Returns (files, target
    descriptions, test descriptions)."""
    n = name
    files = {f'subprojects/{n}/meson.build':
             f"project('{n}', 'c', version: '1.0')\npy = find_program('python3')\n"
             f"{n}_exe = executable('{n}_exe', 'm.c')\n"
             f"{n}_lib = library('{n}_lib', 'l.c')\n"
             f"{n}_st = static_library('{n}_st', 'l.c', build_by_default: false)\n"
             f"{n}_ct = custom_target('{n}_ct', output: ['{n}_o1.txt', '{n} o$2.dat'], command: [py, '-c', 'pass'], build_by_default: true)\n"
             f"{n}_dep = declare_dependency(link_with: {n}_lib)\n"
             f"meson.override_dependency('{n}-dep', {n}_dep)\n"
             f"test('{n}_test', {n}_exe, args: [{n}_ct], depends: [{n}_st])\n"
             f"benchmark('{n}_bench', {n}_exe)\n",
             f'subprojects/{n}/m.c': _MAIN, f'subprojects/{n}/l.c': _NB_LIB.format(n=n)}

    def T_(kind: str, suffix: str, default: bool, **kw: T.Any) -> dict:
        t = {'id': f'{n}:{suffix}', 'kind': kind, 'name': f'{n}_{suffix}', 'dir': '', 'sp': n, 'default': default}
        t.update(kw)
        return t
    targets = [T_('exe', 'exe', True), T_('library', 'lib', True), T_('static', 'st', False),
               T_('custom', 'ct', True, outputs=[f'{n}_o1.txt', f'{n} o$2.dat'])]
    tests = [{'name': f'{n}_test', 'benchmark': False, 'prereq': [f'{n}:exe', f'{n}:ct', f'{n}:st'], 'sp': n},
             {'name': f'{n}_bench', 'benchmark': True, 'prereq': [f'{n}:exe'], 'sp': n}]
    return files, targets, tests


def probe_nested_reuse() -> T.Tuple[dict, dict]:
    """A subproject that is first configured from within an OPTIONAL subproject which then fails, and is used by the
    parent afterwards: reached again through subproject().get_variable() or through dependency(fallback:), its
    targets used as test executable / argument / depends:, benchmark, custom_target input / command / depends:,
    alias and run targets, link_with.  Triggers: subproject() and dependency(fallback:) inside the failing one, one
    more (succeeding) level in between, failure by error() and by a missing dependency.  Controls: the same
    subproject shape configured by the parent BEFORE an optional subproject uses it and fails, and nested in an
    intermediate subproject that succeeds - both must be complete in the manifest."""
    files: T.Dict[str, str] = {'m.c': _MAIN}
    targets: T.List[dict] = []
    tests: T.List[dict] = []
    failed: T.List[dict] = []
    L = [_HEAD.rstrip('\n'), "py = find_program('python3')"]

    def nb(name: str) -> None:
        f, t, ts = nested_subproject(name)
        files.update(f)
        targets.extend(t)
        tests.extend(ts)

    def failing(k: str, body: T.Sequence[str], how: str) -> str:
        """Optional subproject nf<k> (marker NFAIL<k>): declares a target, runs `body`, then fails."""
        name, M = f'nf{k}', f'NFAIL{k}'
        end = "error('%s fails')" % M if how == 'error' else f"dependency('c04-no-such-dependency-{name}')"
        files[f'subprojects/{name}/meson.build'] = '\n'.join(
            [f"project('{name}', 'c', version: '1.0')", f"{M}_exe = executable('{M}_exe', 'm.c')"] + list(body) +
            [f"{name}_dep = declare_dependency()", end]) + '\n'
        files[f'subprojects/{name}/m.c'] = _MAIN
        failed.append({'name': name, 'marker': M, 'stage': 'after-nested-subproject:' + how, 'via': 'nested-reuse'})
        return name

    def use(var: str, kind: str, name: str, default: bool, line: str, **kw: T.Any) -> None:
        L.append(line)
        t = {'id': 'u:' + name, 'kind': kind, 'name': name, 'dir': '', 'sp': '', 'default': default}
        t.update(kw)
        targets.append(t)

    # ---- controls
    nb('nbctl0')
    failing('ctl0', ["s = subproject('nbctl0')", "x = s.get_variable('nbctl0_exe')"], 'error')
    L += ["ctl0 = subproject('nbctl0')", "fctl0 = subproject('nfctl0', required: false)",
          "assert(not fctl0.found())", "test('ctl0 user', ctl0.get_variable('nbctl0_exe'))"]
    tests.append({'name': 'ctl0 user', 'benchmark': False, 'prereq': ['nbctl0:exe'], 'sp': ''})
    nb('nbctl1')
    files['subprojects/nokmid/meson.build'] = "project('nokmid', 'c')\ns = subproject('nbctl1')\n"
    L += ["subproject('nokmid')", "ctl1 = subproject('nbctl1')",
          "test('ctl1 user', ctl1.get_variable('nbctl1_exe'), depends: ctl1.get_variable('nbctl1_st'))"]
    tests.append({'name': 'ctl1 user', 'benchmark': False, 'prereq': ['nbctl1:exe', 'nbctl1:st'], 'sp': ''})

    # ---- P0: subproject() inside, error(); parent: subproject().get_variable -> tests and benchmark
    nb('nb0')
    failing('0', ["s = subproject('nb0')"], 'error')
    L += ["f0 = subproject('nf0', required: false)", "assert(not f0.found())", "b0 = subproject('nb0')",
          "test('p0 exe', b0.get_variable('nb0_exe'))",
          "test('p0 arg dep', py, args: ['-c', 'pass', b0.get_variable('nb0_ct')], depends: [b0.get_variable('nb0_st')])",
          "benchmark('p0 bench', b0.get_variable('nb0_exe'), depends: b0.get_variable('nb0_lib'))"]
    tests += [{'name': 'p0 exe', 'benchmark': False, 'prereq': ['nb0:exe'], 'sp': ''},
              {'name': 'p0 arg dep', 'benchmark': False, 'prereq': ['nb0:ct', 'nb0:st'], 'sp': ''},
              {'name': 'p0 bench', 'benchmark': True, 'prereq': ['nb0:exe', 'nb0:lib'], 'sp': ''}]
    # ---- P1: dependency(fallback:) inside and outside; custom_target input / command / depends, link through dep
    nb('nb1')
    failing('1', ["d = dependency('c04-absent-nb1', fallback: ['nb1', 'nb1_dep'])"], 'error')
    L += ["f1 = dependency('c04-absent-nf1', fallback: ['nf1', 'nf1_dep'], required: false)",
          "assert(not f1.found())",
          "d1 = dependency('c04-absent-nb1', fallback: ['nb1', 'nb1_dep'])", "b1 = subproject('nb1')"]
    use('', 'exe', 'p1_linked', True, "executable('p1_linked', 'm.c', dependencies: d1)")
    use('', 'custom', 'p1_in', True, "custom_target('p1_in', input: b1.get_variable('nb1_st'), output: 'p1_in.txt', "
        "command: [py, '-c', 'pass', '@INPUT@'], build_by_default: true)", outputs=['p1_in.txt'])
    use('', 'custom', 'p1_cmd', True, "custom_target('p1_cmd', output: 'p1_cmd.txt', "
        "command: [b1.get_variable('nb1_exe'), '@OUTPUT@'], build_by_default: true)", outputs=['p1_cmd.txt'])
    use('', 'custom', 'p1_dep', False, "custom_target('p1_dep', output: 'p1_dep.txt', command: [py, '-c', 'pass'], "
        "depends: b1.get_variable('nb1_ct'))", outputs=['p1_dep.txt'])
    # ---- P2: one more (succeeding) level in between; parent: optional request, alias / run targets, link_with
    nb('nb2')
    files['subprojects/nmid2/meson.build'] = ("project('nmid2', 'c')\ns = subproject('nb2')\n"
                                              "nmid2_exe = executable('nmid2_exe', 'm.c')\n")
    files['subprojects/nmid2/m.c'] = _MAIN
    targets.append({'id': 'nmid2:exe', 'kind': 'exe', 'name': 'nmid2_exe', 'dir': '', 'sp': 'nmid2', 'default': True})
    failing('2', ["s = subproject('nmid2')"], 'error')
    L += ["f2 = subproject('nf2', required: false)", "assert(not f2.found())",
          "b2 = subproject('nb2', required: false)", "assert(b2.found())",
          "alias_target('p2_alias', b2.get_variable('nb2_exe'))",
          "run_target('p2_run', command: [py, '-c', 'pass'], depends: b2.get_variable('nb2_ct'))"]
    use('', 'exe', 'p2_nd', False, "executable('p2_nd', 'm.c', link_with: b2.get_variable('nb2_lib'), build_by_default: false)")
    # ---- P3: the optional subproject fails on a missing dependency, requested through dependency(fallback:)
    nb('nb3')
    failing('3', ["s = subproject('nb3')"], 'missing-dependency')
    L += ["f3 = dependency('c04-absent-nf3', fallback: ['nf3', 'nf3_dep'], required: false)", "assert(not f3.found())",
          "b3 = subproject('nb3')", "test('p3 exe', b3.get_variable('nb3_exe'))"]
    tests.append({'name': 'p3 exe', 'benchmark': False, 'prereq': ['nb3:exe'], 'sp': ''})
    files['meson.build'] = '\n'.join(L) + '\n'

    def post(out: Out, m: mn.Manifest, bdir: str, rec: T.Optional[dict]) -> None:
        out.count('nested_reuse_pairs', 4)
        out.count('nested_reuse_controls', 2)
        if rec is not None:
            names = sorted(o['name'] for o in rec.get('orphaned_subprojects') or [])
            out.notes.append(('nested_reuse_orphans_registered', names))
            ctl = [n for n in names if n in ('nbctl0', 'nbctl1', 'nokmid')]
            if ctl:      # a control classified as orphaned would hide its dangling paths behind the known finding
                out.violation('nested-reuse-control-classified-as-orphaned', {'orphans': names})
    return files, {'targets': targets, 'tests': tests, 'features': ['probe:nested-subproject-reuse'],
                   'failed_subprojects': failed, 'post': post}


_EXTRACT_HEAD = (_HEAD + "py = find_program('python3')\n"
                 "gen2 = custom_target('two c', output: ['ga.c', 'gb.c'], command: [py, '-c', 'pass'])\n"
                 "gen3 = custom_target('c and h', output: ['gc.c', 'gc.h'], command: [py, '-c', 'pass'])\n"
                 "gen4 = custom_target('three c', output: ['gd.c', 'ge.c', 'gf.c'], command: [py, '-c', 'pass'])\n"
                 "gen5 = custom_target('c h c', output: ['gg.c', 'gg.h', 'gh.c'], command: [py, '-c', 'pass'])\n"
                 "g = generator(py, output: '@BASENAME@.c', arguments: ['-c', 'pass', '@INPUT@', '@OUTPUT@'])\n"
                 "g2 = generator(py, output: ['@BASENAME@_a.c', '@BASENAME@_b.c', '@BASENAME@.h'], arguments: ['-c', 'pass', '@INPUT@', '@OUTPUT0@'])\n"
                 "gl = g.process('x.in', 'y.in')\n"
                 "gl2 = g2.process('z.in')\n"
                 "cf = configure_file(output: 'conf.c', configuration: {'A': 1})\n"
                 # an index must be the very object the library was given (extract_objects compares identities)
                 "g2_0 = gen2[0]\ng2_1 = gen2[1]\ng3_0 = gen3[0]\ng4_1 = gen4[1]\ng5_0 = gen5[0]\ng5_2 = gen5[2]\n")
_EXTRACT_FILES = {'m.c': _MAIN, 'p.c': 'int p(void) { return 0; }\n', 'q.c': 'int q(void) { return 0; }\n',
                  'r.c': 'int r(void) { return 0; }\n', 'x.in': 'x\n', 'y.in': 'y\n', 'z.in': 'z\n',
                  'sub/m.c': _MAIN}


def _extract_post(feature: str) -> T.Callable[[Out, mn.Manifest, str, T.Optional[dict]], None]:
    def post(out: Out, m: mn.Manifest, bdir: str, rec: T.Optional[dict]) -> None:
        # evidence that the closedness monitor judged objects taken over from another target: inputs of link /
        # archive statements that live in the private directory of a DIFFERENT target
        n = 0
        consumers = 0
        for e in m.edges:
            if not e.rule.name.endswith(('_LINKER', '_LINKER_RSP')) or not e.outputs:
                continue
            own = e.outputs[0] + '.p/'
            foreign = [i for i in e.inputs if i.endswith('.o') and not i.startswith(own)]
            n += len(foreign)
            consumers += 1 if foreign else 0
        out.count('extracted_object_refs', n)
        out.count('extracted_object_consumers', consumers)
        out.count(feature)
    return post


def probe_extract_objects() -> T.Tuple[dict, dict]:
    """extract_objects() with every kind of argument, each naming a SUBSET of the library's sources: a string, a
    files() object, a configure_file() result, a whole custom target (all compilable / with a header), an index of
    a custom target with >= 2 compilable outputs (the library having been given only that index, both indexes, or
    the whole custom target), several indexes at once, generator lists (one and several outputs per input);
    extract_all_objects() recursive and not, over a library that itself carries extracted objects; libraries of
    every kind and an executable as the extractee; consumers that are executables, libraries, in a sub directory.
    Every object named on a consumer's link / archive line must be produced by some statement (monitor:
    input-closed).  Always configured with --unity=off (under unity meson documents that subsets are rejected)."""
    files = dict(_EXTRACT_FILES)
    files['meson.build'] = _EXTRACT_HEAD + (
        "l_idx = static_library('l idx', g2_0)\n"
        "executable('e idx', 'm.c', objects: l_idx.extract_objects(g2_0))\n"
        "l_idx2 = static_library('l idx2', g2_0, g2_1, 'p.c')\n"
        "executable('e idx2', 'm.c', objects: l_idx2.extract_objects(g2_1))\n"
        "executable('e idx2b', 'm.c', objects: l_idx2.extract_objects(g2_1, g2_0))\n"
        "l_idx3 = shared_library('l idx3', g5_2, 'p.c')\n"
        "executable('e idx3', 'm.c', objects: l_idx3.extract_objects(g5_2))\n"
        "l_idx4 = both_libraries('l idx4', g5_0, g5_2, g4_1)\n"
        "executable('e idx4', 'm.c', objects: l_idx4.extract_objects(g5_0, g4_1))\n"
        "x_idx = executable('x idx', 'm.c', g4_1)\n"
        "static_library('from exe', 'p.c', objects: x_idx.extract_objects(g4_1))\n"
        "l_whole = static_library('l whole', gen4, 'p.c')\n"
        "executable('e whole idx', 'm.c', objects: l_whole.extract_objects(g4_1))\n"
        "executable('e whole', 'm.c', objects: l_whole.extract_objects(gen4))\n"
        "l_h = shared_library('l h', gen3, gen5, 'p.c')\n"
        "executable('e h', 'm.c', objects: l_h.extract_objects(gen3))\n"
        "executable('e h idx', 'm.c', objects: l_h.extract_objects(g3_0))\n"
        "executable('e h5', 'm.c', objects: l_h.extract_objects(gen5))\n"
        "executable('e h5 idx', 'm.c', objects: l_h.extract_objects(g5_2))\n"
        "l_g = static_library('l g', gl, gl2, 'p.c', files('q.c'), cf)\n"
        "executable('e g', 'm.c', objects: l_g.extract_objects(gl))\n"
        "executable('e g2', 'm.c', objects: l_g.extract_objects(gl2))\n"
        "executable('e str', 'm.c', objects: l_g.extract_objects('p.c'))\n"
        "executable('e file', 'm.c', objects: l_g.extract_objects(files('q.c')))\n"
        "executable('e cf', 'm.c', objects: l_g.extract_objects(cf))\n"
        "executable('e mixed', 'm.c', objects: l_g.extract_objects('p.c', gl, cf))\n"
        "executable('e all', 'm.c', objects: l_g.extract_all_objects(recursive: false))\n"
        "l_r = static_library('l r', 'r.c', objects: [l_idx.extract_objects(g2_0), l_idx2.extract_objects('p.c')])\n"
        "executable('e rec', 'm.c', objects: l_r.extract_all_objects(recursive: true))\n"
        "executable('e nonrec', 'm.c', objects: l_r.extract_all_objects(recursive: false))\n"
        "shared_library('s rec', objects: l_r.extract_all_objects(recursive: true))\n"
        "subdir('sub')\n")
    files['sub/meson.build'] = (
        "l_sub = static_library('l sub', g2_1, gen4)\n"
        "executable('e sub', 'm.c', objects: [l_sub.extract_objects(g2_1), l_idx.extract_objects(g2_0), l_whole.extract_objects(g4_1)])\n")
    return files, {'targets': [], 'tests': [], 'features': ['probe:extract-objects-subsets'],
                   'post': _extract_post('extract_probe:subsets')}


def probe_extract_objects_full() -> T.Tuple[dict, dict]:
    """extract_objects() naming ALL sources of the library (the only form documented to work in unity builds) with
    every kind of argument, and extract_all_objects(); libraries with 1, 2, 3 and 9 compilable sources (unity_size
    4: one to three unity files).  Configured with --unity=off and --unity=on."""
    files = dict(_EXTRACT_FILES)
    files['meson.build'] = _EXTRACT_HEAD + (
        "l_idx = static_library('l idx', g2_0)\n"
        "executable('e idx', 'm.c', objects: l_idx.extract_objects(g2_0))\n"
        "l_both = static_library('l both', g2_0, g2_1)\n"
        "executable('e both', 'm.c', objects: l_both.extract_objects(g2_1, g2_0))\n"
        "l_idx5 = shared_library('l idx5', g5_2, g5_0)\n"
        "executable('e idx5', 'm.c', objects: l_idx5.extract_objects(g5_0, g5_2))\n"
        "l_whole = static_library('l whole', gen4)\n"
        "executable('e whole', 'm.c', objects: l_whole.extract_objects(gen4))\n"
        "l_h = shared_library('l h', gen3)\n"
        "executable('e h', 'm.c', objects: l_h.extract_objects(gen3))\n"
        "l_g = static_library('l g', gl)\n"
        "executable('e g', 'm.c', objects: l_g.extract_objects(gl))\n"
        "l_g2 = both_libraries('l g2', gl2)\n"
        "executable('e g2', 'm.c', objects: l_g2.extract_objects(gl2))\n"
        "l_mix = static_library('l mix', gl, 'p.c', files('q.c'), cf, gen4, g2_1)\n"
        "executable('e mix', 'm.c', objects: l_mix.extract_objects(gl, 'p.c', files('q.c'), cf, gen4, g2_1))\n"
        "executable('e mix all', 'm.c', objects: l_mix.extract_all_objects(recursive: false))\n"
        "l_r = static_library('l r', 'r.c', objects: l_idx.extract_objects(g2_0))\n"
        "executable('e rec', 'm.c', objects: l_r.extract_all_objects(recursive: true))\n"
        "executable('e nonrec', 'm.c', objects: l_r.extract_all_objects(recursive: false))\n"
        "subdir('sub')\n")
    files['sub/meson.build'] = (
        "l_sub = static_library('l sub', g2_1, gen4)\n"
        "executable('e sub', 'm.c', objects: [l_sub.extract_objects(g2_1, gen4), l_idx.extract_objects(g2_0)])\n")
    return files, {'targets': [], 'tests': [], 'features': ['probe:extract-objects-all-sources'],
                   'post': _extract_post('extract_probe:all-sources')}


def probe_backslash_names() -> T.Tuple[dict, dict]:
    """Names with a backslash and NO second target at the slash spelling: target names, custom target outputs,
    name_prefix / name_suffix.  Either rejected, or every structural monitor applies to what was written."""
    files = {'meson.build': _HEAD + "py = find_program('python3')\n"
             "executable('bs\\\\exe', 'm.c')\n"
             "static_library('bs\\\\lib', 'm.c')\n"
             "custom_target('bs ct', output: ['bsd\\\\o1.txt', 'plain.txt'], command: [py, '-c', 'pass'], build_by_default: true)\n",
             'm.c': _MAIN}
    return files, {'targets': [], 'tests': [], 'features': ['probe:backslash-names'], 'may_reject': True}


def probe_backslash_affixes() -> T.Tuple[dict, dict]:
    files = {'meson.build': _HEAD +
             "e = executable('afx', 'm.c', name_suffix: 'x\\\\y', build_by_default: false)\n"
             "l = static_library('afx', 'm.c', name_prefix: 'pre\\\\fix')\n"
             "test('afx', e)\n", 'm.c': _MAIN}
    return files, {'targets': [], 'tests': [], 'features': ['probe:backslash-name-affixes'], 'may_reject': True}


PROBES: T.Dict[str, T.Callable[[], T.Tuple[dict, dict]]] = {
    'extract-objects': probe_extract_objects,
    'extract-objects-full': probe_extract_objects_full,
    'backslash-names': probe_backslash_names,
    'backslash-affixes': probe_backslash_affixes,
    'default-matrix': probe_default_matrix,
    'nested-reuse': probe_nested_reuse,
    'local-programs': probe_local_programs,
    'preserve-path': probe_preserve_path,
    'mixed-languages': probe_mixed_languages,
    'optional-subprojects': probe_optional_subprojects,
    'same-name-prereqs': probe_same_name_prereqs,
    'unity-counts': probe_unity_counts,
    'unity-asm': probe_unity_asm,
    'flat-generator': probe_flat_generator,
    'pipe': probe_pipe, 'rsp': probe_rsp, 'shlib-alias': probe_shlib_alias, 'private-dir': probe_private_dir,
    'newline': probe_newline, 'test-depends': probe_test_depends,
}


# ------------------------------------------------------------------------------------------------ planning
CORPUS_DIRS_QUICK = ('common', 'unit', 'fortran', 'linuxlike', 'native')
CORPUS_DIRS_ALL = CORPUS_DIRS_QUICK + ('rust', 'java', 'cython', 'nasm', 'python', 'python3', 'keyval', 'vala', 'd',
                                       'objc', 'objcpp', 'cuda', 'csharp', 'swift', 'cmake', 'wasm', 'frameworks')


def corpus_projects(dirs: T.Sequence[str] = CORPUS_DIRS_ALL) -> T.List[str]:
    """Every test project of the repository corpus that is meant to configure (not failing*, not other OSes); a
    project that does not configure here (missing compiler / tool) is skipped and counted."""
    res = []
    for sub in dirs:
        d = os.path.join(common.REPO, 'test cases', sub)
        try:
            names = sorted(os.listdir(d))
        except OSError:
            continue
        for n in names:
            if os.path.isfile(os.path.join(d, n, 'meson.build')):
                res.append(f'{sub}/{n}')
    return res


def plan(chk: common.Check) -> T.List[dict]:
    rng = chk.rng
    quick = chk.tier == 'quick'
    cases: T.List[dict] = []
    # generated projects x configuration cells (every cell is visited; cells rotate over projects)
    n_proj, per_proj = (12, 3) if quick else (100, 6)
    cells = list(CELLS)
    rng.shuffle(cells)
    k = 0
    for p in range(n_proj):
        seed = f'{chk.seed}:{p}'
        for _ in range(per_proj):
            l, u, d = cells[k % len(cells)]
            k += 1
            rsp = rng.choice([None, None, None, 0, 150, 400])
            cases.append({'type': 'gen', 'seed': seed, 'cfg': {'layout': l, 'unity': u, 'default_library': d},
                          'rsp': rsp})
    # collisions: every kind; quick one configuration each, thorough 6 seeds x 3 configurations
    for kind in gen_c04.COLLISION_KINDS:
        for s in range(1 if quick else 6):
            for _ in range(1 if quick else 3):
                l, u, d = rng.choice(CELLS)
                if kind in gen_c04.MIRROR_ONLY_KINDS:
                    l = 'mirror'      # under flat layout the pair does not coincide
                cases.append({'type': 'collision', 'kind': kind, 'seed': f'{chk.seed}:{kind}:{s}',
                              'cfg': {'layout': l, 'unity': u, 'default_library': d}})
    # directed probes (every run)
    for name in PROBES:
        cfgs = [('mirror', 'off', 'shared')] if quick else [('mirror', 'off', 'shared'), ('flat', 'on', 'both')]
        if name == 'extract-objects-full' and quick:
            cfgs = [('mirror', 'off', 'shared'), ('mirror', 'on', 'static')]
        if name == 'backslash-affixes':
            # --unity=on: the directed probe of the known finding input-exists-only-under-backslash-spelling
            cfgs = [('mirror', 'off', 'shared'), ('mirror', 'on', 'static')]
        if name == 'extract-objects' and quick:
            cfgs = [('mirror', 'off', 'shared'), ('flat', 'off', 'both')]
        for l, u, d in cfgs:
            rsps = [None]
            if name == 'same-name-prereqs':
                l = 'mirror'
            if name in ('unity-asm', 'unity-counts'):
                u, d = 'on', 'both'
            if name == 'flat-generator':
                l = 'flat'
            if name == 'rsp':
                rsps = [0, 200]
            if name == 'extract-objects':
                u = 'off'
            if name == 'extract-objects-full':
                u = 'on' if (l, u, d) != cfgs[0] else 'off'
            for rsp in rsps:
                cases.append({'type': 'probe', 'name': name, 'cfg': {'layout': l, 'unity': u, 'default_library': d},
                              'rsp': rsp})
    # corpus
    projs = corpus_projects(CORPUS_DIRS_QUICK if quick else CORPUS_DIRS_ALL)
    if quick:
        rng.shuffle(projs)
        others = [p for p in projs if not p.startswith(('common/', 'unit/'))]
        projs = [p for p in projs if p.startswith(('common/', 'unit/'))][:26] + others[:6]
    for rel in projs:
        l, u, d = rng.choice(CELLS) if not quick else rng.choice([('mirror', 'off', 'shared'), ('mirror', 'on', 'static'),
                                                                  ('flat', 'off', 'both'), ('mirror', 'subprojects', 'both')])
        cases.append({'type': 'corpus', 'rel': rel, 'cfg': {'layout': l, 'unity': u, 'default_library': d},
                      'timeout': 90})
    return cases


# ------------------------------------------------------------------------------------------------ driver
def aggregate(chk: common.Check, results: T.Sequence[dict]) -> T.Dict[str, T.Any]:
    features: T.Set[str] = set()
    notes: T.Dict[str, list] = {}
    for res in results:
        chk.case(res['key'], nontrivial=res['key'] is not None)
        chk.merge_counts(res['counts'])
        for f in res['features']:
            features.add(f)
        if res['sample'] is not None:
            chk.sample(res['sample'], limit=10)
        for k, v in res['notes']:
            notes.setdefault(k, [])
            if len(notes[k]) < 12:
                notes[k].append(v)
        for mech, w in res['violations']:
            chk.violation(mech, w)
    for k, v in notes.items():
        chk.notes[k] = v
    return {'features_covered': sorted(features)}


def replay(chk: common.Check, path: str) -> int:
    with open(path, encoding='utf-8') as f:
        w = json.load(f)
    case = w['case']
    global SCRATCH_ROOT
    SCRATCH_ROOT = common.scratch_dir('c04')
    runner.preload()
    res = run_case(case)
    print(f'[C04] replay case={json.dumps(case)}')
    if res['violations']:
        for mech, ww in res['violations']:
            print(f'[C04] STILL FAILS mechanism={mech} ' + json.dumps({k: v for k, v in ww.items() if k != "case"},
                                                                    default=repr)[:800])
        return 1
    print('[C04] replay: no violation now; counts=' + json.dumps(res['counts']))
    return 0


def main() -> int:
    chk = common.Check('C04')
    if os.environ.get('VERIF_REPLAY'):
        return replay(chk, os.environ['VERIF_REPLAY'])
    global SCRATCH_ROOT
    SCRATCH_ROOT = common.scratch_dir('c04')
    runner.preload()
    cases = plan(chk)
    budget = 120.0 if chk.tier == 'quick' else 1100.0
    t0 = time.time()
    results: T.List[dict] = []
    # chunks keep the wall-clock cap effective: stop submitting once the budget is used up
    step = max(chk.jobs * 4, 16)
    # long corpus cases first inside their group is not needed; keep plan order but interleave types for balance
    order = sorted(range(len(cases)), key=lambda i: (i * 7919) % len(cases))
    cases = [cases[i] for i in order]
    done = 0
    for i in range(0, len(cases), step):
        if time.time() - t0 > budget:
            chk.count('cases_dropped_by_time_cap', len(cases) - done)
            break
        part = cases[i:i + step]
        results += common.pmap(run_case, part, chk.jobs, timeout=900)
        done += len(part)
    extra = aggregate(chk, results)
    extra['planned_cases'] = len(cases)
    extra['cells'] = {k[5:]: v for k, v in chk.counters.items() if k.startswith('cell:')}
    for k in list(chk.counters):
        if k.startswith('cell:'):
            del chk.counters[k]
    quick = chk.tier == 'quick'
    chk.require('monitor:parse', 50 if quick else 500)
    chk.require('monitor:write-parse-agreement', 2000 if quick else 30000)
    chk.require('monitor:unique-producer', 2000 if quick else 30000)
    chk.require('monitor:input-closed', 2000 if quick else 30000)
    chk.require('monitor:acyclic', 50 if quick else 500)
    chk.require('monitor:default-reachable-from-all', 100 if quick else 2000)
    chk.require('monitor:test-prereq-reachable', 20 if quick else 400)
    chk.require('test_prereq_only_via_prereq_target', 3 if quick else 50)
    chk.require('nondefault_not_in_all', 5 if quick else 100)
    chk.require('monitor:all_outputs-invariant', 50 if quick else 500)
    chk.require('monitor:check_outputs-calls', 2000 if quick else 30000)
    chk.require('collision_rejected', 12 if quick else 200)
    chk.require('collision_rejected_by:check_outputs', 4 if quick else 60)
    chk.require('collision_rejected_by:interpreter', 4 if quick else 60)
    chk.require('corpus_configured', 10 if quick else 150)
    chk.require('rsp_edges', 1)
    chk.require('monitor:failed-subproject-left-no-trace', 10 if quick else 100)
    # every documented way of becoming built by default (probe default-matrix) and the nested-subproject-reuse group
    chk.require('default_matrix_cells', 60)
    chk.require('default_matrix_targets:documented-default', 80)
    chk.require('default_matrix_targets:documented-non-default', 40)
    chk.require('nested_reuse_pairs', 4)
    chk.require('nested_reuse_controls', 2)
    chk.require('monitor:orphaned-subprojects-classifier', 50 if quick else 500)
    # objects taken over with extract_objects()/extract_all_objects() (every argument kind, unity off and on) were
    # judged by the closedness monitor; spellings that the writer normalises were tried as collisions
    chk.require('extract_probe:subsets', 1)
    chk.require('extract_probe:all-sources', 2)
    chk.require('extracted_object_refs', 100)
    chk.require('extracted_object_consumers', 50)
    chk.require('normalised_spelling_collisions_tried', len(gen_c04.MIRROR_ONLY_KINDS))
    return chk.finish(
        rule='generated project (seeded target graph: kinds, link chains, generated sources, subdirs, subproject, '
             'tests) x configuration cell (layout, unity, default_library, rsp threshold); distinct = structural '
             'hash of (cell, feature set, target count); collisions distinct by (kind, outcome); corpus by '
             '(project, cell)',
        assumptions=['"exists after configuration" is tested with lexists() on the real file system right after '
                     'meson setup returned (dangling version-alias symlinks count as existing)',
                     'mini-ninja (vf/mininja.py) is the reference reader of the manifest; its agreement with the '
                     'element stream recorded at NinjaBuildElement.write is checked for every statement',
                     'file naming of targets on Linux/gcc (lib<name>.so/.a, <name>) is written down in '
                     'gen_c04.expected_paths',
                     'corpus projects are copied to scratch and configured with C only; failures to configure are '
                     'skipped and counted'],
        exhaustive=False, extra=extra)


if __name__ == '__main__':
    sys.exit(main())
