"""C10 - dependencies resolve by the documented fallback policy, from verified sources.

Part A (policy): the REAL `meson setup --backend=none` of $VERIF_REPO on generated language-less projects
  (vf.gen.gen_c10) for cells of the decision table; the printed found()/type_name()/version() of every
  lookup is judged by vf.ref.refdeps (transcribed from the documents, no mesonbuild import).  Monitors in
  the forked child wrap DependencyFallbacksHolder.lookup/_get_candidates, dependencies.find_external_dependency
  and Interpreter.do_subproject; online rules: under forced fallback the system is never consulted for the
  name, under nofallback no subproject is configured from a lookup.  Sequences of <= 3 lookups: same arguments
  -> same answer; once found, the same value.  A `static:` factor on the lookups x default_library of the main
  project vs the subproject (same / default_options / -Dsub:default_library) for the link kinds that rely on the
  subproject's meson.override_dependency(); reconfigurations with other wrap_mode / force_fallback_for and with
  the system dependency living in two pkg-config directories (different versions) selected by an ordered
  -Dpkg_config_path that the reconfiguration reorders / shrinks / grows (the answer must equal that of a fresh
  configuration with the same options); fallback / provide subprojects that register their overrides (the name,
  another name, a program) and then FAIL, followed by more lookups (a failed subproject provides nothing).
  The system dependency also comes with an UNKNOWN version (empty Version: field) against constraint shapes
  (upper bounds, inequalities, arrays): "never met if the version is unknown", on detection and from the cache;
  the cosmetic not_found_message: keyword is sprinkled over the lookups (same arguments otherwise -> same answer).
  Links that name a variable the subproject does not define (fallback: [sub, var], `name = var` in [provide]):
  nothing suitable comes from them (optional -> not-found, required -> error) unless the subproject overrode the name.
  A third of the worlds let the subproject's dependency take its version from the subproject's project() (main project
  has another version); table cells are also looked up from INSIDE a subproject that keeps its providers in its own
  subproject directory (default name or another one).
  The dependency's NAME is a factor of every world: a plain name, spellings with upper-case characters (the same
  spelling in the .pc file, dependency(), meson.override_dependency(), the wrap file and force_fallback_for), names
  meson serves through several detection methods with pkg-config among them (zlib, openssl, gpgme, ...); the link of
  a [provide] world is `dependency_names = <name>`, `<name> = <variable>` or the wrap file being named like the
  dependency.  Lookup sequences whose EARLIER lookups were left unsatisfied (a constraint nothing meets, no usable
  fallback) followed by a lookup with other keyword arguments: nothing is carried over from an unsatisfied lookup.
  find_program() of a name listed in [provide] program_names (with and without upper-case characters) falls back
  to the subproject that overrides it.
Part B (integrity): wrap worlds with a corruption class at a location, a recorded-hash class and an injected
  fault, through `meson setup` and `meson subprojects download`.  Monitors wrap shutil.unpack_archive,
  urllib.request.urlopen, Resolver.get_data/check_hash/copy_tree.  Online: at every unpack the monitor hashes
  the bytes at the path being unpacked and compares with the hash the wrap file records for that role; no
  urlopen under nodownload.  After each run: a failed run leaves no subprojects/<dir>, the cache holds no
  unverified bytes under a final name, a successful (second) run has the complete tree.  Source trees with a
  dangling symlink, a symlink to a directory and read-only entries are combined with every patch/diff fault.
  Two processes on ONE source tree: the first is held (a `patch` on PATH that waits for a marker file; a wrapper at the
  entry of Resolver.apply_patch / apply_diff_files) between unpack and the end of patch/diff, a second one resolves
  the same wrap meanwhile.  Ordering is decided through marker files only: the first is let go when the second has
  finished or has published that it issues a blocking lock request.  What the second (and a third, later) run ACCEPTS -
  the tree at the return of Resolver.resolve, the marker its build file prints - is the fully prepared tree, or the
  run fails; when the held step then fails no half-prepared directory remains.
"""
from __future__ import annotations

import json
import os
import random
import re
import shutil
import sys
import tempfile
import time
import typing as T

from vf import common, runner
from vf.gen import gen_c10 as G
from vf.monitors import c10_monitors as M
from vf.ref import refdeps as R

PID = 'C10'
_SCRATCH = ''     # set by main(); inherited by forked workers
_BIN = ''
_BIN_BADPATCH = ''
_BIN_HOLDPATCH = ''


# ====================================================================================================
# scratch / PATH
# ====================================================================================================
def setup_scratch() -> None:
    global _SCRATCH, _BIN, _BIN_BADPATCH, _BIN_HOLDPATCH
    _SCRATCH = common.scratch_dir('c10')
    _BIN = os.path.join(_SCRATCH, 'bin')
    _BIN_BADPATCH = os.path.join(_SCRATCH, 'bin-badpatch')
    _BIN_HOLDPATCH = os.path.join(_SCRATCH, 'bin-holdpatch')
    for d in (_BIN, _BIN_BADPATCH, _BIN_HOLDPATCH):
        os.makedirs(d)
        pc = shutil.which('pkg-config')
        if pc:
            os.symlink(pc, os.path.join(d, 'pkg-config'))
    real_patch = shutil.which('patch')
    if real_patch:
        os.symlink(real_patch, os.path.join(_BIN, 'patch'))
    shim = os.path.join(_BIN_BADPATCH, 'patch')
    with open(shim, 'w', encoding='utf-8') as f:
        f.write('#!/bin/sh\necho "injected: patch fails" >&2\nexit 1\n')
    os.chmod(shim, 0o755)
    # a `patch` that can be HELD: its n-th invocation (counted over all processes of a case through the marker
    # directory $C10_HOLD_DIR) announces itself with `started.<n>` and goes on only when `release.<n>` exists:
    # 'ok' -> the real patch does the work, anything else -> the step fails.  The loop bound is a watchdog only.
    hold = os.path.join(_BIN_HOLDPATCH, 'patch')
    with open(hold, 'w', encoding='utf-8') as f:
        f.write('#!/bin/sh\nPATH=/usr/bin:/bin\n'
                'd="$C10_HOLD_DIR"\nn=1\n'
                'while ! mkdir "$d/started.$n" 2>/dev/null; do n=$((n+1)); [ $n -gt 50 ] && exit 98; done\n'
                'i=0\n'
                'while [ ! -e "$d/release.$n" ]; do\n'
                '  sleep 0.02; i=$((i+1))\n'
                '  if [ $i -gt 5000 ]; then echo "held patch: never released" >&2; exit 97; fi\n'
                'done\n'
                f'if [ "$(cat "$d/release.$n")" = ok ]; then exec {real_patch or "false"} "$@"; fi\n'
                'echo "injected: patch fails" >&2\nexit 1\n')
    os.chmod(hold, 0o755)


def case_dir() -> str:
    return tempfile.mkdtemp(prefix='case-', dir=_SCRATCH)


# ====================================================================================================
# Part A: one world
# ====================================================================================================
_RLINE = re.compile(r'^(?:[\w.-]+\| )?Message: R\|(\d+)\|([^|]*)\|([^|]*)\|([^|\n]*)$', re.M)


def _ref_world(world: dict) -> R.World:
    subv = None
    if world['sub'] and world['pre'] != 'override_sub' and not world.get('sub_fails'):
        subv = G.SUB_VERSIONS[world['pver']]     # a subproject that fails to configure provides nothing
        if world.get('sub_var_missing') and not world.get('sub_overrides'):
            subv = None                          # ... and so does one that lacks the variable and overrides nothing
    return R.World(system=G.system_of(world), wrap_mode=world['wrap_mode'], fff=world['fff'],
                   provide=world['provide'], sub_on_disk=not world.get('sub_download'), sub_version=subv,
                   sub_overrides=bool(world.get('sub_overrides')) and not world.get('sub_fails'), main_dl=world.get('main_dl', 'shared'),
                   sub_dl_how=world.get('sub_dl_how', 'same'), sub_dl_value=world.get('sub_dl_value'))


def _ref_state(world: dict) -> R.State:
    pre = world['pre']
    w = _ref_world(world)
    if pre == 'override':       # made by the main project, without static:
        return R.State(override=('override', G.OVR_VERSIONS[world['pver']]), override_slots=R.slots(w.main_dl))
    if pre == 'override_sub':   # made by the subproject configured through subproject()
        return R.State(override=('override', G.OVR_VERSIONS[world['pver']]), override_slots=R.slots(R.pre_dl(w)),
                       configured=True, sub_dl=R.pre_dl(w))
    if pre == 'configured':
        return R.State(configured=True, sub_dl=R.pre_dl(w))
    if pre == 'failed_sub' and not world.get('sub_fails'):
        # control: subproject('sub', required: false) that does configure
        if world.get('sub_overrides'):
            return R.State(override=('sub', G.SUB_VERSIONS[world['pver']]), override_slots=R.slots(R.pre_dl(w)),
                           configured=True, sub_dl=R.pre_dl(w))
        return R.State(configured=True, sub_dl=R.pre_dl(w))
    return R.State()


def _ref_lookup(lk: dict, world: T.Optional[dict] = None) -> R.Lookup:
    world = world or {}
    if lk['explicit']:
        has_var = lk.get('eform', 'pair') == 'pair'
    else:
        has_var = bool(world.get('provide')) and G.wrap_form(world) == 'var'
    if world.get('sub_var_missing'):
        has_var = False
    con = lk['constraint']
    return R.Lookup(constraint=tuple(con) if isinstance(con, list) else con, required=lk['required'],
                    allow_fallback=lk['allow_fallback'], explicit_fallback=lk['explicit'],
                    static=lk.get('static'), has_var=has_var)


def _same_args(a: dict, b: dict) -> bool:
    strip = lambda d: {k: (list(v) if isinstance(v, tuple) else v) for k, v in d.items() if k != 'nfm'}  # noqa: E731
    return strip(a) == strip(b)


def _policy_mechanism(world: dict, lk: dict, allowed: T.Set[tuple], obs: tuple, facts: dict) -> str:
    exp = '/'.join(sorted({a[0] for a in allowed}))
    flags = []
    if facts.get('forced'):
        flags.append('forced')
    if world['wrap_mode'] != 'default':
        flags.append(world['wrap_mode'])
    if world['pre'] != 'none':
        flags.append('pre-' + world['pre'])
    if world.get('sub_download'):
        flags.append('not-on-disk')
    if world.get('sub_var_missing'):
        flags.append('fallback-variable-missing')
    if world.get('nested'):
        flags.append('looked-up-in-subproject-with-subproject_dir-' + world['nested'])
    if world.get('implicit_ver'):
        flags.append('version-from-subproject-project')
    ncls = G.name_class(G.dep_of(world))
    if ncls == 'case':
        flags.append('name-with-upper-case-characters')
    elif ncls == 'factory':
        flags.append('name-with-several-detection-methods')
    if world.get('wrap_form') == 'wrapname':
        flags.append('wrap-file-named-like-the-dependency')
    if facts.get('after_unsatisfied'):
        flags.append('after-unsatisfied-lookup-with-other-arguments')
    if lk['explicit']:
        flags.append('explicit')
    elif world['provide']:
        flags.append('provide')
    if not lk['required']:
        flags.append('optional')
    if lk['allow_fallback'] is not None:
        flags.append('allow_fallback-' + str(lk['allow_fallback']).lower())
    if lk.get('static') is not None:
        flags.append('static-' + str(lk['static']).lower())
    if world.get('sub_dl_how', 'same') != 'same':
        flags.append('sub-default_library-via-' + world['sub_dl_how'])
    if obs == ('system', 'unknown') and lk['constraint'] is not None:
        # dependency.yaml `version`: "These requirements are never met if the version is unknown"
        remembered = bool(facts.get('remembered_unknown_system')) or bool(world.get('reconfigured_from'))
        if remembered:
            return 'policy:unknown-version-satisfies-constraint-from-cache'
        return 'policy:unknown-version-satisfies-constraint-on-detection' + (':' + ','.join(flags) if flags else '')
    if {a[0] for a in allowed} == {obs[0]}:
        # right provider, wrong version: e.g. a stale cached system dependency after the search path changed
        head = f'policy:wrong-{obs[0]}-version' + ('-after-reconfigure' if world.get('reconfigured_from') else '')
        return head + (':' + ','.join(flags) if flags else '')
    return f'policy:expected-{exp}-got-{obs[0]}' + (':' + ','.join(flags) if flags else '')


def run_policy_world(world: dict) -> dict:
    """Worker: build, run the real meson, judge every lookup. Returns plain data.
    A world with 'phase2' is reconfigured afterwards with other wrap_mode / force_fallback_for values: the policy
    holds for every configuration (a dependency cached by the first one must not leak through forced fallback)."""
    out: T.Dict[str, T.Any] = {'counts': {}, 'violations': [], 'key': common.digest(world), 'cov': [],
                               'inconclusive': None, 'sample': None}
    cnt = out['counts']

    def c(k: str, n: int = 1) -> None:
        cnt[k] = cnt.get(k, 0) + n
    root = case_dir()
    try:
        files, args, _ = G.a_world_files(world, root)
        runner.write_tree(root, files)
        # MESON_FORCE_BACKTRACE='' : runner.base_env() sets it to '0', which meson treats as set (re-raise)
        env = {'PKG_CONFIG_LIBDIR': os.path.join(root, 'pc'), 'PKG_CONFIG_PATH': '', 'PATH': _BIN,
               'MESON_FORCE_BACKTRACE': ''}
        bdir = os.path.join(root, 'b')
        r = runner.meson(['setup', '--backend=none', bdir] + args, cwd=os.path.join(root, 'src'),
                         env=env, monitors=[M.policy_monitor], timeout=90)
        if r.timed_out:
            out['inconclusive'] = 'timeout'
            return out
        answers = _judge_policy_run(world, r, out, c, 1)
        fbk = world['pre'] if world['pre'] != 'none' else ('provide' if world['provide'] else
                                                           ('explicit' if any(l['explicit'] for l in world['seq']) else 'none'))
        out['cov'] = ['fb=' + fbk + ('+download' if world.get('sub_download') else ''),
                      'wm=' + world['wrap_mode'], 'fff=' + world['fff']] + ['ans=' + a[0] for a in answers]
        out['sample'] = {'world': {k: v for k, v in world.items() if k != 'seq'}, 'seq': world['seq'],
                         'answers': [list(a) for a in answers]}
        p2 = world.get('phase2')
        if p2 and r.rc == 0:
            world2 = dict(world, wrap_mode=p2['wrap_mode'], fff=p2['fff'], phase2=None, reconfigured_from=
                          {'wrap_mode': world['wrap_mode'], 'fff': world['fff'], 'pcpath': world.get('pcpath')})
            if 'pcpath' in p2:
                world2['pcpath'] = p2['pcpath']
            if world.get('sub_download'):
                world2['sub_download'] = not os.path.isdir(os.path.join(root, 'src', 'subprojects', G.sub_of(world)))
            args2 = ['-Dwrap_mode=' + p2['wrap_mode'],
                     '-Dforce_fallback_for=' + {'none': '', 'dep': G.dep_of(world), 'sub': G.sub_of(world)}[p2['fff']]]
            if 'pcpath' in p2:
                args2.append(G.pcpath_arg(p2['pcpath'], root))
            r2 = runner.meson(['setup', '--reconfigure', bdir] + args2, cwd=os.path.join(root, 'src'),
                              env=env, monitors=[M.policy_monitor], timeout=90)
            if r2.timed_out:
                out['inconclusive'] = 'timeout'
                return out
            c('A:reconfigurations')
            answers2 = _judge_policy_run(world2, r2, out, c, 2, witness_world=world)
            out['cov'] += ['reconf:' + world['wrap_mode'] + '->' + p2['wrap_mode']] + ['ans=' + a[0] for a in answers2]
            if 'pcpath' in p2:
                out['cov'].append('reconf-pkg_config_path:' + ','.join(world['pcpath']) + '->' + ','.join(p2['pcpath']))
            out['sample']['answers_after_reconfigure'] = [list(a) for a in answers2]
        return out
    finally:
        shutil.rmtree(root, ignore_errors=True)


def _judge_policy_run(world: dict, r: runner.Result, out: dict, c: T.Callable, phase: int,
                      witness_world: T.Optional[dict] = None) -> T.List[tuple]:
    if True:
        lines = {int(m.group(1)): (m.group(2), m.group(3), m.group(4)) for m in _RLINE.finditer(r.out)}
        ended = 'Message: END' in r.out
        # split monitor records per top-level lookup
        per: T.List[T.List[dict]] = []
        cur: T.Optional[T.List[dict]] = None
        sub_done_after: T.List[bool] = []
        where = G.NEST if world.get('nested') else ''     # the (sub)project whose build file makes the lookups
        dep_name, sub_name = G.dep_of(world), G.sub_of(world)
        ncls = G.name_class(dep_name)
        sub_done = world['pre'] in ('configured', 'override_sub') or (world['pre'] == 'failed_sub' and not world.get('sub_fails'))
        for ev in r.records:
            c('monitor:' + ev['ev'])
            if ev['ev'] == 'lookup-begin' and ev['depth'] == 1 and ev.get('subproject') == where and dep_name in ev['names']:
                cur = []            # (a subproject's own top-level lookups of other names are not ours)
                per.append(cur)
            if cur is not None:
                cur.append(ev)
            if ev['ev'] == 'do_subproject-end' and ev['name'] == sub_name and ev['found']:
                sub_done = True
            if ev['ev'] == 'lookup-end' and ev['depth'] == 1 and cur is not None:
                cur = None
                sub_done_after.append(sub_done)
            if ev.get('online'):
                # the child-side online rule, on the code's own flags (forcefallback / nofallback of the holder)
                out['violations'].append(('policy:online:' + ev['online'],
                                          {'part': 'A', 'world': witness_world or world, 'phase': phase, 'event': ev}))
            if ev['ev'] == 'fed' and ev['depth'] >= 1:
                c('rule:online-forced-no-system')
            if ev['ev'] == 'do_subproject' and ev['depth'] >= 1:
                c('rule:online-nofallback-no-subproject')
        w = _ref_world(world)
        st = _ref_state(world)
        answers: T.List[tuple] = []
        prev: T.Optional[T.Tuple[dict, tuple]] = None
        witness_base = {'part': 'A', 'world': witness_world or world, 'phase': phase}
        for i, lk in enumerate(world['seq'], 1):
            if i in lines:
                obs = G.classify_answer(*lines[i])
            elif r.rc != 0 and (i - 1) == len(answers):
                obs = ('error',)
            else:
                break
            answers.append(obs)
            rl = _ref_lookup(lk, world)
            allowed, tag, facts = R.expect(w, st, rl)
            facts = dict(facts, remembered_unknown_system=any(v[0] == ('system', 'unknown') for v in st.sticky.values()))
            # every earlier lookup of this configuration was left unsatisfied and this one has other arguments: nothing
            # may be carried over from the earlier ones
            facts['after_unsatisfied'] = bool(i > 1 and all(a == ('notfound',) for a in answers[:-1]) and
                                              any(not _same_args(p, lk) for p in world['seq'][:i - 1]))
            c('A:lookups-judged')
            c('A:name-' + ncls)
            c('A:tag-' + tag)
            detail = {**witness_base, 'lookup_index': i, 'lookup': lk, 'observed': list(obs),
                      'allowed': sorted(map(list, allowed)), 'tag': tag,
                      'facts': {k: v for k, v in facts.items()}, 'rc': r.rc, 'out_tail': r.out[-1200:]}
            if obs[0] == 'weird':
                out['violations'].append(('policy:inexplicable-dependency-object', detail))
            elif obs == ('error',) and (r.traceback or r.rc != 1):
                out['violations'].append(('policy:internal-error-instead-of-answer', detail))
            elif obs == ('system', 'unknown') and lk['constraint'] is not None:
                # decided by the documents whatever else the cell leaves open: "These requirements are never met if
                # the version is unknown"
                c('rule:documented-answer')
                out['violations'].append((_policy_mechanism(world, lk, allowed, obs, facts), detail))
            elif tag == 'doc':
                c('rule:documented-answer')
                c('rule:documented-answer:name-' + ncls)
                if facts['after_unsatisfied']:
                    c('rule:relookup-after-unsatisfied')
                    c('rule:relookup-after-unsatisfied:name-' + ncls)
                if not lk['explicit'] and world['provide'] and facts.get('available') and st.override is None:
                    # the implicit link through the wrap file decides this cell
                    c('rule:provide-link:' + G.wrap_form(world) + ':name-' + ncls)
                if obs not in allowed:
                    out['violations'].append((_policy_mechanism(world, lk, allowed, obs, facts), detail))
            else:
                c('A:open-' + ('explained' if obs in allowed else 'other'))
            # same arguments immediately repeated -> same answer (whatever the documents say about the cell)
            # (not_found_message: is cosmetic - it is not part of the arguments that select the dependency)
            if prev is not None and _same_args(prev[0], lk):
                c('rule:repeat-same-answer')
                if prev[1] != obs:
                    out['violations'].append(('policy:repeated-lookup-differs', dict(detail, previous=list(prev[1]))))
            prev = (lk, obs)
            # online rules decided by the REFERENCE's notion of forced / nofallback, on the monitor's events
            evs = per[i - 1] if i - 1 < len(per) else None
            if evs is None:
                c('A:call-rejected-before-lookup')
            else:
                inner = [e for e in evs]
                if facts.get('system_must_not_be_consulted') and tag == 'doc':
                    forced_cell = bool(facts.get('forced') and facts.get('available')) and st.override is None
                    c('rule:forced-no-system' if forced_cell else 'rule:override-no-system')
                    if any(e['ev'] == 'fed' and e['name'] == dep_name and e['depth'] == 1 for e in inner):
                        out['violations'].append(('policy:system-consulted-' + ('under-forced-fallback' if forced_cell
                                                                                else 'despite-override'), detail))
                if facts.get('no_subproject_from_lookup') and tag == 'doc':
                    c('rule:no-subproject-from-lookup')
                    if any(e['ev'] == 'do_subproject' and e['depth'] >= 1 for e in inner):
                        why = 'under-nofallback' if world['wrap_mode'] == 'nofallback' else 'without-available-fallback'
                        out['violations'].append((f'policy:subproject-configured-from-lookup-{why}', detail))
            after = sub_done_after[i - 1] if i - 1 < len(sub_done_after) else sub_done
            sub_ovr = ('sub', G.SUB_VERSIONS[world['pver']]) if (world.get('sub_overrides') and
                                                                 not world.get('sub_fails')) else None
            R.advance(w, st, rl, obs, after, sub_ovr)
            if obs == ('error',):
                break
        if not answers:
            out['violations'].append(('policy:no-lookup-observed', {**witness_base, 'rc': r.rc, 'out_tail': r.out[-1500:],
                                                                   'err_tail': r.err[-800:]}))
        elif answers[-1] != ('error',) and (r.rc != 0 or not ended):
            out['violations'].append(('policy:configuration-failed-after-answers',
                                      {**witness_base, 'rc': r.rc, 'answers': [list(a) for a in answers],
                                       'out_tail': r.out[-1500:], 'err_tail': r.err[-800:]}))
        if world.get('side_overrides') and ended:
            # what else the subproject registered (another dependency name, a program) is visible iff the subproject
            # was configured successfully: a failed (disabled) subproject provides nothing
            side = dict(re.findall(r'^Message: X\|(dep|prog)\|(true|false)$', r.out, re.M))
            want = 'true' if (sub_done and not world.get('sub_fails')) else 'false'
            for what in ('dep', 'prog'):
                if what in side:
                    c('rule:side-override-visible-iff-subproject-configured')
                    if side[what] != want:
                        kind = 'failed-subproject-provides-' if world.get('sub_fails') else 'configured-subproject-override-lost-'
                        out['violations'].append(('policy:' + kind + ('dependency' if what == 'dep' else 'program'),
                                                  {**witness_base, 'observed': side, 'expected': want, 'rc': r.rc,
                                                   'out_tail': r.out[-1500:]}))
        if r.traceback:
            c('A:traceback')
        return answers


# ====================================================================================================
# programs provided by a wrap file
# ====================================================================================================
def run_program_world(world: dict) -> dict:
    """find_program(name) with the name listed in [provide] program_names of a wrap file whose subproject overrides
    it: "will automatically fallback to use the subproject" (Wrap-dependency-system-manual.md).  Required lookups
    only, wrap modes that allow an on-disk subproject."""
    out: T.Dict[str, T.Any] = {'counts': {}, 'violations': [], 'key': common.digest(world), 'cov': [],
                               'inconclusive': None, 'sample': None}
    cnt = out['counts']

    def c(k: str, n: int = 1) -> None:
        cnt[k] = cnt.get(k, 0) + n
    root = case_dir()
    try:
        files, args = G.p_world_files(world)
        runner.write_tree(root, files)
        env = {'PKG_CONFIG_LIBDIR': os.path.join(root, 'pc'), 'PKG_CONFIG_PATH': '', 'PATH': _BIN,
               'MESON_FORCE_BACKTRACE': ''}
        r = runner.meson(['setup', '--backend=none', os.path.join(root, 'b')] + args, cwd=os.path.join(root, 'src'),
                         env=env, monitors=[M.policy_monitor], timeout=90)
        if r.timed_out:
            out['inconclusive'] = 'timeout'
            return out
        configured = False
        for ev in r.records:
            c('monitor:' + ev['ev'])
            if ev['ev'] == 'do_subproject-end' and ev['name'] == G.SUB and ev['found']:
                configured = True
        m = re.search(r'^Message: P\|(true|false)$', r.out, re.M)
        c('rule:program-provided-by-wrap')
        upper = world['prog'] != world['prog'].lower()
        c('P:name-' + ('with-upper-case-characters' if upper else 'lower-case'))
        ok = r.rc == 0 and m is not None and m.group(1) == 'true' and configured and 'Message: END' in r.out
        if not ok:
            flags = [world['wrap_mode']] if world['wrap_mode'] != 'default' else []
            if world['fff'] != 'none':
                flags.append('forced')
            if upper:
                flags.append('name-with-upper-case-characters')
            why = 'internal-error' if (r.traceback or r.rc not in (0, 1)) else \
                ('subproject-not-configured' if not configured else 'program-not-found-after-subproject')
            out['violations'].append(('policy:wrap-program_names-entry-not-used:' + why + (':' + ','.join(flags) if flags else ''),
                                      {'part': 'P', 'world': world, 'rc': r.rc, 'configured': configured,
                                       'printed': m.group(0) if m else None, 'out_tail': r.out[-1200:]}))
        out['cov'] = ['prog-wm=' + world['wrap_mode'], 'prog-name-upper=' + str(upper)]
        out['sample'] = {'program_world': world, 'found': bool(m and m.group(1) == 'true'), 'rc': r.rc}
        return out
    finally:
        shutil.rmtree(root, ignore_errors=True)


# ====================================================================================================
# Part B: one case
# ====================================================================================================
IGNORED_TREE_FILES = {'.meson-subproject-wrap-hash.txt'}


def tree_digest(d: str) -> T.Dict[str, str]:
    """relative path -> sha256 of a regular file / 'link:<target>' of a symbolic link (never followed)."""
    out = {}
    for dp, dn, fn in os.walk(d):
        for f in dn + fn:
            p = os.path.join(dp, f)
            if os.path.islink(p):
                out[os.path.relpath(p, d)] = 'link:' + os.readlink(p)
            elif f in fn and f not in IGNORED_TREE_FILES:
                out[os.path.relpath(p, d)] = M.sha_file(p) or '?'
    return out


def force_rmtree(d: str) -> None:
    """Remove a case directory that may contain read-only directories."""
    for dp, dn, _fn in os.walk(d):
        for x in dn:
            p = os.path.join(dp, x)
            if not os.path.islink(p):
                try:
                    os.chmod(p, 0o755)
                except OSError:
                    pass
    shutil.rmtree(d, ignore_errors=True)


def _b_failing_step_is_source_unpack(spec: dict) -> bool:
    f = spec.get('fault') or {}
    if f.get('kind') == 'unpack' and 1 in f.get('ns', []):
        return True
    s = spec['source']
    return s['loc'] == 'files' and s['hash'] == 'missing' and s['corrupt'] != 'none'


def _b_tree_decidable(spec: dict) -> bool:
    for r in [spec['source']] + ([spec['patch']] if spec.get('patch') else []):
        if r['loc'] == 'files' and r['hash'] == 'missing' and r['corrupt'] != 'none':
            return False
    return True


def run_wrap_case(spec: dict) -> dict:
    out: T.Dict[str, T.Any] = {'counts': {}, 'violations': [], 'key': common.digest(spec), 'cov': [],
                               'inconclusive': None, 'sample': None, 'obs': []}
    cnt = out['counts']

    def c(k: str, n: int = 1) -> None:
        cnt[k] = cnt.get(k, 0) + n
    root = case_dir()
    try:
        facts = G.b_build(root, spec)
        runner.write_tree(root, facts.pop('files'))
        src = os.path.join(root, 'src')
        sp = os.path.join(src, 'subprojects')
        cachedir = os.path.join(sp, 'packagecache')
        env = {'PATH': _BIN_BADPATCH if (spec.get('fault') or {}).get('kind') == 'patchshim' else _BIN,
               'MESON_FORCE_BACKTRACE': ''}
        if spec.get('cachedir_rel'):
            env['MESON_PACKAGE_CACHE_DIR'] = os.path.join(root, spec['cachedir_rel'])
            os.makedirs(env['MESON_PACKAGE_CACHE_DIR'], exist_ok=True)
        wrap_mode = spec.get('wrap_mode', 'default')
        subdir = os.path.join(sp, facts['dirname'])
        expect_ok = G.b_expect_success(spec)
        runs = []
        for phase in (1, 2):
            fault = spec.get('fault') if phase == 1 else None
            penv = dict(env)
            if phase == 2:
                penv['PATH'] = _BIN        # the injected fault is gone, the corruption stays
            if spec.get('cmd', 'setup') == 'setup':
                argv = ['setup', '--backend=none', os.path.join(root, f'b{phase}')]
                if wrap_mode != 'default':
                    argv.append(f'--wrap-mode={wrap_mode}')
            else:
                argv = ['subprojects', 'download']
            mon = M.make_wrap_monitor(facts['roles'], wrap_mode, fault if fault and fault.get('kind') != 'patchshim' else None)
            r = runner.meson(argv, cwd=src, env=penv, monitors=[mon], timeout=120)
            if r.timed_out:
                out['inconclusive'] = 'timeout'
                return out
            c('B:runs')
            detail_base = {'part': 'B', 'spec': spec, 'phase': phase, 'rc': r.rc,
                           'out_tail': r.out[-1500:], 'err_tail': r.err[-600:]}
            fault_hit = bool(fault) and fault.get('kind') == 'patchshim' and bool(spec.get('diffs'))
            for ev in r.records:
                c('monitor:' + ev['ev'])
                if ev['ev'] == 'fault':
                    fault_hit = True
                if ev['ev'] == 'unpack':
                    c('rule:unpack-on-verified-bytes')
                    if ev['verdict'] not in ('ok', 'ok-hash-optional'):
                        where = 'packagefiles' if '/packagefiles/' in ev['path'] else \
                            ('cache' if ('/packagecache/' in ev['path'] or '/pkgcache/' in ev['path']) else 'elsewhere')
                        out['violations'].append((f"integrity:unpack-of-unverified-bytes:{ev['role']}:{where}:{ev['verdict']}",
                                                  dict(detail_base, event=ev)))
                elif ev['ev'] == 'check_hash':
                    c('rule:check_hash-contract')
                    if ev['verdict'] != 'ok':
                        out['violations'].append((f"integrity:check_hash-{ev['verdict']}", dict(detail_base, event=ev)))
                elif ev['ev'] == 'urlopen':
                    c('rule:nodownload-no-fetch')
                    if ev['nodownload']:
                        out['violations'].append(('integrity:fetch-under-nodownload', dict(detail_base, event=ev)))
                elif ev['ev'] == 'monitor-error':
                    c('B:monitor-error')
            ok = r.rc == 0 and not r.traceback
            if r.rc == 0 and r.traceback:
                # mesonmain returns `e.errno or 0` for an unhandled OSError: shutil.ReadError has no errno
                c('obs:exit-status-0-after-unhandled-OSError')
                out['obs'].append('exit-status-0-after-unhandled-OSError')
            if r.traceback:
                c('B:traceback')
                m = re.findall(r'^(\w[\w.]*(?:Error|Exception)\b[^\n]{0,60})', r.out + r.err, re.M)
                out['obs'].append('traceback:' + (m[-1].split(':')[0].strip() if m else '?'))
            exists = os.path.isdir(subdir)
            # --- postconditions ---------------------------------------------------------------------
            if not ok:
                c('post:failed-run-dir-absent')
                if exists:
                    if _b_failing_step_is_source_unpack(spec):
                        c('obs:source-unpack-failure-left-directory')
                        out['obs'].append('source-unpack-failure-left-directory')
                    else:
                        out['violations'].append(('integrity:failed-run-left-subproject-directory',
                                                  dict(detail_base, tree=tree_digest(subdir))))
            else:
                c('post:successful-run-tree-complete')
                if not exists:
                    out['violations'].append(('integrity:success-without-subproject-directory', detail_base))
                elif _b_tree_decidable(spec):
                    got = tree_digest(subdir)
                    if got != facts['expected_tree']:
                        half = 'half-prepared' if set(got) < set(facts['expected_tree']) or \
                            any(got.get(k) != v for k, v in facts['expected_tree'].items()) else 'extra-files'
                        if phase == 2 and runs and runs[0]['left_dir'] and _b_failing_step_is_source_unpack(spec):
                            c('obs:later-run-accepted-tree-of-failed-source-unpack')
                            out['obs'].append('later-run-accepted-tree-of-failed-source-unpack')
                        else:
                            out['violations'].append((f'integrity:configured-{half}-tree' +
                                                      (':after-failed-run' if phase == 2 and runs and not runs[0]['ok'] else ''),
                                                      dict(detail_base, got=got, expected=facts['expected_tree'])))
                if 'EVIL' in r.out and 'MARKER|' in r.out:
                    out['violations'].append(('integrity:evil-content-configured', detail_base))
            # the cache never holds unverified bytes under a final name (pre-seeded files are the input)
            for cd in {cachedir, os.path.join(root, 'pkgcache')}:
                if not os.path.isdir(cd):
                    continue
                known_names = {f['filename'] for f in facts['roles'].values()}
                leaked = [n for n in os.listdir(cd) if n not in known_names]
                if leaked:
                    c('obs:cache-temporary-files-left', len(leaked))
                for role, f in facts['roles'].items():
                    p = os.path.join(cd, f['filename'])
                    if os.path.exists(p) and f['filename'] not in facts['preseeded']:
                        c('post:cache-entry-verified')
                        sha = M.sha_file(p)
                        if f['recorded'] is None or sha != f['recorded'].lower():
                            out['violations'].append(('integrity:cache-holds-unverified-bytes',
                                                      dict(detail_base, file=f['filename'], sha=sha, recorded=f['recorded'])))
            # documented outcome of the fault-free command
            if phase == 2 and runs and runs[0]['left_dir'] and _b_failing_step_is_source_unpack(spec):
                if not ok:
                    c('obs:later-run-blocked-by-leftover-of-failed-source-unpack')
                    out['obs'].append('later-run-blocked-by-leftover-of-failed-source-unpack')
            elif fault is None or not fault_hit:
                if expect_ok is True and not ok:
                    c('rule:documented-acquisition-succeeds')
                    out['violations'].append(('integrity:documented-acquisition-path-rejected', detail_base))
                elif expect_ok is True:
                    c('rule:documented-acquisition-succeeds')
                elif expect_ok is False:
                    c('rule:unverifiable-world-rejected')
                    if ok:
                        out['violations'].append(('integrity:accepted-world-that-cannot-verify', detail_base))
            runs.append({'ok': ok, 'left_dir': exists and not ok, 'fault_hit': fault_hit})
            if phase == 1 and fault is not None and fault.get('kind') != 'patchshim' and not fault_hit:
                c('B:fault-not-reached')
        out['cov'] = ['src=' + spec['source']['loc'] + '/' + spec['source']['corrupt'] + '/' + spec['source']['hash'],
                      'patch=' + ((spec['patch']['loc'] + '/' + spec['patch']['corrupt'] + '/' + spec['patch']['hash'])
                                  if spec.get('patch') else 'none'),
                      'fault=' + json.dumps(spec.get('fault'), sort_keys=True), 'diffs=' + str(spec.get('diffs')),
                      'cmd=' + spec.get('cmd', 'setup'), 'wm=' + wrap_mode,
                      'outcome=' + '/'.join('ok' if x['ok'] else 'fail' for x in runs)]
        out['sample'] = {'spec': spec, 'runs': runs}
        return out
    finally:
        force_rmtree(root)


# ====================================================================================================
# Part B: case enumeration
# ====================================================================================================
FMTS = ('tar', 'tar.gz', 'zip')


def b_specs(tier: str, rng: random.Random) -> T.List[dict]:
    specs: T.List[dict] = []
    role = G.b_default_role
    k = [0]

    def fmt() -> str:
        k[0] += 1
        return FMTS[k[0] % 3]

    def add(**kw: T.Any) -> None:
        s = {'source': role(fmt=fmt()), 'patch': None, 'diffs': None, 'fault': None, 'cmd': 'setup',
             'wrap_mode': 'default', 'src_has_build': True}
        s.update(kw)
        if s['wrap_mode'] != 'default':
            s['cmd'] = 'setup'
        specs.append(s)

    def both_cmds(**kw: T.Any) -> None:
        if tier == 'thorough':
            add(cmd='setup', **kw)
            add(cmd='download', **kw)
        else:
            add(cmd=('setup', 'download')[len(specs) % 2], **kw)
    fmts = FMTS if tier == 'thorough' else (None,)
    # 1. good worlds at every location, with and without overlay / diffs
    for loc in ('url', 'url+fb', 'cache', 'files'):
        for f in FMTS:
            both_cmds(source=role(loc=loc, fmt=f))
        both_cmds(source=role(loc='url', fmt=fmt()), patch=role(loc=loc, fmt=fmt()))
        both_cmds(source=role(loc=loc, fmt=fmt()), patch=role(loc=loc, fmt=fmt()), diffs='good', src_has_build=False)
    both_cmds(source=role(loc='files', hash='missing', fmt=fmt()), patch=role(loc='files', hash='missing', fmt=fmt()))
    both_cmds(source=role(loc='url', hash='upper', fmt=fmt()), patch=role(loc='cache', hash='upper', fmt=fmt()))
    both_cmds(source=role(loc='url', fmt=fmt()), patch_directory=True, diffs='good')
    # 2. corruption class x location x role
    for which in ('source', 'patch'):
        for f in fmts:
            def mk(**r: T.Any) -> dict:
                rr = role(fmt=f or fmt(), **r)
                if which == 'source':
                    return {'source': rr}
                return {'source': role(loc='url', fmt=f or fmt()), 'patch': rr}
            for cor in ('bitflip', 'trunc', 'swap', 'evil', 'empty', 'absent'):
                both_cmds(**mk(loc='url', corrupt=cor))
            for cor in ('absent', 'bitflip', 'evil', 'trunc'):
                for fbc in ('none', 'bitflip', 'evil', 'absent'):
                    both_cmds(**mk(loc='url+fb', corrupt=cor, fb_corrupt=fbc))
            for cor in ('bitflip', 'trunc', 'swap', 'evil', 'empty'):
                both_cmds(**mk(loc='cache', corrupt=cor))
                both_cmds(**mk(loc='files', corrupt=cor))
            for cor in ('bitflip', 'trunc', 'empty'):
                both_cmds(**mk(loc='files', corrupt=cor, hash='missing'))
            # 3. recorded-hash classes x location
            for hc in G.HASH_CLASSES:
                if hc == 'ok':
                    continue
                for loc in ('url', 'url+fb', 'cache', 'files'):
                    both_cmds(**mk(loc=loc, hash=hc))
    # 4. nodownload
    for loc in ('url', 'url+fb', 'cache', 'files'):
        add(source=role(loc=loc, fmt=fmt()), wrap_mode='nodownload')
        add(source=role(loc='cache', fmt=fmt()), patch=role(loc=loc, fmt=fmt()), wrap_mode='nodownload')
    add(source=role(loc='cache', corrupt='evil', fmt=fmt()), wrap_mode='nodownload')
    add(source=role(loc='cache', corrupt='bitflip', fmt=fmt()), wrap_mode='nodownload')
    add(source=role(loc='cache', hash='lastdigit', fmt=fmt()), wrap_mode='nodownload')
    add(source=role(loc='cache', fmt=fmt()), patch=role(loc='cache', corrupt='evil', fmt=fmt()), wrap_mode='nodownload')
    # 4b. MESON_PACKAGE_CACHE_DIR: the shared cache is verified like the project's own
    for cor, hc in (('none', 'ok'), ('evil', 'ok'), ('bitflip', 'ok'), ('none', 'lastdigit'), ('none', 'missing')):
        both_cmds(source=role(loc='cache', corrupt=cor, hash=hc, fmt=fmt()), cachedir_rel='pkgcache')
        both_cmds(source=role(loc='url', fmt=fmt()), patch=role(loc='cache', corrupt=cor, hash=hc, fmt=fmt()),
                  cachedir_rel='pkgcache')
    both_cmds(source=role(loc='url', corrupt='evil', fmt=fmt()), cachedir_rel='pkgcache')
    both_cmds(source=role(loc='url+fb', corrupt='absent', fmt=fmt()), cachedir_rel='pkgcache')
    # 5. a fault at each step fetch -> verify -> unpack -> patch -> diff
    for shb in (True, False):
        for ploc in (('url', 'files') if tier == 'quick' else ('url', 'url+fb', 'cache', 'files')):
            base = dict(source=role(loc='url', fmt=fmt()), patch=role(loc=ploc, fmt=fmt()), src_has_build=shb)
            for fault in ({'kind': 'urlopen', 'ns': [1]}, {'kind': 'urlopen', 'ns': [1, 2, 3, 4, 5, 6]},
                          {'kind': 'urlopen', 'ns': [7]}, {'kind': 'urlopen', 'ns': list(range(7, 13))},
                          {'kind': 'check_hash', 'ns': [1]},
                          {'kind': 'unpack', 'ns': [1], 'partial': False}, {'kind': 'unpack', 'ns': [1], 'partial': True},
                          {'kind': 'unpack', 'ns': [2], 'partial': True}, {'kind': 'unpack', 'ns': [2, 3], 'partial': False},
                          {'kind': 'unpack', 'ns': [2, 3], 'partial': True}, {'kind': 'unpack', 'ns': [3], 'partial': False}):
                both_cmds(fault=fault, **base)
                if fault['kind'] == 'unpack' and fault['ns'] != [1]:
                    both_cmds(fault=fault, diffs='good', **base)
            for fault in ({'kind': 'patchshim'},):
                both_cmds(fault=fault, diffs='good', **base)
                both_cmds(fault=fault, diffs='good', source=base['source'], src_has_build=True)
            both_cmds(diffs='bad', **base)
            both_cmds(diffs='missing', **base)
        both_cmds(source=role(loc='cache', fmt=fmt()), patch=role(loc='cache', fmt=fmt()), src_has_build=shb,
                  fault={'kind': 'check_hash', 'ns': [2]})
        both_cmds(source=role(loc='files', fmt=fmt()), patch=role(loc='files', fmt=fmt()), src_has_build=shb,
                  fault={'kind': 'check_hash', 'ns': [1]})
        both_cmds(source=role(loc='url', fmt=fmt()), patch_directory=True, diffs='bad', src_has_build=shb)
        both_cmds(source=role(loc='url', fmt=fmt()), diffs='bad', src_has_build=True)
    # 6. hostile-but-legitimate source trees (dangling symlink, symlink to a directory, read-only file in a read-only
    #    directory) x every patch/diff fault: the clean-up after the failed step has to cope with them
    tfmt = ('tar', 'tar.gz')
    for n_ex, extras in enumerate((['dangling'], ['dirlink', 'readonly'], ['dangling', 'dirlink', 'readonly'])):
        def src() -> dict:
            k[0] += 1
            return role(loc=('url', 'cache', 'files')[k[0] % 3], fmt=tfmt[k[0] % 2])
        both_cmds(source=src(), tree_extras=extras)
        both_cmds(source=src(), patch=role(loc='url', fmt=fmt()), diffs='good', tree_extras=extras)
        for ploc in (('url',) if tier == 'quick' else ('url', 'cache', 'files')):
            both_cmds(source=src(), patch=role(loc=ploc, corrupt='evil', fmt=fmt()), tree_extras=extras)
            both_cmds(source=src(), patch=role(loc=ploc, hash='lastdigit', fmt=fmt()), tree_extras=extras)
            both_cmds(source=src(), patch=role(loc=ploc, fmt=fmt()), tree_extras=extras,
                      fault={'kind': 'unpack', 'ns': [2, 3], 'partial': True})
        if tier == 'thorough':
            both_cmds(source=src(), patch=role(loc='url', corrupt='absent', fmt=fmt()), tree_extras=extras)
            both_cmds(source=src(), patch=role(loc='cache', fmt=fmt()), tree_extras=extras,
                      fault={'kind': 'check_hash', 'ns': [2]})
        both_cmds(source=src(), diffs='good', tree_extras=extras, fault={'kind': 'patchshim'})
        both_cmds(source=src(), diffs='bad', tree_extras=extras)
        both_cmds(source=src(), diffs='missing', tree_extras=extras)
        both_cmds(source=src(), patch_directory=True, diffs='bad', tree_extras=extras)
    # de-duplicate structurally, shuffle for load balance
    seen = set()
    uniq = []
    for s in specs:
        d = common.digest(s)
        if d not in seen:
            seen.add(d)
            uniq.append(s)
    rng.shuffle(uniq)
    return uniq


# ====================================================================================================
# Part B: two (then three) runs on ONE source tree, the first held between unpack and the end of patch/diff
# ====================================================================================================
def _bg_meson(resfile: str, argv: T.List[str], cwd: str, env: dict, monitors: list, timeout: float) -> int:
    """Start runner.meson in a forked helper; the result arrives as JSON in `resfile` (atomically)."""
    pid = os.fork()
    if pid == 0:
        try:
            r = runner.meson(argv, cwd=cwd, env=env, monitors=monitors, timeout=timeout)
            with open(resfile + '.tmp', 'w', encoding='utf-8') as f:
                json.dump({'rc': r.rc, 'out': r.out, 'err': r.err, 'records': r.records, 'timed_out': r.timed_out,
                           'traceback': r.traceback}, f)
            os.rename(resfile + '.tmp', resfile)
        finally:
            os._exit(0)
    return pid


class _Bg:
    def __init__(self, tag: str, root: str, argv: T.List[str], cwd: str, env: dict, monitors: list) -> None:
        self.tag = tag
        self.resfile = os.path.join(root, f'result-{tag}.json')
        self.pid = _bg_meson(self.resfile, argv, cwd, env, monitors, 110.0)
        self.reaped = False
        self.res: T.Optional[dict] = None

    def done(self) -> bool:
        if not self.reaped:
            wpid, _st = os.waitpid(self.pid, os.WNOHANG)
            if wpid == self.pid:
                self.reaped = True
                try:
                    with open(self.resfile, encoding='utf-8') as f:
                        self.res = json.load(f)
                except (OSError, ValueError):
                    self.res = None
        return self.reaped

    def kill(self) -> None:
        if not self.reaped:
            try:
                os.kill(self.pid, 9)
                os.waitpid(self.pid, 0)
            except OSError:
                pass
            self.reaped = True


def _wait(cond: T.Callable[[], bool], watchdog: float) -> bool:
    """Poll an ORDERING condition (marker file / process end). The bound is a watchdog: reaching it never decides
    a verdict, the case is then counted as not judged."""
    end = time.monotonic() + watchdog
    while time.monotonic() < end:
        if cond():
            return True
        time.sleep(0.01)
    return cond()


def run_concurrent_case(spec: dict) -> dict:
    out: T.Dict[str, T.Any] = {'counts': {}, 'violations': [], 'key': common.digest(spec), 'cov': [],
                               'inconclusive': None, 'sample': None, 'obs': []}
    cnt = out['counts']

    def c(k: str, n: int = 1) -> None:
        cnt[k] = cnt.get(k, 0) + n
    conc = spec['conc']
    hold = conc['hold']                 # 'patchprog:<n>' | 'fn:apply_patch' | 'fn:apply_diff_files'
    root = case_dir()
    procs: T.List[_Bg] = []
    try:
        facts = G.b_build(root, spec)
        runner.write_tree(root, facts.pop('files'))
        src = os.path.join(root, 'src')
        subdir = os.path.join(src, 'subprojects', facts['dirname'])
        markdir = os.path.join(root, 'marks')
        os.makedirs(markdir)
        hold_key = hold.split(':', 1)[1] if hold.startswith('patchprog:') else 'fn'
        for k in range(1, 13):          # every other invocation of the held `patch` goes straight through
            if str(k) != hold_key:
                M.touch_marker(markdir, f'release.{k}', 'ok')
        env = {'PATH': _BIN_HOLDPATCH, 'C10_HOLD_DIR': markdir, 'MESON_FORCE_BACKTRACE': ''}

        def argv_of(cmd: str, tag: str) -> T.List[str]:
            return ['setup', '--backend=none', os.path.join(root, 'b' + tag)] if cmd == 'setup' else ['subprojects', 'download']

        def mons(tag: str, hold_fn: T.Optional[str] = None) -> list:
            return [M.make_wrap_monitor(facts['roles'], 'default', None),
                    M.make_concurrency_monitor(markdir, tag, subdir, hold_fn=hold_fn)]
        started = os.path.join(markdir, 'started.' + hold_key)
        # ---- run A: up to the hold point --------------------------------------------------------------------
        a = _Bg('A', root, argv_of(conc['cmd_a'], 'A'), src, env, mons('A', hold.split(':', 1)[1] if hold.startswith('fn:') else None))
        procs.append(a)
        _wait(lambda: os.path.exists(started) or a.done(), 100.0)
        if not os.path.exists(started):
            out['inconclusive'] = 'concurrent:hold-point-not-reached'
            return out
        c('monitor:hold-reached')
        held_tree = M.tree_digest(subdir)
        if held_tree != facts['expected_tree']:
            c('C:held-tree-differs-from-prepared-tree')
        # ---- run B: arrives while A is held; A goes on only when B is past helping or provably waits ---------
        b = _Bg('B', root, argv_of(conc['cmd_b'], 'B'), src, env, mons('B'))
        procs.append(b)
        lockwait = os.path.join(markdir, 'B.lockwait')
        decided = _wait(lambda: b.done() or os.path.exists(lockwait), 60.0)
        b_done_while_held = b.reaped
        if b_done_while_held:
            c('C:second-run-finished-while-first-held')
        elif decided:
            c('monitor:second-run-waits-for-wraplock')
        else:
            c('C:watchdog-release')      # neither finished nor seen waiting: go on, judged by what it accepted only
        M.touch_marker(markdir, 'release.' + hold_key, conc['release'])
        if not _wait(lambda: all([a.done(), b.done()]), 115.0) or a.res is None or b.res is None \
                or a.res['timed_out'] or b.res['timed_out']:
            out['inconclusive'] = 'concurrent:watchdog'
            return out
        c('B:runs', 2)
        expected = facts['expected_tree']
        base = {'part': 'C', 'spec': spec, 'second_run_finished_while_first_held': b_done_while_held}

        def brief(p: _Bg) -> dict:
            return {'rc': p.res['rc'], 'out_tail': p.res['out'][-1200:], 'err_tail': p.res['err'][-400:],
                    'events': [e for e in p.res['records'] if e['ev'] in ('wraplock', 'resolve-return', 'resolve-raise', 'hold', 'fault')]}

        def judge_run(p: _Bg, who: str) -> bool:
            """what a run ACCEPTED (at the return of Resolver.resolve, and what its build file printed)"""
            ok = p.res['rc'] == 0 and not p.res['traceback']
            for ev in p.res['records']:
                c('monitor:' + ev['ev'])
                if ev['ev'] == 'unpack':
                    c('rule:unpack-on-verified-bytes')
                    if ev['verdict'] not in ('ok', 'ok-hash-optional'):
                        out['violations'].append((f"integrity:unpack-of-unverified-bytes:{ev['role']}:concurrent:{ev['verdict']}",
                                                  dict(base, run=who, event=ev)))
                elif ev['ev'] == 'resolve-return':
                    c('rule:accepted-tree-is-fully-prepared')
                    if ev['tree'] != expected:
                        out['violations'].append((f'integrity:{who}-run-accepted-half-prepared-tree' +
                                                  (':first-run-still-in-patch-step' if ev.get('first_run_still_held') else ''),
                                                  dict(base, run=who, accepted=ev['tree'], expected=expected, **brief(p))))
            if ok and p.res['out'].count('MARKER|'):
                c('rule:configured-build-file-is-the-prepared-one')
                got = re.findall(r'MARKER\|([^\n]*)', p.res['out'])
                if facts.get('final_marker') and got[-1].strip() != facts['final_marker']:
                    out['violations'].append((f'integrity:{who}-run-configured-half-prepared-tree',
                                              dict(base, run=who, marker=got[-1], expected_marker=facts['final_marker'], **brief(p))))
            return ok
        a_ok = judge_run(a, 'first')
        b_ok = judge_run(b, 'concurrent')
        c('rule:concurrent-run-waits-or-fails')
        if not b_ok:
            c('obs:concurrent-run-failed')
            out['obs'].append('concurrent-run-failed')
        # the first run itself: released 'ok' it is the fault-free documented acquisition, released otherwise it fails
        if conc['release'] == 'ok':
            c('rule:documented-acquisition-succeeds')
            if not a_ok:
                out['violations'].append(('integrity:documented-acquisition-path-rejected', dict(base, run='first', **brief(a))))
        else:
            c('post:failed-run-dir-absent')
            if a_ok:
                out['violations'].append(('integrity:failed-patch-step-ignored', dict(base, run='first', **brief(a))))
        # after both: the directory is absent or fully prepared (whoever made it)
        c('post:no-half-prepared-directory-remains')
        if os.path.isdir(subdir):
            left = M.tree_digest(subdir)
            if left != expected:
                out['violations'].append(('integrity:concurrent-runs-left-half-prepared-directory',
                                          dict(base, left=left, expected=expected, first=brief(a), concurrent=brief(b))))
        elif a_ok or (b_ok and conc['cmd_b'] == 'setup'):
            out['violations'].append(('integrity:success-without-subproject-directory', dict(base, first=brief(a), concurrent=brief(b))))
        # ---- a third, fault-free run ----------------------------------------------------------------------
        env3 = {'PATH': _BIN, 'MESON_FORCE_BACKTRACE': ''}
        r3 = runner.meson(argv_of('setup', 'C'), cwd=src, env=env3, monitors=mons('C'), timeout=120)
        if r3.timed_out:
            out['inconclusive'] = 'timeout'
            return out
        c('B:runs')
        third = _Bg.__new__(_Bg)
        third.res = {'rc': r3.rc, 'out': r3.out, 'err': r3.err, 'records': r3.records, 'traceback': r3.traceback}
        t_ok = judge_run(third, 'third')
        c('post:successful-run-tree-complete')
        if not t_ok:
            out['violations'].append(('integrity:run-after-concurrent-runs-rejected', dict(base, **brief(third))))
        elif M.tree_digest(subdir) != expected:
            out['violations'].append(('integrity:configured-half-prepared-tree:after-concurrent-runs',
                                      dict(base, got=M.tree_digest(subdir), expected=expected, **brief(third))))
        out['cov'] = ['hold=' + hold, 'release=' + conc['release'], 'cmds=' + conc['cmd_a'] + '+' + conc['cmd_b'],
                      'world=' + ('overlay' if spec.get('patch') else 'patchdir' if spec.get('patch_directory') else 'diffs-only') +
                      ('/src-build' if spec.get('src_has_build', True) else '/no-src-build'),
                      'outcome=' + '/'.join('ok' if x else 'fail' for x in (a_ok, b_ok, t_ok)),
                      'second=' + ('finished-while-held' if b_done_while_held else 'waited' if decided else 'watchdog')]
        out['sample'] = {'spec': spec, 'runs': [a_ok, b_ok, t_ok], 'second_run': out['cov'][-1]}
        return out
    finally:
        for p in procs:
            p.kill()
        force_rmtree(root)


def c_specs(tier: str, rng: random.Random) -> T.List[dict]:
    role = G.b_default_role
    worlds = [
        # upstream sources with their own build file, two diffs (data file, then the build file)
        dict(source=role(loc='url', fmt='tar.gz'), patch=None, diffs='good', diff_build=True, src_has_build=True),
        # overlay archive + one diff, upstream without / with a build file
        dict(source=role(loc='cache', fmt='tar'), patch=role(loc='files', fmt='zip'), diffs='good', src_has_build=False),
        dict(source=role(loc='files', fmt='zip'), patch=role(loc='url', fmt='tar.gz'), diffs='good', src_has_build=True),
        # patch_directory + one diff
        dict(source=role(loc='url', fmt='tar'), patch=None, patch_directory=True, diffs='good', src_has_build=True),
    ]
    specs = []

    def add(w: int, hold: str, release: str, cmd_a: str, cmd_b: str) -> None:
        if hold == 'patchprog:2' and not worlds[w].get('diff_build'):
            return
        s = dict(worlds[w], fault=None, cmd='setup', wrap_mode='default',
                 conc={'hold': hold, 'release': release, 'cmd_a': cmd_a, 'cmd_b': cmd_b})
        specs.append(s)
    if tier == 'quick':
        add(0, 'patchprog:1', 'ok', 'setup', 'setup')
        add(0, 'patchprog:2', 'fail', 'setup', 'setup')
        add(1, 'patchprog:1', 'ok', 'download', 'setup')
        add(2, 'fn:apply_patch', 'ok', 'setup', 'setup')
        add(3, 'fn:apply_patch', 'fail', 'download', 'setup')
        add(2, 'fn:apply_diff_files', 'fail', 'setup', 'setup')
        add(1, 'fn:apply_patch', 'ok', 'setup', 'setup')
        add(3, 'patchprog:1', 'fail', 'setup', 'download')
    else:
        for w in range(len(worlds)):
            for hold in ('patchprog:1', 'patchprog:2', 'fn:apply_patch', 'fn:apply_diff_files'):
                for release in ('ok', 'fail'):
                    for cmd_a in ('setup', 'download'):
                        for cmd_b in ('setup', 'download'):
                            add(w, hold, release, cmd_a, cmd_b)
    return specs


# ====================================================================================================
# main
# ====================================================================================================
def _worker(item: T.Tuple[str, dict]) -> dict:
    kind, payload = item
    try:
        res = run_policy_world(payload) if kind == 'A' else (run_program_world(payload) if kind == 'P' else
                                                              run_concurrent_case(payload) if kind == 'C' else
                                                              run_wrap_case(payload))
    except Exception as e:   # harness trouble is inconclusive, never a verdict
        import traceback
        return {'kind': kind, 'counts': {}, 'violations': [], 'key': common.digest(payload), 'cov': [],
                'inconclusive': 'harness:' + repr(e) + traceback.format_exc()[-400:], 'sample': None, 'obs': []}
    res['kind'] = kind
    return res


def replay(chk: common.Check, path: str) -> int:
    with open(path, encoding='utf-8') as f:
        w = json.load(f)
    setup_scratch()
    runner.preload()
    if w.get('part') == 'A':
        res = run_policy_world(w['world'])
    elif w.get('part') == 'P':
        res = run_program_world(w['world'])
    elif w.get('part') == 'C':
        res = run_concurrent_case(w['spec'])
    else:
        res = run_wrap_case(w['spec'])
    mechs = sorted({m for m, _ in res['violations']})
    print(f'[{PID}] replay {path}: {"STILL FAILS " + ", ".join(mechs) if mechs else "no longer fails"}')
    known = {f['mechanism'] for f in common.load_known_findings() if f.get('property') == PID and f.get('status') == 'known'}
    return 1 if any(m not in known for m in mechs) else 0


def main() -> int:
    chk = common.Check(PID)
    if os.environ.get('VERIF_REPLAY'):
        return replay(chk, os.environ['VERIF_REPLAY'])
    R.selftest()
    setup_scratch()
    runner.preload()
    rng = chk.rng
    quick = chk.tier == 'quick'
    budget = 100.0 if quick else 1050.0
    items: T.List[T.Tuple[str, dict]] = []
    # ---- Part A -------------------------------------------------------------------------------------
    if quick:
        core = G.a_core_table(rng)
        cells = core + [c for c in G.a_pairwise_sample(rng, 220) if c not in core]
    else:
        cells = G.a_full_table()
    n_core = len(core) if quick else len(cells)
    for k, cell in enumerate(cells):
        cell = dict(cell, nfm=rng.choice([0, 0, 1, 2, 3]), sub_overrides=rng.random() < 0.5, eform=rng.choice(['pair', 'single']),
                    afform=rng.choice(['kw', 'emptyfb']), sub_download=rng.random() < 0.2,
                    optstyle=rng.choice(['D', 'long']))
        if k >= n_core or not quick:
            # the filler (and the thorough table) also varies static: and the default_library relation
            if rng.random() < 0.4:
                cell['static'] = rng.choice([True, False])
            if rng.random() < 0.4:
                cell.update(G.random_dl(rng, True))
        items.append(('A', G.a_cell_to_world(cell)))
    # static: x default_library (main vs subproject) for the link kinds that rely on the subproject's override
    static_cells = G.a_static_table(rng, full=not quick)
    # placed right after the core table: they belong to the prioritised part
    items[n_core:n_core] = [('A', G.a_cell_to_world(c)) for c in static_cells]
    n_core += len(static_cells)
    # version of the system dependency (incl. unknown) x constraint shapes; an unknown-version dependency remembered
    # from a lookup without constraint and then asked for with one (also the directed probe of the known finding)
    version_items = [('A', G.a_cell_to_world(c)) for c in G.a_version_table(rng, full=not quick)]
    version_items += [('A', wld) for wld in G.a_unknown_version_sequences(rng, 24 if quick else 120)]
    version_items += [('A', wld) for wld in G.a_missing_variable_worlds(rng, full=not quick)]
    items[n_core:n_core] = version_items
    n_core += len(version_items)
    n_cells = len(items)
    names = list(G.A_FACTORS)
    need = sum(len(G.A_FACTORS[a]) * len(G.A_FACTORS[b]) for i, a in enumerate(names) for b in names[i + 1:])
    got = len({(a, c[a], b, c[b]) for c in cells for i, a in enumerate(names) for b in names[i + 1:]})
    chk.notes['pairwise_factor_value_pairs'] = {'needed': need, 'covered_by_planned_cells': got}
    for wld in G.a_sequence_worlds(rng, 100 if quick else 2500):
        items.append(('A', wld))
    for wld in G.a_reconfigure_worlds(rng, 80 if quick else 900):
        items.append(('A', wld))
    for wld in G.a_failing_sub_worlds(rng, 60 if quick else 800):
        items.append(('A', wld))
    for wld in G.a_nested_worlds(rng, 50 if quick else 500):
        items.append(('A', wld))
    # the dependency's NAME is a factor of every world (own generator: the other draws stay what they were): a plain
    # name, spellings with upper-case characters (the same spelling everywhere), names meson serves through several
    # detection methods; plus lookup sequences whose earlier lookups were left unsatisfied (mostly such names)
    nrng = random.Random(chk.seed * 1000003 + 10)
    relookups = G.a_relookup_worlds(nrng, 64 if quick else 640)
    for wld in relookups:
        items.append(('A', wld))
    G.assign_names([wld for _kind, wld in items], nrng)
    # a third of the worlds with a subproject: its dependency takes its version from the subproject's project()
    for _kind, wld in items:
        if wld.get('sub') and not wld.get('sub_download') and rng.random() < 0.33:
            wld['implicit_ver'] = True
    n_a = len(items)
    # ---- Part B -------------------------------------------------------------------------------------
    bspecs = b_specs(chk.tier, rng)
    if quick and len(bspecs) > 330:
        # keep every fault case and every corruption/hash case once; trim the rest by the seed
        bspecs = bspecs[:330]
    items += [('B', s) for s in bspecs]
    # programs provided by a wrap file (program_names), the name spelled with and without upper-case characters
    items += [('P', w) for w in G.p_worlds(nrng, 12 if quick else 96)]
    # two processes on one source tree, the first held between unpack and the end of patch/diff
    cspecs = c_specs(chk.tier, rng)
    items += [('C', s) for s in cspecs]
    chk.notes['planned_concurrent_cases'] = len(cspecs)
    chk.notes['planned'] = {'A_relookup_sequences': len(relookups), 'P_program_worlds': 12 if quick else 96, 'A_cells': n_cells, 'A_static_table_cells': len(static_cells), 'A_version_cells': len(version_items), 'A_sequences': n_a - n_cells, 'B_cases': len(items) - n_a - len(cspecs)}

    # run in slices so that the time budget can stop the exploration (counted, never silent)
    t0 = time.time()
    results: T.List[dict] = []
    step = max(chk.jobs * 8, 64)
    # priority: the exhaustive core interaction table and every integrity case first (shuffled together so that
    # slow and fast cases mix), then the random filler (pairwise sample, sequences, reconfigurations): a time cut
    # on a loaded machine trims only the filler
    first = list(range(n_core)) + list(range(n_a, len(items)))
    rest = list(range(n_core, n_a))
    rng.shuffle(rest)
    # ... but a share of every filler family (sequences, reconfigurations, failing subprojects are the only place where
    # some rules are evaluated at all) belongs to the prioritised part, so that a cut leaves every monitor reached
    fam: T.Dict[str, T.List[int]] = {}
    for j in rest:
        wld = items[j][1]
        key = 'relookup' if wld.get('relookup') else 'nested' if wld.get('nested') else 'reconf' if wld.get('phase2') else ('failing' if wld.get('side_overrides') else
                                                  ('seq' if len(wld['seq']) != 2 or not _same_args(*wld['seq']) else 'cell'))
        fam.setdefault(key, []).append(j)
    promoted = [j for key, js in sorted(fam.items()) for j in js[:(45 if quick else 200)]]
    first += promoted
    rest = [j for j in rest if j not in set(promoted)]
    rng.shuffle(first)
    # the small directed families go to the very front: under any load they are explored
    front = [j for j in range(len(items)) if items[j][0] in ('P', 'C') or (items[j][0] == 'A' and items[j][1].get('relookup'))]
    fset = set(front)
    order = front + [j for j in first if j not in fset] + [j for j in rest if j not in fset]
    skipped = 0
    for i in range(0, len(order), step):
        if time.time() - t0 > budget:
            skipped = len(order) - i
            break
        batch = [items[j] for j in order[i:i + step]]
        results += common.pmap(_worker, batch, chk.jobs)
    if skipped:
        chk.count('skipped:time-budget', skipped)

    cov: T.Dict[str, int] = {}
    obs: T.Dict[str, int] = {}
    for res in results:
        if res['inconclusive']:
            chk.inconclusive_case(res['inconclusive'][:40])
            if res['inconclusive'].startswith('harness'):
                chk.notes.setdefault('harness_errors', []).append(res['inconclusive'][:400])
            continue
        chk.case(res['kind'] + res['key'])
        chk.count(f"{res['kind']}:cases")
        chk.merge_counts(res['counts'])
        for cv in res['cov']:
            cov[res['kind'] + ':' + cv] = cov.get(res['kind'] + ':' + cv, 0) + 1
        for o in res.get('obs', []):
            obs[o] = obs.get(o, 0) + 1
        for mech, wit in res['violations']:
            chk.violation(mech, wit)
    # samples: a few of each part
    for kind in ('A', 'B', 'P', 'C'):
        for res in [r for r in results if r['kind'] == kind and r['sample']][:(4 if kind in 'AB' else 1)]:
            chk.sample(res['sample'])

    for name, minimum in (('monitor:lookup-begin', 100), ('monitor:fed', 50), ('monitor:do_subproject', 50),
                          ('monitor:candidates', 100), ('rule:documented-answer', 100), ('rule:repeat-same-answer', 100), ('A:reconfigurations', 20), ('rule:side-override-visible-iff-subproject-configured', 20),
                          ('rule:forced-no-system', 20), ('rule:override-no-system', 20), ('rule:no-subproject-from-lookup', 20),
                          ('rule:documented-answer:name-plain', 100), ('rule:documented-answer:name-case', 100),
                          ('rule:documented-answer:name-factory', 100), ('rule:relookup-after-unsatisfied', 30),
                          ('rule:relookup-after-unsatisfied:name-factory', 15), ('rule:provide-link:names:name-case', 10),
                          ('rule:provide-link:var:name-case', 10), ('rule:provide-link:wrapname:name-case', 2),
                          ('rule:program-provided-by-wrap', 8),
                          ('monitor:unpack', 50), ('monitor:check_hash', 20), ('monitor:urlopen', 50),
                          ('monitor:get_data', 50), ('monitor:copy_tree', 3),
                          ('rule:unpack-on-verified-bytes', 50), ('rule:nodownload-no-fetch', 50),
                          ('post:failed-run-dir-absent', 50), ('post:successful-run-tree-complete', 20),
                          ('post:cache-entry-verified', 20), ('rule:documented-acquisition-succeeds', 10),
                          ('rule:unverifiable-world-rejected', 30), ('monitor:fault', 10),
                          ('monitor:hold-reached', 6), ('C:held-tree-differs-from-prepared-tree', 6),
                          ('rule:concurrent-run-waits-or-fails', 6), ('rule:accepted-tree-is-fully-prepared', 12),
                          ('rule:configured-build-file-is-the-prepared-one', 8), ('monitor:wraplock', 12),
                          ('post:no-half-prepared-directory-remains', 6)):
        chk.require(name, minimum)
    return chk.finish(
        rule='Part A: one case = one configuration (world x lookup sequence) keyed by its structural digest; a decision-table '
             'cell issues its lookup twice. Part B: one case = wrap world (location x corruption x recorded-hash class x '
             'fault x command) run twice (with the fault, then without), keyed by the digest of its specification. '
             'Concurrent cases: wrap world x hold point (n-th invocation of patch / entry of apply_patch / entry of '
             'apply_diff_files) x how the held step ends x commands of the two runs; a third run follows.',
        assumptions=['system dependencies are pkg-config files only (private PKG_CONFIG_LIBDIR; cmake hidden from PATH); '
                     'for names with several detection methods every other method finds nothing (no compiler, no '
                     'config tools on PATH)',
                     'one spelling per dependency / program name within a world: differently-cased spellings of one name '
                     'are never mixed (the documents do not say whether names are case-sensitive)',
                     'wrap-file archives over file:// URLs only; git/hg/svn wraps out of scope',
                     'cells the documents leave open (refdeps tag "open") are checked for consistency only',
                     'time.sleep inside mesonbuild.wrap.wrap is skipped (download back-off) - timing only',
                     'a failed/partial unpack of the SOURCE archive leaving a directory is observed, not demanded '
                     '(the property speaks of failed patch/diff steps)'],
        exhaustive=(not quick and not skipped),
        extra={'cells': dict(sorted(cov.items())), 'observations': dict(sorted(obs.items()))})


if __name__ == '__main__':
    sys.exit(main())
