"""C19 — Version comparison is a consistent order and constraint logic is sound.

Runtime monitoring of the REAL mesonbuild.utils.universal code (Version, version_compare*, Range,
version_check_to_range, version_compare_condition_with_min) under an exhaustive finite workload:
the axioms of the property are evaluated as contracts on the results of the real functions; every
membership claim is decided by brute force over the whole version domain D with an independent
reference (vf/ref/c19_refversion.py).  A sample goes through a real `meson setup --backend=none`
with recording wrappers (vf/monitors/c19_version.py) proving the interpreter reaches
Range.intersect/always for `if meson.version().version_compare(...)`.

Phases (each a pmap over forked workers; workers return counts/witnesses/bitsets only):
  pairs     all ordered pairs of D: trichotomy, operator consistency, converse, hash, reference order
  trans     all triples of D through the recorded <= matrix (bitset inclusion) + direct real calls
            on triples of a subdomain
  vc        version_compare(a, op+b) for all pairs x all 8 operator spellings (+ stray blanks sample)
  many      version_compare_many == conjunction, found/not_found partition, for lists of length <= 3
  contains  Range.__contains__ / construction for all range specs over bounds B, all v in D
  ranges    intersect(r1, r2) membership iff both; always() soundness (+ docstring completeness on
            closed ranges); for all ordered pairs of range specs
  to_range  version_check_to_range(cs) superset of "all checks hold", subset of "non-!= checks hold"
  cond_min  version_compare_condition_with_min: True => no satisfying version below minimum;
            False => one exists (unless the range has no closed minimum: counted, not judged)
  meson     'x'.version_compare(...) samples and meson_version narrowing in real meson setups
"""
from __future__ import annotations

import json
import operator
import os
import sys
import time
import typing as T

from vf import common, runner
from vf.gen import gen_versions as gen
from vf.ref import c19_refversion as ref

common.use_repo()

PID = 'C19'
G: T.Dict[str, T.Any] = {}          # read-only state shared with forked workers
MAXW = 6                            # witnesses kept per mechanism per worker

CANON = {'>=': '>=', '<=': '<=', '!=': '!=', '==': '==', '=': '==', '>': '>', '<': '<', '': '=='}
PYOP = {'>=': operator.ge, '<=': operator.le, '!=': operator.ne, '==': operator.eq, '>': operator.gt, '<': operator.lt}


def U() -> T.Any:
    from mesonbuild.utils import universal
    return universal


# =============================================================================================
# Detail predicates: one concrete case -> list of (mechanism, witness).  Used for witnesses and replay.
# =============================================================================================

def pair_findings(sa: str, sb: str) -> T.List[T.Tuple[str, dict]]:
    Version = U().Version
    a, b = Version(sa), Version(sb)
    out: T.List[T.Tuple[str, dict]] = []
    r = {'lt': a < b, 'le': a <= b, 'gt': a > b, 'ge': a >= b, 'eq': a == b, 'ne': a != b,
         'rlt': b < a, 'rle': b <= a, 'rgt': b > a, 'rge': b >= a, 'req': b == a}
    w = {'kind': 'pair', 'a': sa, 'b': sb, 'observed': {k: repr(v) for k, v in r.items()}}
    if any(not isinstance(v, bool) for v in r.values()):
        return [('order:non-bool-result', w)]
    if r['lt'] + r['eq'] + r['gt'] != 1:
        out.append(('order:trichotomy', w))
    if r['le'] != (r['lt'] or r['eq']):
        out.append(('order:le-is-not-lt-or-eq', w))
    if r['ge'] != (r['gt'] or r['eq']):
        out.append(('order:ge-is-not-gt-or-eq', w))
    if r['ne'] == r['eq']:
        out.append(('order:ne-is-not-negated-eq', w))
    if r['lt'] != r['rgt'] or r['gt'] != r['rlt'] or r['le'] != r['rge'] or r['ge'] != r['rle']:
        out.append(('order:converse', w))
    if r['eq'] != r['req']:
        out.append(('order:eq-not-symmetric', w))
    if r['eq'] and hash(a) != hash(b):
        out.append(('order:equal-but-hash-differs', w))
    if sa == sb and not r['eq']:
        out.append(('order:not-reflexive', w))
    c = ref.cmp(sa, sb)
    obs = {'lt': c < 0, 'le': c <= 0, 'gt': c > 0, 'ge': c >= 0, 'eq': c == 0, 'ne': c != 0}
    bad = [k for k in obs if r[k] != obs[k]]
    if bad:
        w2 = dict(w, expected_sign=c, disagree=bad, ref_tokens=[list(ref.tokens(sa)), list(ref.tokens(sb))])
        out.append(('ref-order:' + ref.first_difference(sa, sb), w2))
    return out


def triple_findings(sa: str, sb: str, sc: str) -> T.List[T.Tuple[str, dict]]:
    Version = U().Version
    a, b, c = Version(sa), Version(sb), Version(sc)
    out = []
    w = {'kind': 'triple', 'a': sa, 'b': sb, 'c': sc}
    if a <= b and b <= c and not a <= c:
        out.append(('order:transitivity-le', w))
    if a < b and b < c and not a < c:
        out.append(('order:transitivity-lt', w))
    if a == b and b == c and not a == c:
        out.append(('order:transitivity-eq', w))
    if a < b and b <= c and not a < c:
        out.append(('order:transitivity-mixed', w))
    return out


def vc_findings(sa: str, spec: str) -> T.List[T.Tuple[str, dict]]:
    u = U()
    p = ref.parse_constraint(spec)
    got = u.version_compare(sa, spec)
    w = {'kind': 'vc', 'a': sa, 'spec': spec, 'got': repr(got)}
    if not isinstance(got, bool):
        return [('vc:non-bool-result', w)]
    if p is None:
        return []
    op, sb = p
    out = []
    by_order = PYOP[op](u.Version(sa), u.Version(sb))
    by_ref = ref.OPS[op](ref.cmp(sa, sb))
    if got != by_order:
        out.append(('vc:disagrees-with-Version-order', dict(w, version_operator_says=by_order, op=op, b=sb)))
    if got != by_ref:
        out.append(('vc:disagrees-with-reference:' + ref.first_difference(sa, sb), dict(w, reference_says=by_ref, op=op, b=sb)))
    return out


def many_findings(v: str, cs: T.Sequence[str], form: str = 'list') -> T.List[T.Tuple[str, dict]]:
    u = U()
    arg: T.Any
    if form == 'str':
        arg = cs[0]
    elif form == 'tuple':
        arg = tuple(cs)
    elif form == 'iter':
        arg = iter(list(cs))
    else:
        arg = list(cs)
    res = u.version_compare_many(v, arg)
    each = [u.version_compare(v, c) for c in cs]
    w = {'kind': 'many', 'v': v, 'cs': list(cs), 'form': form, 'got': repr(res), 'each': each}
    out = []
    try:
        ok, not_found, found = res
    except Exception:
        return [('many:bad-result-shape', w)]
    if ok is not all(each):
        out.append(('many:not-conjunction', w))
    if list(not_found) != [c for c, e in zip(cs, each) if not e] or list(found) != [c for c, e in zip(cs, each) if e]:
        out.append(('many:found-not_found-partition', w))
    for c, e in zip(cs, each):
        s = ref.satisfies(v, c)
        if s is not None and s != e:
            out.append(('many:constraint-disagrees-with-reference', dict(w, constraint=c, reference_says=s)))
            break
    return out


def mk_range(spec: T.Sequence[T.Any]) -> T.Any:
    u = U()
    lo, lo_eq, hi, hi_eq = spec[:4]
    return u.Range(min=None if lo is None else u.Version(lo), min_eq=bool(lo_eq),
                   max=None if hi is None else u.Version(hi), max_eq=bool(hi_eq))


def rebuild_range(d: dict) -> T.Any:
    """A real Range with exactly the recorded field values (no __post_init__ normalisation)."""
    u = U()
    r = u.Range()
    r.min = None if d['min'] is None else u.Version(d['min'])
    r.max = None if d['max'] is None else u.Version(d['max'])
    r.min_eq, r.max_eq, r.is_empty = d['min_eq'], d['max_eq'], d['is_empty']
    return r


def rkey(r: T.Any) -> T.Tuple:
    return (None if r.min is None else r.min._s, r.min_eq, None if r.max is None else r.max._s, r.max_eq, r.is_empty)


def rdata(r: T.Any) -> dict:
    k = rkey(r)
    return {'min': k[0], 'min_eq': k[1], 'max': k[2], 'max_eq': k[3], 'is_empty': k[4]}


def contains_findings(spec: T.Sequence[T.Any], probes: T.Sequence[str]) -> T.List[T.Tuple[str, dict]]:
    u = U()
    r = mk_range(spec)
    for v in probes:
        got = u.Version(v) in r
        exp = ref.in_spec(tuple(spec[:4]), v)   # type: ignore[arg-type]
        if got != exp:
            why = 'contains:constructed-empty-but-has-member' if r.is_empty else \
                  ('contains:boundary' if any(b is not None and ref.cmp(v, b) == 0 for b in (spec[0], spec[2])) else 'contains:interior')
            return [(why, {'kind': 'contains', 'spec': list(spec[:4]), 'range': rdata(r), 'v': v, 'got': got, 'expected': exp})]
    return []


def intersect_findings(s1: T.Sequence[T.Any], s2: T.Sequence[T.Any], probes: T.Sequence[str]) -> T.List[T.Tuple[str, dict]]:
    u = U()
    r1, r2 = mk_range(s1), mk_range(s2)
    k1, k2 = rkey(r1), rkey(r2)
    res = r1.intersect(r2)
    w0 = {'kind': 'intersect', 'r1': list(s1[:4]), 'r2': list(s2[:4]), 'result': rdata(res)}
    if rkey(r1) != k1 or rkey(r2) != k2:
        return [('intersect:mutates-operand', w0)]
    for v in probes:
        vv = u.Version(v)
        got = vv in res
        exp = ref.in_spec(tuple(s1[:4]), v) and ref.in_spec(tuple(s2[:4]), v)   # type: ignore[arg-type]
        if got != exp:
            on_bound = any(b is not None and ref.cmp(v, b) == 0 for b in (s1[0], s1[2], s2[0], s2[2]))
            mech = 'intersect:' + ('drops-common-member' if exp else 'keeps-non-member') + ('-at-bound' if on_bound else '')
            return [(mech, dict(w0, v=v, in_result=got, in_r1=vv in r1, in_r2=vv in r2))]
    return []


def always_findings(so: T.Sequence[T.Any], si: T.Sequence[T.Any], probes: T.Sequence[str]) -> T.List[T.Tuple[str, dict]]:
    outer, inner = mk_range(so), mk_range(si)
    res = outer.always(inner)
    w0 = {'kind': 'always', 'outer': list(so[:4]), 'inner': list(si[:4]), 'got': res}
    if res not in (True, False, None):
        return [('always:bad-result', w0)]
    tso, tsi = tuple(so[:4]), tuple(si[:4])
    for v in probes:
        if not ref.in_spec(tso, v):    # type: ignore[arg-type]
            continue
        inside = ref.in_spec(tsi, v)   # type: ignore[arg-type]
        if res is True and not inside:
            return [('always:true-but-member-outside-inner', dict(w0, v=v))]
        if res is False and inside:
            return [('always:false-but-member-inside-inner', dict(w0, v=v))]
    exp = closed_expectation(tso, tsi)
    if exp != 'n/a' and res is None and exp is not None:
        return [('always:indeterminate-on-decidable-closed-ranges', dict(w0, docstring_says=exp))]
    return []


def spec_truly_empty(spec: T.Tuple) -> bool:
    """Contradictory bounds (not merely "no version of D in between")."""
    lo, lo_eq, hi, hi_eq = spec
    if lo is None or hi is None:
        return False
    c = ref.cmp(lo, hi)
    return c > 0 or (c == 0 and not (lo_eq and hi_eq))


def closed_expectation(so: T.Tuple, si: T.Tuple) -> T.Any:
    """Docstring of Range.always, demanded only where it is exact: both ranges closed, outer non-empty,
    no bound equal to the least version."""
    if not (ref.spec_closed(so) and ref.spec_closed(si)):
        return 'n/a'
    for b in (so[0], so[2], si[0], si[2]):
        if b is not None and not ref.tokens(b):
            return 'n/a'
    for s in (so, si):
        if s[0] is not None and s[2] is not None and ref.cmp(s[0], s[2]) > 0:
            return 'n/a'
    return ref.closed_always(so, si)


def to_range_findings(cs: T.Sequence[str], probes: T.Sequence[str], start: T.Optional[T.Sequence[T.Any]] = None) -> T.List[T.Tuple[str, dict]]:
    u = U()
    arg = list(cs)
    if start is None:
        r = u.version_check_to_range(arg)
    else:
        st = mk_range(start)
        ks = rkey(st)
        r = u.version_check_to_range(arg, st)
        if rkey(st) != ks:
            return [('to_range:mutates-start', {'kind': 'to_range', 'cs': list(cs), 'start': list(start[:4])})]
    w0 = {'kind': 'to_range', 'cs': list(cs), 'start': None if start is None else list(start[:4]), 'range': rdata(r)}
    if arg != list(cs):
        return [('to_range:mutates-checks', w0)]
    parsed = [ref.parse_constraint(c) for c in cs]
    if any(p is None for p in parsed):
        return []
    has_ne = any(p[0] == '!=' for p in parsed)   # type: ignore[index]
    for v in probes:
        in_start = True if start is None else ref.in_spec(tuple(start[:4]), v)   # type: ignore[arg-type]
        sat = [ref.OPS[p[0]](ref.cmp(v, p[1])) for p in parsed]   # type: ignore[index]
        got = u.Version(v) in r
        if in_start and all(sat) and not got:
            return [('to_range:excludes-version-satisfying-all-checks' + ('(with-!=)' if has_ne else ''), dict(w0, v=v))]
        viol = [c for c, p, s in zip(cs, parsed, sat) if not s and p[0] != '!=']   # type: ignore[index]
        if got and (viol or not in_start):
            return [('to_range:includes-version-violating-a-non-!=-check', dict(w0, v=v, violated=viol))]
    return []


def cond_min_findings(cond: T.Any, minimum: str, probes: T.Sequence[str]) -> T.List[T.Tuple[str, dict]]:
    """cond: constraint string, or a range spec (list of 4)."""
    u = U()
    if isinstance(cond, str):
        p = ref.parse_constraint(cond)
        if p is None:
            return []
        res = u.version_compare_condition_with_min(cond, minimum)
        rng = u.version_check_to_range([cond])
        member = lambda v: ref.OPS[p[0]](ref.cmp(v, p[1]))   # noqa: E731
    else:
        rng = mk_range(cond)
        res = u.version_compare_condition_with_min(rng, minimum)
        member = lambda v: ref.in_spec(tuple(cond[:4]), v)   # noqa: E731
    w0 = {'kind': 'cond_min', 'cond': cond if isinstance(cond, str) else list(cond[:4]), 'minimum': minimum, 'got': repr(res)}
    if not isinstance(res, bool):
        return [('cond_min:non-bool-result', w0)]
    below = [v for v in probes if member(v) and ref.cmp(v, minimum) < 0]
    if res and below:
        return [('cond_min:true-but-satisfying-version-below-minimum', dict(w0, v=min(below, key=len)))]
    if not res and not below:
        if not isinstance(cond, str) and spec_truly_empty(tuple(cond[:4])):
            # no version at all satisfies the condition: "every satisfying version is >= minimum" holds vacuously
            # (code comment: "is_empty=True instead behaves like an absurdly high min and returns True")
            return [('cond_min:false-on-contradictory-range', dict(w0, range=rdata(rng)))]
        if not rng.is_empty and rng.min is not None and rng.min_eq:
            return [('cond_min:false-but-closed-minimum-not-below', dict(w0, range=rdata(rng)))]
        return [('~gap', w0)]     # not a finding: no closed minimum, nothing in D below — unverifiable
    return []


# =============================================================================================
# Bulk workers (fast paths; any anomaly is re-derived through the detail predicates above)
# =============================================================================================

class Acc:
    def __init__(self) -> None:
        self.counts: T.Dict[str, int] = {}
        self.viol: T.List[T.Tuple[str, dict]] = []
        self.per: T.Dict[str, int] = {}
        self.extra: T.Dict[str, T.Any] = {}

    def n(self, k: str, v: int = 1) -> None:
        self.counts[k] = self.counts.get(k, 0) + v

    def add(self, fs: T.Any, fallback: T.Optional[dict] = None) -> None:
        if callable(fs):
            if self.counts.get('violations_seen', 0) >= 300:
                self.n('violations_seen')
                self.n('violations_not_classified(cap)')
                return
            fs = fs()
        fs = list(fs)
        if not fs and fallback is not None:
            self.n('harness:fastpath-not-confirmed')
            fs = []
        for mech, w in fs:
            if mech == '~gap':
                self.n('cond_min:false-unverifiable-gap')
                continue
            self.n('violations_seen')
            self.per[mech] = self.per.get(mech, 0) + 1
            if self.per[mech] <= MAXW:
                self.viol.append((mech, w))

    def ret(self) -> dict:
        return {'counts': self.counts, 'viol': self.viol, 'per': self.per, 'extra': self.extra}


def overdue() -> bool:
    return time.time() > G['deadline']


def bits(m: int) -> T.Iterator[int]:
    while m:
        low = m & -m
        yield low.bit_length() - 1
        m ^= low


def pick(m: int) -> str:
    """Shortest version string among the set bits (witness minimisation)."""
    D = G['D']
    return min((D[i] for i in bits(m)), key=lambda s: (len(s), s))


def w_pairs(rows: T.Sequence[int]) -> dict:
    acc = Acc()
    D, V, H, RT, PAT = G['D'], G['V'], G['H'], G['RT'], G['PAT']
    cmpt = ref.cmp_tokens
    n = len(D)
    sigs: T.Set[T.Tuple[str, str, int]] = set()
    le_rows: T.Dict[int, int] = {}
    eq_rows: T.Dict[int, int] = {}
    npairs = 0
    for ia in rows:
        if overdue():
            acc.n('truncated:pairs', n)
            continue
        a, ha, ta, pa = V[ia], H[ia], RT[ia], PAT[ia]
        lerow = eqrow = 0
        for ib in range(n):
            b = V[ib]
            lt, le, gt, ge, eq, ne = a < b, a <= b, a > b, a >= b, a == b, a != b
            c = cmpt(ta, RT[ib])
            sigs.add((pa, PAT[ib], c))
            if c < 0:
                ok = lt is True and le is True and gt is False and ge is False and eq is False and ne is True
            elif c > 0:
                ok = lt is False and le is False and gt is True and ge is True and eq is False and ne is True
            else:
                ok = lt is False and le is True and gt is False and ge is True and eq is True and ne is False and ha == H[ib]
            if ok:
                ok = (b > a) is lt and (b < a) is gt and (b >= a) is le and (b <= a) is ge and (b == a) is eq
            if not ok:
                acc.add(lambda: pair_findings(D[ia], D[ib]), fallback={})
            if le is True:
                lerow |= 1 << ib
            if eq is True:
                eqrow |= 1 << ib
        npairs += n
        le_rows[ia] = lerow
        eq_rows[ia] = eqrow
    acc.n('monitor:order-axioms(pairs)', npairs)
    acc.n('monitor:reference-order(pairs)', npairs)
    acc.n('monitor:hash-consistency(pairs)', npairs)
    acc.n('real-calls:Version-comparisons', npairs * 11)
    acc.extra['le'] = le_rows
    acc.extra['sigs'] = sorted(sigs)
    acc.extra['eq'] = eq_rows
    return acc.ret()


def w_triples(rows: T.Sequence[int]) -> dict:
    acc = Acc()
    D, V, Tn = G['D'], G['V'], G['T']
    cnt = 0
    for ia in rows:
        if overdue():
            acc.n('truncated:triples', len(Tn) ** 2)
            continue
        a = V[ia]
        for ib in Tn:
            b = V[ib]
            ab_le, ab_lt, ab_eq = a <= b, a < b, a == b
            if not ab_le:
                cnt += len(Tn)
                continue
            for ic in Tn:
                c = V[ic]
                bc_le = b <= c
                if bc_le:
                    bad = not a <= c
                    if not bad and ab_lt:
                        bad = not a < c
                    elif not bad and ab_eq and b == c:
                        bad = not a == c
                    if not bad and b < c:
                        bad = not a < c
                    if bad:
                        acc.add(lambda: triple_findings(D[ia], D[ib], D[ic]), fallback={})
            cnt += len(Tn)
    acc.n('monitor:transitivity(direct-triples)', cnt)
    return acc.ret()


def w_vc(rows: T.Sequence[int]) -> dict:
    acc = Acc()
    D, V, RT, COLS = G['D'], G['V'], G['RT'], G['VCIDX']
    vc = U().version_compare
    cmpt = ref.cmp_tokens
    n = len(D)
    ops = [(sp, PYOP[CANON[sp]], ref.OPS[CANON[sp]]) for sp in gen.OPERATORS]
    stride, phase = G['space_stride'], G['space_phase']
    calls = spaced = 0
    cells: T.Dict[str, int] = {}
    for ia in rows:
        if overdue():
            acc.n('truncated:vc', len(COLS))
            continue
        sa, a, ta = D[ia], V[ia], RT[ia]
        for ib in COLS:
            sb, b = D[ib], V[ib]
            c = cmpt(ta, RT[ib])
            for sp, pyop, rop in ops:
                got = vc(sa, sp + sb)
                if got is not pyop(a, b) or got is not rop(c):
                    acc.add(lambda: vc_findings(sa, sp + sb), fallback={})
            calls += len(ops)
            if (ia * n + ib) % stride == phase:
                for form in gen.SPACE_FORMS:
                    for sp, pyop, rop in ops:
                        if sp == '':
                            continue
                        spec = form.format(op=sp, v=sb)
                        got = vc(sa, spec)
                        if got is not pyop(a, b):
                            acc.add(lambda: vc_findings(sa, spec), fallback={})
                        spaced += 1
    for sp in gen.OPERATORS:
        cells['op:' + (sp or '<none>')] = calls // len(gen.OPERATORS)
    acc.n('monitor:version_compare(op-spellings)', calls)
    acc.n('monitor:version_compare(stray-blanks)', spaced)
    acc.extra['cells'] = cells
    return acc.ret()


def w_many(items: T.Sequence[T.Tuple[str, ...]]) -> dict:
    acc = Acc()
    u = U()
    VM, SAT = G['VM'], G['SAT']
    many = u.version_compare_many
    cnt = 0
    for cs in items:
        if overdue():
            acc.n('truncated:many', len(VM))
            continue
        lcs = list(cs)
        for v in VM:
            sat = SAT[v]
            res = many(v, lcs)
            each = [sat[c] for c in cs]
            ok = (isinstance(res, tuple) and len(res) == 3 and res[0] is all(each)
                  and res[1] == [c for c, e in zip(cs, each) if not e] and res[2] == [c for c, e in zip(cs, each) if e])
            if not ok:
                acc.add(lambda: many_findings(v, cs), fallback={})
            cnt += 1
    acc.n('monitor:version_compare_many(conjunction+partition)', cnt)
    return acc.ret()


def member_real(r: T.Any) -> int:
    """Bitset over D of the versions the real Range claims to contain (memo on the field values)."""
    memo = G['memo']
    k = rkey(r)
    m = memo.get(k)
    if m is None:
        m = 0
        for i, v in enumerate(G['V']):
            if v in r:
                m |= 1 << i
        memo[k] = m
        G['memo_new'] = G.get('memo_new', 0) + 1
    return m


def w_contains(idx: T.Sequence[int]) -> dict:
    acc = Acc()
    S, RG, MR, V = G['S'], G['RG'], G['MR'], G['V']
    out: T.Dict[int, int] = {}
    cnt = 0
    for i in idx:
        r = RG[i]
        m = 0
        for j, v in enumerate(V):
            if v in r:
                m |= 1 << j
        cnt += len(V)
        out[i] = m
        if m != MR[i]:
            acc.add(lambda: contains_findings(S[i], [pick(m ^ MR[i])]), fallback={})
        if r.is_empty and MR[i]:
            acc.add(lambda: contains_findings(S[i], [pick(MR[i])]), fallback={})
    acc.n('monitor:Range.__contains__(spec x version)', cnt)
    acc.extra['m'] = out
    return acc.ret()


def w_ranges(idx: T.Sequence[int]) -> dict:
    acc = Acc()
    S, RG, MR = G['S'], G['RG'], G['MR']
    n = len(S)
    keys = G['KEYS']
    cells = {'always:True': 0, 'always:False': 0, 'always:None': 0, 'intersect:empty': 0, 'intersect:nonempty': 0,
             'always-closed:decidable': 0}
    closed = G['CLOSED']
    cnt = 0
    for i in idx:
        if overdue():
            acc.n('truncated:ranges', n)
            continue
        r1, m1 = RG[i], MR[i]
        for j in range(n):
            r2, m2 = RG[j], MR[j]
            res = r1.intersect(r2)
            both = m1 & m2
            mres = member_real(res)
            if mres != both:
                acc.add(lambda: intersect_findings(S[i], S[j], [pick(mres ^ both)]), fallback={})
            cells['intersect:empty' if res.is_empty else 'intersect:nonempty'] += 1
            al = r1.always(r2)
            if al is True:
                cells['always:True'] += 1
                if m1 & ~m2:
                    acc.add(lambda: always_findings(S[i], S[j], [pick(m1 & ~m2)]), fallback={})
            elif al is False:
                cells['always:False'] += 1
                if both:
                    acc.add(lambda: always_findings(S[i], S[j], [pick(both)]), fallback={})
            elif al is None:
                cells['always:None'] += 1
                if closed[i] and closed[j]:
                    exp = closed_expectation(S[i], S[j])
                    if exp != 'n/a' and exp is not None:
                        acc.add(lambda: always_findings(S[i], S[j], []), fallback={})
            else:
                acc.add(lambda: always_findings(S[i], S[j], []), fallback={})
            if closed[i] and closed[j]:
                cells['always-closed:decidable'] += 1
        cnt += n
        if rkey(r1) != keys[i]:
            acc.add([('intersect:mutates-operand', {'kind': 'intersect', 'r1': list(S[i]), 'r2': None, 'now': rdata(r1)})])
    for j in range(n):
        if rkey(RG[j]) != keys[j]:
            acc.add([('intersect:mutates-operand', {'kind': 'intersect', 'r1': None, 'r2': list(S[j]), 'now': rdata(RG[j])})])
            break
    acc.n('monitor:Range.intersect(membership-iff-both)', cnt)
    acc.n('monitor:Range.always(soundness)', cnt)
    acc.n('brute-force:member-bitsets-computed', G.get('memo_new', 0))
    acc.extra['cells'] = cells
    return acc.ret()


def w_to_range(items: T.Sequence[T.Tuple[str, ...]]) -> dict:
    acc = Acc()
    u = U()
    CS, ALL = G['CS'], G['ALL']
    to_range = u.version_check_to_range
    cnt = 0
    cells = {'to_range:with-!=': 0, 'to_range:empty-result': 0, 'to_range:len0': 0, 'to_range:len1': 0, 'to_range:len2': 0, 'to_range:len3': 0}
    for cs in items:
        if overdue():
            acc.n('truncated:to_range')
            continue
        r = to_range(list(cs))
        m = member_real(r)
        sat_all = sat_non_ne = ALL
        ne = False
        for c in cs:
            bs, is_ne = CS[c]
            sat_all &= bs
            if is_ne:
                ne = True
            else:
                sat_non_ne &= bs
        if sat_all & ~m:
            acc.add(lambda: to_range_findings(cs, [pick(sat_all & ~m)]), fallback={})
        if m & ~sat_non_ne:
            acc.add(lambda: to_range_findings(cs, [pick(m & ~sat_non_ne)]), fallback={})
        cnt += 1
        cells['to_range:len%d' % len(cs)] += 1
        if ne:
            cells['to_range:with-!='] += 1
        if r.is_empty:
            cells['to_range:empty-result'] += 1
    acc.n('monitor:version_check_to_range(superset-of-all,subset-of-non-!=)', cnt)
    acc.extra['cells'] = cells
    return acc.ret()


def w_to_range_start(items: T.Sequence[T.Tuple[int, str]]) -> dict:
    acc = Acc()
    u = U()
    S, RG, MR, CS, KEYS = G['S'], G['RG'], G['MR'], G['CS'], G['KEYS']
    cnt = 0
    for i, c in items:
        r = u.version_check_to_range([c], RG[i])
        m = member_real(r)
        bs, is_ne = CS[c]
        lo = MR[i] & bs
        hi = MR[i] if is_ne else lo
        if (lo & ~m) or (m & ~hi) or rkey(RG[i]) != KEYS[i]:
            acc.add(lambda: to_range_findings([c], [pick((lo & ~m) | (m & ~hi))] if (lo & ~m) | (m & ~hi) else [], start=S[i]), fallback={})
        cnt += 1
    acc.n('monitor:version_check_to_range(start=)', cnt)
    return acc.ret()


def w_cond_min(items: T.Sequence[T.Tuple[str, T.Any]]) -> dict:
    acc = Acc()
    u = U()
    S, RG, MR, CS, MINS, BELOW = G['S'], G['RG'], G['MR'], G['CS'], G['MINS'], G['BELOW']
    fn = u.version_compare_condition_with_min
    cnt = 0
    cells = {'cond_min:True': 0, 'cond_min:False': 0}
    for kind, x in items:
        if kind == 'c':
            cond: T.Any = x
            sat = CS[x][0]
            rng = u.version_check_to_range([x])
            wcond: T.Any = x
        else:
            cond = rng = RG[x]
            sat = MR[x]
            wcond = list(S[x])
        closed_min = ((not rng.is_empty) and rng.min is not None and rng.min_eq) or (kind == 'r' and spec_truly_empty(S[x]))
        for mn in MINS:
            res = fn(cond, mn)
            wit = sat & BELOW[mn]
            if res is True:
                cells['cond_min:True'] += 1
                if wit:
                    acc.add(lambda: cond_min_findings(wcond, mn, [pick(wit)]), fallback={})
            elif res is False:
                cells['cond_min:False'] += 1
                if not wit:
                    if closed_min:
                        acc.add(lambda: cond_min_findings(wcond, mn, []), fallback={})
                    else:
                        acc.n('cond_min:false-unverifiable-gap')
            else:
                acc.add(lambda: cond_min_findings(wcond, mn, []), fallback={})
            cnt += 1
    acc.n('monitor:version_compare_condition_with_min', cnt)
    acc.extra['cells'] = cells
    return acc.ret()


# =============================================================================================
# Parent-side orchestration
# =============================================================================================

def absorb(chk: common.Check, results: T.Sequence[dict], cells: T.Dict[str, int]) -> None:
    seen = G.setdefault('parent_per_mech', {})
    for r in results:
        chk.merge_counts(r['counts'])
        for mech, n in r['per'].items():
            chk.count('violations-by-mechanism:' + mech, n)
        for mech, w in r['viol']:
            seen[mech] = seen.get(mech, 0) + 1
            if seen[mech] <= 3 or mech in chk.known:     # keep room for other mechanisms (Check stores 50)
                chk.violation(mech, w)
        for k, v in r['extra'].get('cells', {}).items():
            cells[k] = cells.get(k, 0) + v


def run_phase(chk: common.Check, name: str, fn: T.Callable, items: T.Sequence, budget: float, cells: T.Dict[str, int],
              grain: int = 4) -> T.List[dict]:
    t0 = time.time()
    G['deadline'] = t0 + budget
    # interleaved chunks: balanced load, deterministic
    k = max(1, min(len(items), chk.jobs * grain))
    parts = [items[i::k] for i in range(k)]
    parts = [p for p in parts if p]
    res = common.pmap(fn, parts, chk.jobs, timeout=budget + 600)
    absorb(chk, res, cells)
    chk.notes.setdefault('phase_wall_s', {})[name] = round(time.time() - t0, 2)
    return res


def build_domain(chk: common.Check) -> None:
    quick = chk.tier == 'quick'
    u = U()
    D = gen.domain(chk.rng, per_stratum=2 if quick else 13)
    G['D'] = D
    G['V'] = [u.Version(s) for s in D]
    G['H'] = [hash(v) for v in G['V']]
    G['RT'] = [ref.tokens(s) for s in D]
    G['PAT'] = [''.join('n' if isinstance(t, int) else 'a' for t in rt) for rt in G['RT']]
    idx = {s: i for i, s in enumerate(D)}
    G['IDX'] = idx
    # triples subdomain
    tsub = gen.subdomain(chk.rng, D, 100 if quick else 200, always=gen.SPECIALS[:8] + gen.COMPONENTS)
    G['T'] = [idx[s] for s in tsub]
    # bounds for ranges / constraints
    nb = 16 if quick else 30
    B = gen.subdomain(chk.rng, D, nb, always=gen.BOUND_CORE)
    G['B'] = B
    # version_compare(a, op+b): all pairs of a 420- (quick) / 1100-element (thorough) subdomain of D (the order itself is
    # covered for all pairs of D by the pairs phase)
    vcs = gen.subdomain(chk.rng, D, 420 if quick else 1100, always=gen.SPECIALS + gen.COMPONENTS + gen.BOUND_CORE)
    G['VCIDX'] = [idx[s] for s in vcs]
    G['space_stride'] = 17 if quick else 7
    G['space_phase'] = chk.seed % G['space_stride']


def ref_bitsets(chk: common.Check) -> None:
    """Reference membership bitsets over D for every bound (lt/eq/gt), spec and constraint."""
    D, RT, B = G['D'], G['RT'], G['B']
    ALL = (1 << len(D)) - 1
    G['ALL'] = ALL

    def rel(b: str) -> T.Tuple[int, int, int]:
        tb = ref.tokens(b)
        lt = eq = gt = 0
        for i, t in enumerate(RT):
            c = ref.cmp_tokens(t, tb)
            if c < 0:
                lt |= 1 << i
            elif c == 0:
                eq |= 1 << i
            else:
                gt |= 1 << i
        return lt, eq, gt
    REL: T.Dict[str, T.Tuple[int, int, int]] = {}
    G['REL'] = REL

    def get(b: str) -> T.Tuple[int, int, int]:
        if b not in REL:
            REL[b] = rel(b)
        return REL[b]
    G['rel'] = get
    S = gen.range_specs(B)
    MR = []
    for lo, lo_eq, hi, hi_eq in S:
        m = ALL
        if lo is not None:
            lt, eq, gt = get(lo)
            m &= (gt | eq) if lo_eq else gt
        if hi is not None:
            lt, eq, gt = get(hi)
            m &= (lt | eq) if hi_eq else lt
        MR.append(m)
    G['S'], G['MR'] = S, MR
    G['RG'] = [mk_range(s) for s in S]
    G['KEYS'] = [rkey(r) for r in G['RG']]
    G['CLOSED'] = [ref.spec_closed(s) for s in S]
    G['memo'] = {}


def constraint_bitset(c: str) -> T.Tuple[int, bool]:
    op, v = ref.parse_constraint(c)   # type: ignore[misc]
    lt, eq, gt = G['rel'](v)
    m = {'>=': gt | eq, '<=': lt | eq, '!=': lt | gt, '==': eq, '>': gt, '<': lt}[op]
    return m, op == '!='


def phase_order(chk: common.Check, cells: T.Dict[str, int]) -> None:
    quick = chk.tier == 'quick'
    D = G['D']
    n = len(D)
    res = run_phase(chk, 'pairs', w_pairs, list(range(n)), 120 if quick else 600, cells)
    LE: T.Dict[int, int] = {}
    EQ: T.Dict[int, int] = {}
    for r in res:
        LE.update(r['extra']['le'])
        EQ.update(r['extra']['eq'])
    for r in res:
        for sig in r['extra']['sigs']:
            chk.case(('pair-shape',) + tuple(sig))    # (component kinds of a, of b, expected sign)
    # all triples of D through the recorded <= matrix: a<=b  =>  {c: b<=c} subset of {c: a<=c}
    t0 = time.time()
    tests = 0
    found = 0
    if len(LE) == n:
        for a in range(n):
            row = LE[a]
            for b in bits(row):
                extra = LE[b] & ~row
                tests += 1
                if extra and found < MAXW:
                    found += 1
                    c = next(bits(extra))
                    fs = triple_findings(D[a], D[b], D[c])
                    for mech, w in fs or [('harness:transitivity-matrix-not-confirmed', {'kind': 'triple', 'a': D[a], 'b': D[b], 'c': D[c]})]:
                        chk.violation(mech, w)
        chk.count('monitor:transitivity(all-triples-via-<=-matrix)', tests)
        chk.notes['triples_covered_by_matrix'] = n ** 3
        # equality classes must be congruent: a==b => same <= row
        for a in range(n):
            for b in bits(EQ[a]):
                if LE[a] != LE[b]:
                    chk.violation('order:equal-versions-order-differently', {'kind': 'pair', 'a': D[a], 'b': D[b]})
                    break
        chk.notes['equivalence_classes'] = len({LE[a] for a in range(n)})
    chk.notes['phase_wall_s']['trans-matrix'] = round(time.time() - t0, 2)
    run_phase(chk, 'triples', w_triples, list(G['T']), 120 if quick else 600, cells)
    run_phase(chk, 'vc', w_vc, list(G['VCIDX']), 150 if quick else 1500, cells)
    chk.notes['version_compare_subdomain'] = len(G['VCIDX'])


def directed_order_probes(chk: common.Check) -> None:
    """The sentences of the property, literally (each goes through the same pair predicate)."""
    u = U()
    probes = [
        ('numeric-value', '1.2', '1.10'), ('numeric-value', '9', '10'), ('numeric-value', '1.099', '1.100'),
        ('numeric-value', '2', '18446744073709551616'), ('numeric-leading-zero-equal', '1.01', '1.1'),
        ('numeric-above-alphabetic', '1.a', '1.0'), ('numeric-above-alphabetic', '1.Z', '1.0'), ('numeric-above-alphabetic', 'rc', '0'),
        ('longer-greater', '1.0', '1.0.0'), ('longer-greater', '1.0', '1.0a'), ('longer-greater', '1.0', '1.0.rc'), ('longer-greater', '', '0'),
        ('longer-greater', '', 'a'),
    ]
    for what, lo, hi in probes:
        a, b = u.Version(lo), u.Version(hi)
        if what.endswith('equal'):
            ok = a == b and not a < b and not a > b and hash(a) == hash(b) and u.version_compare(lo, '==' + hi)
        else:
            ok = a < b and b > a and not a == b and u.version_compare(lo, '<' + hi) and u.version_compare(hi, '>' + lo)
        chk.count('monitor:directed-order-probes')
        chk.case(('probe', what, lo, hi))
        if not ok:
            fs = pair_findings(lo, hi) or [('order:directed-probe:' + what, {'kind': 'pair', 'a': lo, 'b': hi})]
            for mech, w in fs:
                chk.violation(mech, w)


def phase_many(chk: common.Check, cells: T.Dict[str, int]) -> None:
    quick = chk.tier == 'quick'
    u = U()
    B, D = G['B'], G['D']
    VM = gen.subdomain(chk.rng, D, 12 if quick else 30, always=B[:6])
    pool1 = gen.constraints(gen.OPERATORS, B[:8 if quick else 12])
    pool3 = gen.constraints(['>=', '<=', '!=', '==', '>', '<', ''], B[:4 if quick else 6])
    lists: T.List[T.Tuple[str, ...]] = [()]
    lists += [(c,) for c in pool1]
    lists += [(c1, c2) for c1 in pool1 for c2 in pool1]
    lists += [(c1, c2, c3) for c1 in pool3 for c2 in pool3 for c3 in pool3]
    SAT: T.Dict[str, T.Dict[str, bool]] = {}
    for v in VM:
        row = {}
        for c in set(pool1) | set(pool3):
            got = u.version_compare(v, c)
            row[c] = got
            exp = ref.satisfies(v, c)
            chk.count('monitor:version_compare(constraint-table)')
            if exp is not None and got != exp:
                for mech, w in vc_findings(v, c):
                    chk.violation(mech, w)
        SAT[v] = row
    G['VM'], G['SAT'] = VM, SAT
    run_phase(chk, 'many', w_many, lists, 90 if quick else 600, cells)
    chk.notes['many_lists'] = len(lists)
    for v in VM[:6]:
        for c in pool1:
            for form in ('str', 'tuple', 'iter'):
                chk.count('monitor:version_compare_many(argument-forms)')
                for mech, w in many_findings(v, [c], form):
                    chk.violation(mech, w)
    for cs in lists:
        chk.case(('many-ops',) + tuple(ref.parse_constraint(c)[0] for c in cs))   # type: ignore[index]


def phase_ranges(chk: common.Check, cells: T.Dict[str, int]) -> None:
    quick = chk.tier == 'quick'
    u = U()
    ref_bitsets(chk)
    S, MR, B, D = G['S'], G['MR'], G['B'], G['D']
    res = run_phase(chk, 'contains', w_contains, list(range(len(S))), 120 if quick else 600, cells)
    # seed the membership memo with the verified real bitsets of the constructed ranges
    for r in res:
        for i, m in r['extra']['m'].items():
            G['memo'].setdefault(G['KEYS'][i], m)
    for s in S:
        chk.case(('range-shape', None if s[0] is None else G['PAT'][G['IDX'][s[0]]], s[1], None if s[2] is None else G['PAT'][G['IDX'][s[2]]], s[3],
                  0 if None in (s[0], s[2]) else ref.cmp(s[0], s[2])))
    run_phase(chk, 'ranges', w_ranges, list(range(len(S))), 240 if quick else 1500, cells, grain=8)
    chk.notes['range_specs'] = len(S)
    chk.notes['range_pairs'] = len(S) ** 2
    chk.notes['bounds'] = B

    # constraints
    pool1 = gen.constraints(gen.OPERATORS, B)
    pool3 = gen.constraints(['>=', '<=', '!=', '==', '>', '<'], B[:8 if quick else 12])
    spaced = [f.format(op=op, v=v) for f in gen.SPACE_FORMS for op in gen.OPERATORS[:-1] for v in B[:3]]
    CS: T.Dict[str, T.Tuple[int, bool]] = {}
    V = G['V']
    for c in dict.fromkeys(pool1 + pool3 + spaced):
        CS[c] = constraint_bitset(c)
        # the real version_compare must decide every constraint like the reference (all of D)
        m = 0
        for i, s in enumerate(D):
            if u.version_compare(s, c):
                m |= 1 << i
        chk.count('monitor:version_compare(constraint x D)', len(D))
        if m != CS[c][0]:
            for mech, w in vc_findings(pick(m ^ CS[c][0]), c):
                chk.violation(mech, w)
    G['CS'] = CS
    lists: T.List[T.Tuple[str, ...]] = [()]
    lists += [(c,) for c in pool1 + spaced]
    lists += [(c1, c2) for c1 in pool1 for c2 in pool1]
    lists += [(c1, c2, c3) for c1 in pool3 for c2 in pool3 for c3 in pool3]
    run_phase(chk, 'to_range', w_to_range, lists, 150 if quick else 1200, cells, grain=8)
    chk.notes['to_range_lists'] = len(lists)
    for cs in lists:
        chk.case(('to_range-ops',) + tuple(ref.parse_constraint(c)[0] for c in cs))   # type: ignore[index]
    step = 7 if quick else 3
    items = [(i, c) for i in range(0, len(S), step) for c in pool1]
    run_phase(chk, 'to_range_start', w_to_range_start, items, 90 if quick else 600, cells)
    # default start must still be the unbounded range
    r0 = u.version_check_to_range([])
    if rkey(r0) != (None, False, None, False, False):
        chk.violation('to_range:default-start-polluted', {'kind': 'to_range', 'cs': [], 'start': None, 'range': rdata(r0)})

    # leading blank before the operator: the documents are silent -> consistency only
    for op in gen.OPERATORS[:-1]:
        for v in B[:4]:
            c = ' ' + op + v
            if op == '!=':
                continue
            r = u.version_check_to_range([c])
            for i, s in enumerate(D):
                a, b2 = u.version_compare(s, c), u.version_compare(s, c)
                chk.count('consistency:leading-blank-constraint')
                if a != b2 or (V[i] in r) != a:
                    chk.violation('consistency:leading-blank-constraint-range-vs-compare',
                                  {'kind': 'vc', 'a': s, 'spec': c, 'in_range': V[i] in r, 'version_compare': a})
                    break
    chk.notes['leading_blank_before_operator'] = {
        "version_compare('2.0', ' >=1.0')": u.version_compare('2.0', ' >=1.0'),
        'note': 'undocumented spelling; observed meaning is "== 1.0" (operator not recognised); consistency-only',
    }

    # condition_with_min
    MINS = gen.subdomain(chk.rng, D, 24 if quick else 60, always=B + ['0.46.0', '1.0.0', '1.2.3'])
    BELOW = {}
    for mn in MINS:
        BELOW[mn] = G['rel'](mn)[0]
    G['MINS'], G['BELOW'] = MINS, BELOW
    items2: T.List[T.Tuple[str, T.Any]] = [('c', c) for c in pool1] + [('r', i) for i in range(len(S))]
    run_phase(chk, 'cond_min', w_cond_min, items2, 90 if quick else 600, cells)


# =============================================================================================
# Real meson runs
# =============================================================================================

def q(s: str) -> str:
    return "'" + s.replace('\\', '\\\\').replace("'", "\\'") + "'"


def meson_messages(out: str, tag: str) -> T.Dict[int, str]:
    res: T.Dict[int, str] = {}
    for line in out.splitlines():
        if 'Message:' in line and tag + '|' in line:
            parts = line.split(tag + '|', 1)[1].split('|')
            if len(parts) >= 2 and parts[0].isdigit():
                res[int(parts[0])] = parts[1].strip()
    return res


def spec_of(d: dict) -> T.Tuple:
    return (d['min'], d['min_eq'], d['max'], d['max_eq'])


def check_meson_records(chk: common.Check, records: T.Sequence[dict], where: str) -> None:
    """Offline checker over the calls the interpreter really made (brute force over D)."""
    u = U()
    D = G['D']
    for ev in records:
        kind = ev.get('ev')
        st = ev.get('stack', '?')
        if kind == 'intersect':
            chk.count('monitor:meson:Range.intersect')
            chk.count('reach:intersect@' + st)
            if any('repr' in ev[k] for k in ('self', 'x', 'result')):
                continue
            if ev['self'] != ev['self_after']:
                chk.violation('intersect:mutates-operand', {'kind': 'meson-record', 'where': where, 'event': ev})
            res = rebuild_range(ev['result'])
            a, b = rebuild_range(ev['self']), rebuild_range(ev['x'])
            for s in D:
                v = u.Version(s)
                exp = (not ev['self']['is_empty'] and ref.in_spec(spec_of(ev['self']), s)) and \
                      (not ev['x']['is_empty'] and ref.in_spec(spec_of(ev['x']), s))
                if (v in res) != exp or ((v in a) and (v in b)) != exp:
                    chk.violation('intersect:' + ('drops-common-member' if exp else 'keeps-non-member'),
                                  {'kind': 'meson-record', 'where': where, 'event': ev, 'v': s})
                    break
        elif kind == 'always':
            chk.count('monitor:meson:Range.always')
            chk.count('reach:always@' + st)
            if any('repr' in ev[k] for k in ('self', 'inner')):
                continue
            res = ev['result']
            for s in D:
                if ev['self']['is_empty'] or not ref.in_spec(spec_of(ev['self']), s):
                    continue
                inside = not ev['inner']['is_empty'] and ref.in_spec(spec_of(ev['inner']), s)
                if (res is True and not inside) or (res is False and inside):
                    chk.violation('always:' + ('true-but-member-outside-inner' if res else 'false-but-member-inside-inner'),
                                  {'kind': 'meson-record', 'where': where, 'event': ev, 'v': s})
                    break
        elif kind == 'to_range':
            chk.count('monitor:meson:version_check_to_range')
            chk.count('reach:to_range@' + st)
            if ev.get('has_start') or 'repr' in ev['result']:
                continue
            parsed = [ref.parse_constraint(c) for c in ev['checks']]
            if any(p is None for p in parsed):
                continue
            r = rebuild_range(ev['result'])
            for s in D:
                sat = [ref.OPS[p[0]](ref.cmp(s, p[1])) for p in parsed]   # type: ignore[index]
                got = u.Version(s) in r
                if all(sat) and not got:
                    chk.violation('to_range:excludes-version-satisfying-all-checks', {'kind': 'meson-record', 'where': where, 'event': ev, 'v': s})
                    break
                if got and any(not x and p[0] != '!=' for x, p in zip(sat, parsed)):   # type: ignore[index]
                    chk.violation('to_range:includes-version-violating-a-non-!=-check', {'kind': 'meson-record', 'where': where, 'event': ev, 'v': s})
                    break
        elif kind == 'cond_min':
            chk.count('monitor:meson:version_compare_condition_with_min')
            chk.count('reach:cond_min@' + st)
            cond = ev['condition']
            if isinstance(cond, dict):
                if 'repr' in cond:
                    continue
                chk.count('monitor:meson:cond_min(Range-argument)')
                member = (lambda s, c=cond: (not c['is_empty']) and ref.in_spec(spec_of(c), s))
            else:
                p = ref.parse_constraint(cond)
                if p is None:
                    continue
                member = (lambda s, p=p: ref.OPS[p[0]](ref.cmp(s, p[1])))
            if ev['result'] is True:
                for s in D:
                    if member(s) and ref.cmp(s, ev['minimum']) < 0:
                        chk.violation('cond_min:true-but-satisfying-version-below-minimum',
                                      {'kind': 'meson-record', 'where': where, 'event': ev, 'v': s})
                        break
        elif kind == 'many':
            chk.count('monitor:meson:version_compare_many')
            exp = [ref.satisfies(ev['v'], c) for c in ev['conditions']]
            if None in exp:
                continue
            if ev['result'][0] != all(exp) or ev['result'][1] != [c for c, e in zip(ev['conditions'], exp) if not e]:
                chk.violation('many:not-conjunction', {'kind': 'meson-record', 'where': where, 'event': ev, 'reference': exp})


def phase_meson(chk: common.Check) -> None:
    from vf.monitors import c19_version
    quick = chk.tier == 'quick'
    rng = chk.rng
    D = [s for s in G['D'] if s.strip() == s]
    scratch = common.scratch_dir('c19')

    # ---- (1) 'x'.version_compare('op y') ----------------------------------------------------
    nproj = 2 if quick else 6
    for pi in range(nproj):
        cases: T.List[T.Tuple[str, T.List[str]]] = []
        for _ in range(150):
            a, b = rng.choice(D), rng.choice(D)
            op = rng.choice(gen.OPERATORS)
            form = rng.choice(['{op}{v}', '{op}{v}', '{op} {v}', '{op}{v} ', '{op}  {v}'])
            cases.append((a, [form.format(op=op, v=b)]))
        for _ in range(50):
            a = rng.choice(D)
            cases.append((a, [rng.choice(gen.OPERATORS) + rng.choice(D) for _ in range(rng.choice([2, 2, 3]))]))
        lines = ["project('c19vc')", "message('MV|0|' + meson.version())"]
        for i, (a, cs) in enumerate(cases):
            lines.append("message('VC|%d|' + %s.version_compare(%s).to_string())" % (i, q(a), ', '.join(q(c) for c in cs)))
        src = os.path.join(scratch, f'vc{pi}')
        runner.write_tree(src, {'meson.build': '\n'.join(lines) + '\n'})
        r = runner.meson(['setup', '--backend=none', os.path.join(src, 'b')], cwd=src, monitors=[c19_version.install], timeout=180)
        if r.timed_out or r.rc != 0:
            chk.inconclusive_case('meson-vc-setup-failed')
            chk.notes['meson_vc_failure'] = r.brief()
            continue
        got = meson_messages(r.out, 'VC')
        for i, (a, cs) in enumerate(cases):
            exp = [ref.satisfies(a, c) for c in cs]
            chk.case(('meson-vc', a, tuple(cs)))
            if i not in got:
                chk.inconclusive_case('meson-vc-line-missing')
                continue
            chk.count('monitor:meson:str.version_compare')
            if None in exp:
                continue
            if got[i] != ('true' if all(exp) else 'false'):
                chk.violation('meson:str.version_compare-disagrees-with-reference',
                              {'kind': 'meson-vc', 'a': a, 'cs': cs, 'got': got[i], 'expected': all(exp)})
            if i < 3:
                chk.sample({'meson': f"{q(a)}.version_compare({', '.join(q(c) for c in cs)})", 'printed': got[i]})
        check_meson_records(chk, r.records, f'vc{pi}')

    # ---- (2) meson_version narrowing ----------------------------------------------------------
    mv = None
    project_versions = ['>=1.0.0', '>=0.50.0', '>1.2', '>=1.1.0', '>=0.60', '>= 1.4.0']
    cond_pool = [['>=1.3.0'], ['<1.0.0'], ['>=0.60.0'], ['>=1.3.0', '<2.0.0'], ['>1.0.0'], ['<=0.49'], ['>=1.0.0'], ['==1.2.3'],
                 ['<2.0.0'], ['>=1.1.0'], ['>=2.0.0'], ['<0.60'], ['>=0.50.0', '<1.1'], ['>=1.5', '>=1.6'], ['<=1.2'], ['>1.2'],
                 ['=1.0.0'], ['>=1.4.0', '<=1.4.0']]
    for pi, pv in enumerate(project_versions if not quick else project_versions[:4]):
        conds = list(cond_pool)
        rng.shuffle(conds)
        lines = ["project('c19nar', meson_version: %s)" % q(pv), "message('MV|0|' + meson.version())"]
        k = 0
        flat: T.List[T.Tuple[int, T.List[str]]] = []
        for cs in conds:
            args = ', '.join(q(c) for c in cs)
            lines += ["if meson.version().version_compare(%s)" % args, "  message('BR|%d|T')" % k]
            flat.append((k, cs))
            outer_k = k
            k += 1
            if outer_k % 3 == 0:
                inner = rng.choice(cond_pool)
                lines += ["  if meson.version().version_compare(%s)" % ', '.join(q(c) for c in inner),
                          "    message('BR|%d|T')" % k, "  else", "    message('BR|%d|F')" % k, "  endif"]
                k += 1
            lines += ["else", "  message('BR|%d|F')" % outer_k, "endif"]
        src = os.path.join(scratch, f'nar{pi}')
        runner.write_tree(src, {'meson.build': '\n'.join(lines) + '\n'})
        r = runner.meson(['setup', '--backend=none', os.path.join(src, 'b')], cwd=src, monitors=[c19_version.install], timeout=180)
        if r.timed_out or r.rc != 0:
            chk.inconclusive_case('meson-narrowing-setup-failed')
            chk.notes['meson_narrowing_failure'] = r.brief()
            continue
        mvs = meson_messages(r.out, 'MV')
        mv = mvs.get(0, mv)
        br = meson_messages(r.out, 'BR')
        for kk, cs in flat:
            chk.case(('meson-narrow', pv, tuple(cs)))
            if kk not in br or mv is None:
                chk.inconclusive_case('meson-branch-line-missing')
                continue
            exp = all(ref.satisfies(mv, c) for c in cs)
            chk.count('monitor:meson:if-version_compare-branch')
            if br[kk] != ('T' if exp else 'F'):
                chk.violation('meson:if-branch-disagrees-with-reference',
                              {'kind': 'meson-narrow', 'project_version': pv, 'cs': cs, 'meson_version': mv, 'branch': br[kk]})
        check_meson_records(chk, r.records, f'nar{pi}:{pv}')
        fsn, cntn = flow_findings(r.records, G['D'])
        for kf, vf_ in cntn.items():
            chk.count('monitor:meson:flow:' + kf, vf_)
        for mech, w in fsn[:3]:
            chk.violation(mech, dict(w, meson_build='\n'.join(lines) + '\n', project_version=pv))
        # warnings "always evaluates to" must correspond 1:1 to determinate always() answers in evaluate_if
        det = [ev for ev in r.records if ev.get('ev') == 'always' and ev.get('stack', '').endswith('evaluate_if') and ev['result'] is not None]
        nwarn = r.out.count('always evaluates to') + r.err.count('always evaluates to')
        chk.count('monitor:meson:always-warning-count')
        if nwarn != len(det):
            chk.violation('meson:always-warning-count-differs', {'kind': 'meson-narrow', 'project_version': pv,
                                                                   'warnings': nwarn, 'determinate_always_calls': len(det)})
        # the running meson version lies in the project range: a determinate always() must match the branch taken
        if mv is not None and ref.satisfies(mv, pv):
            for ev in det:
                inner = ev['inner']
                if 'repr' in inner:
                    continue
                holds = (not inner['is_empty']) and ref.in_spec(spec_of(inner), mv)
                in_self = (not ev['self']['is_empty']) and ref.in_spec(spec_of(ev['self']), mv)
                if not in_self:
                    continue
                chk.count('monitor:meson:always-vs-running-version')
                if holds != ev['result']:
                    chk.violation('always:' + ('true-but-member-outside-inner' if ev['result'] else 'false-but-member-inside-inner'),
                                  {'kind': 'meson-record', 'where': f'nar{pi}:{pv}', 'event': ev, 'v': mv})
        if pi == 0:
            chk.sample({'meson_version': mv, 'project': pv, 'always_calls': [(str(e['self']), str(e['inner']), e['result']) for e in det[:3]]})
    chk.notes['meson_version_seen'] = mv
    phase_meson_chains(chk, scratch)
    phase_meson_near(chk, scratch)


# ---- per-clause data flow of the narrowing (if / elif / else chains) -------------------------------------------

def _members(d: T.Optional[dict], D: T.Sequence[str]) -> T.Optional[int]:
    """Reference membership bitset over D of a recorded Range (None = not a plain Range record)."""
    if d is None or 'repr' in d:
        return None
    if d['is_empty']:
        return 0
    sp = spec_of(d)
    m = 0
    for i, s in enumerate(D):
        if ref.in_spec(sp, s):
            m |= 1 << i
    return m


def flow_findings(records: T.Sequence[dict], D: T.Sequence[str]) -> T.Tuple[T.List[T.Tuple[str, dict]], T.Dict[str, int]]:
    """Offline checker over one meson run: the operands the interpreter hands to the range algebra for an
    if/elif clause must be the range of the version checks evaluated in THAT clause's condition, and the range a
    feature check inside a body is judged against must be (project range) n (own version condition of every
    enclosing taken clause) - decided by brute-force membership over D.  Nothing is assumed about what a
    condition *means* (negation, and/or): only which checks were evaluated where."""
    out: T.List[T.Tuple[str, dict]] = []
    cnt = {'clauses': 0, 'clauses-with-version-check': 0, 'clauses-without-version-check': 0, 'elif-clauses': 0,
           'always-attributed': 0, 'intersect-attributed': 0, 'feature-checks-in-narrowed-body': 0,
           'feature-checks-attributed': 0, 'else-blocks': 0, 'unmatched': 0}
    project: T.Optional[dict] = None
    stack: T.List[dict] = []
    ALL = (1 << len(D)) - 1
    memo: T.Dict[str, T.Optional[int]] = {}

    def mem(d: T.Optional[dict]) -> T.Optional[int]:
        k = json.dumps(d, sort_keys=True)
        if k not in memo:
            memo[k] = _members(d, D)
        return memo[k]

    for ev in records:
        kind = ev.get('ev')
        st = ev.get('stack', '')
        top = stack[-1] if stack else None
        consumed = False
        if kind == 'if_enter':
            stack.append({'if': ev['if'], 'line': ev.get('line'), 'vc': [], 'in_clause': False, 'await': False, 'body': False,
                          'clause': None, 'clause_line': None})
        elif kind == 'if_exit':
            if top is not None and top['if'] == ev['if']:
                stack.pop()
            else:
                cnt['unmatched'] += 1
        elif kind == 'clause_begin':
            if top is None or top['if'] != ev['if']:
                cnt['unmatched'] += 1
                continue
            top.update(vc=[], in_clause=True, body=False, clause=ev['clause'], clause_line=ev.get('line'))
            top['await'] = False
            cnt['clauses'] += 1
            if ev['clause'] > 0:
                cnt['elif-clauses'] += 1
        elif kind == 'clause_end':
            if top is None or top['if'] != ev['if']:
                cnt['unmatched'] += 1
                continue
            top['in_clause'] = False
            top['await'] = True
            top['body'] = ev.get('value') is True
            cnt['clauses-with-version-check' if top['vc'] else 'clauses-without-version-check'] += 1
            consumed = True
        elif kind == 'else_begin':
            if top is not None and top['if'] == ev['if']:
                top.update(vc=[], body=True, clause='else')
                cnt['else-blocks'] += 1
        elif kind == 'to_range' and st.endswith('handle_meson_version'):
            if not stack:
                project = ev['result']
        elif kind == 'to_range' and st.endswith('version_compare_method'):
            if top is not None and top['in_clause']:
                top['vc'].append(ev['result'])
        elif kind in ('always', 'intersect') and st.endswith('evaluate_if') and top is not None and top['await']:
            consumed = True
            operand = ev['inner'] if kind == 'always' else ev['x']
            cnt[kind + '-attributed'] += 1
            w = {'kind': 'meson-flow', 'if_line': top['line'], 'clause': top['clause'], 'clause_line': top['clause_line'],
                 'call': kind, 'operand': operand, 'result': ev['result'],
                 'version_checks_evaluated_in_this_clause': list(top['vc'])}
            if not top['vc']:
                out.append(('narrowing:clause-without-version-check-is-narrowed-by-another-clauses-condition', w))
            elif operand != top['vc'][-1] and mem(operand) != mem(top['vc'][-1]):
                out.append(('narrowing:operand-is-not-the-range-of-this-clauses-version-check', w))
        elif kind == 'cond_min' and isinstance(ev.get('condition'), dict) and project is not None:
            got = mem(ev['condition'])
            exp = mem(project)
            narrowed = False
            for fr in stack:
                if fr['body'] and not fr['in_clause'] and fr['vc']:
                    m = mem(fr['vc'][-1])
                    if m is None or exp is None:
                        exp = None
                        break
                    exp &= m
                    narrowed = True
            if got is not None and exp is not None:
                cnt['feature-checks-attributed'] += 1
                if narrowed:
                    cnt['feature-checks-in-narrowed-body'] += 1
                if got != exp:
                    diff = got ^ exp
                    i = (diff & -diff).bit_length() - 1
                    out.append(('narrowing:feature-check-range-is-not-project-range-intersected-with-own-clause-conditions',
                                {'kind': 'meson-flow', 'feature_version': ev['minimum'], 'range_used': ev['condition'], 'project_range': project,
                                 'enclosing_taken_clauses': [{'if_line': fr['line'], 'clause': fr['clause'], 'version_check': fr['vc'][-1] if fr['vc'] else None}
                                                             for fr in stack if fr['body'] and not fr['in_clause']],
                                 'v': D[i], 'v_in_range_used': bool(got >> i & 1), 'v_in_expected': bool(exp >> i & 1),
                                 'if_line': stack[-1]['line'] if stack else None}))
        if not consumed and top is not None and kind not in ('always', 'intersect'):
            top['await'] = False
    _ = ALL
    return out, cnt


CLAUSE_KINDS = ['V', 'NV', 'VT', 'TV', 'PT', 'PF', 'SV']


def _clause(kind: str, cs: T.Sequence[str], sv: str) -> str:
    args = ', '.join(q(c) for c in cs)
    v = 'meson.version().version_compare(%s)' % args
    return {'V': v, 'NV': 'not ' + v, 'VT': v + ' and true', 'TV': 'true and ' + v, 'PT': 'true', 'PF': '1 == 2',
            'SV': '%s.version_compare(%s)' % (q(sv), args)}[kind]


def _clause_truth(kind: str, cs: T.Sequence[str], sv: str, mv: str) -> T.Optional[bool]:
    if kind == 'PT':
        return True
    if kind == 'PF':
        return False
    vals = [ref.satisfies(sv if kind == 'SV' else mv, c) for c in cs]
    if None in vals:
        return None
    return (not all(vals)) if kind == 'NV' else all(vals)


FEATURE_USES = ["'abc'.replace('a', 'b')",          # FeatureNew 0.58.0
                "'a' in 'abc'",                     # FeatureNew 1.0.0
                "'abc'.substring(1)",               # FeatureNew 0.56.0
                "'abc'.replace('b', 'c')"]


def chain_project(pv: str, chains: T.Sequence[T.Sequence[T.Tuple[str, T.List[str], str]]], has_else: T.Sequence[bool]) -> T.Tuple[str, T.List[T.Tuple[int, int]]]:
    """meson.build text + (first line, last line) of every chain."""
    lines = ["project('c19flow', meson_version: %s)" % q(pv), "message('MV|0|' + meson.version())"]
    spans = []
    for ci, chain in enumerate(chains):
        first = len(lines) + 1
        for k, (kind, cs, sv) in enumerate(chain):
            lines.append(('if ' if k == 0 else 'elif ') + _clause(kind, cs, sv))
            lines.append("  f%d_%d = %s" % (ci, k, FEATURE_USES[(ci + k) % len(FEATURE_USES)]))
            lines.append("  message('CH|%d|%d')" % (ci, k))
        if has_else[ci]:
            lines.append('else')
            lines.append("  f%d_e = %s" % (ci, FEATURE_USES[ci % len(FEATURE_USES)]))
            lines.append("  message('CH|%d|else')" % ci)
        lines.append('endif')
        spans.append((first, len(lines)))
    return '\n'.join(lines) + '\n', spans


def run_chain_project(text: str, scratch: str, name: str) -> T.Any:
    from vf.monitors import c19_version
    src = os.path.join(scratch, name)
    runner.write_tree(src, {'meson.build': text})
    return runner.meson(['setup', '--backend=none', os.path.join(src, 'b')], cwd=src, monitors=[c19_version.install], timeout=180)


def phase_meson_chains(chk: common.Check, scratch: str) -> None:
    """if / elif / else chains mixing clauses with and without a meson.version() check (every ordered pair of
    clause kinds, plus random longer chains); bodies use FeatureNew features so that feature checks happen inside."""
    quick = chk.tier == 'quick'
    rng = chk.rng
    D = G['D']
    # constraints away from the development-version window (meson.version() 1.12.99 vs the 1.13.0 used for project())
    false_now = [['>=99.0'], ['<0.50'], ['>=2.0.0'], ['<0.55.0'], ['>=3.1', '<4'], ['==0.60.0']]
    true_now = [['>=0.56.0'], ['>=1.0.0'], ['<99.0'], ['>=0.58', '<50'], ['>0.57.1']]
    pvs = ['>=0.55', '>=0.50.0', '>0.52.1'] if quick else ['>=0.55', '>=0.50.0', '>0.52.1', '>=0.57.0', '>=0.40', '>= 0.49.0']

    def pick_clause(kind: str, want: T.Optional[bool]) -> T.Tuple[str, T.List[str], str]:
        sv = rng.choice(['1.0', '0.51.0', '2.3.4', '1.0rc1'])
        if kind in ('PT', 'PF'):
            return kind, [], sv
        pool = (false_now + true_now) if want is None else (true_now if (want != (kind == 'NV')) else false_now)
        return kind, list(rng.choice(pool)), sv

    for pi, pv in enumerate(pvs):
        chains: T.List[T.List[T.Tuple[str, T.List[str], str]]] = []
        has_else: T.List[bool] = []
        # every ordered pair (first clause false at run time, second clause of any kind)
        for k1 in CLAUSE_KINDS:
            if k1 == 'PT':
                continue
            for k2 in CLAUSE_KINDS:
                chains.append([pick_clause(k1, False), pick_clause(k2, rng.choice([True, True, False]))])
                has_else.append(rng.random() < 0.5)
        for _ in range(10 if quick else 30):
            n = rng.choice([1, 2, 3, 4])
            chains.append([pick_clause(rng.choice(CLAUSE_KINDS), rng.choice([None, False, False, True])) for _ in range(n)])
            has_else.append(rng.random() < 0.6)
        text, spans = chain_project(pv, chains, has_else)
        r = run_chain_project(text, scratch, f'flow{pi}')
        if r.timed_out or r.rc != 0:
            chk.inconclusive_case('meson-chain-setup-failed')
            chk.notes['meson_chain_failure'] = r.brief()
            continue
        mv = meson_messages(r.out, 'MV').get(0)
        taken: T.Dict[int, str] = {}
        for line in r.out.splitlines():
            if 'Message:' in line and 'CH|' in line:
                a, b = line.split('CH|', 1)[1].split('|')[:2]
                taken.setdefault(int(a), b.strip())
        for ci, chain in enumerate(chains):
            chk.case(('meson-chain', pv, tuple(k for k, _, _ in chain), has_else[ci]))
            if mv is None:
                continue
            truths = [_clause_truth(k, cs, sv, mv) for k, cs, sv in chain]
            if None in truths:
                continue
            exp = str(truths.index(True)) if True in truths else ('else' if has_else[ci] else None)
            chk.count('monitor:meson:chain-branch-taken')
            if taken.get(ci) != exp:
                chk.violation('meson:if-branch-disagrees-with-reference',
                              {'kind': 'meson-flow', 'project_version': pv, 'meson_build': chain_project(pv, [chain], [has_else[ci]])[0],
                               'taken': taken.get(ci), 'expected': exp, 'meson_version': mv})
        check_meson_records(chk, r.records, f'flow{pi}:{pv}')
        fs, cnt = flow_findings(r.records, D)
        for k, v in cnt.items():
            chk.count('monitor:meson:flow:' + k, v)
        seen_mech: T.Set[str] = set()
        for mech, w in fs:
            if mech in seen_mech:
                chk.count('violations-by-mechanism:' + mech)
                continue
            seen_mech.add(mech)
            # minimise: the offending chain alone, re-run
            line = w.get('if_line')
            ci = next((i for i, (a, b) in enumerate(spans) if line is not None and a <= line <= b), None)
            if ci is not None:
                small, _ = chain_project(pv, [chains[ci]], [has_else[ci]])
                r2 = run_chain_project(small, scratch, f'flow{pi}-min{len(seen_mech)}')
                fs2 = [f for f in flow_findings(r2.records, D)[0] if f[0] == mech] if r2.rc == 0 else []
                if fs2:
                    w = dict(fs2[0][1], meson_build=small, project_version=pv)
                else:
                    w = dict(w, meson_build=text, project_version=pv)
            else:
                w = dict(w, meson_build=text, project_version=pv)
            chk.violation(mech, w)
        if pi == 0:
            chk.sample({'chain': chain_project(pv, [chains[1]], [has_else[1]])[0].splitlines()[2:], 'taken': taken.get(1)})


# ---- meson.version() itself as the subject: constraints in the neighbourhood of the running version -----------------

def version_neighbours(mv: str) -> T.List[str]:
    """Versions at, just below and just above `mv`, derived structurally from its numeric components."""
    nums = [t for t in ref.tokens(mv) if isinstance(t, int)]
    out: T.Dict[str, None] = {mv: None}
    if not nums:
        return list(out)

    def j(xs: T.Sequence[int]) -> str:
        return '.'.join(str(x) for x in xs)
    for i in range(len(nums)):
        for d in (-1, 1):
            if nums[i] + d < 0:
                continue
            head = nums[:i] + [nums[i] + d]
            out.setdefault(j(head + [0] * (len(nums) - i - 1)))       # next/previous release at this level
            out.setdefault(j(head + nums[i + 1:]))                     # only this component moved
            out.setdefault(j(head))                                    # shorter spelling
    out.setdefault(j(nums[:-1]))
    out.setdefault(j(nums + [0]))
    out.setdefault(j(nums + [1]))
    out.setdefault(j(nums) + 'rc1')
    out.setdefault(j(nums[:-1] + [nums[-1] + 1]) + '.rc')
    out.setdefault('-'.join(str(x) for x in nums))
    out.setdefault(j(nums[:-1] + [int(str(nums[-1]) + '0')]))         # 99 -> 990 (numeric, not string order)
    return [v for v in out if v]


def near_project(cases: T.Sequence[T.Sequence[str]], pv: T.Optional[str]) -> str:
    lines = ["project('c19near'%s)" % ('' if pv is None else ', meson_version: ' + q(pv)),
             "v = meson.version()", "plain = '@0@'.format(v)", "message('MV|0|' + v)",
             "message('EQ|0|' + (v == plain).to_string())"]
    for i, cs in enumerate(cases):
        args = ', '.join(q(c) for c in cs)
        lines.append("message('NV|%d|' + v.version_compare(%s).to_string() + '|' + plain.version_compare(%s).to_string())" % (i, args, args))
        if i % 4 == 0:
            lines += ["if meson.version().version_compare(%s)" % args, "  message('NB|%d|true')" % i, "else", "  message('NB|%d|false')" % i, "endif"]
    return '\n'.join(lines) + '\n'


def near_findings(text_cases: T.Sequence[T.Sequence[str]], pv: T.Optional[str], scratch: str, name: str) -> T.Tuple[T.List[T.Tuple[str, dict]], T.Dict[str, int], T.Any]:
    r = run_chain_project(near_project(text_cases, pv), scratch, name)
    cnt = {'cases': 0, 'if-branches': 0}
    out: T.List[T.Tuple[str, dict]] = []
    if r.timed_out or r.rc != 0:
        return out, cnt, r
    mv = meson_messages(r.out, 'MV').get(0)
    nv: T.Dict[int, T.Tuple[str, str]] = {}
    nb = meson_messages(r.out, 'NB')
    for line in r.out.splitlines():
        if 'Message:' in line and 'NV|' in line:
            parts = line.split('NV|', 1)[1].split('|')
            if len(parts) >= 3 and parts[0].isdigit():
                nv[int(parts[0])] = (parts[1].strip(), parts[2].strip())
    if mv is None:
        return out, cnt, r
    for i, cs in enumerate(text_cases):
        exp = [ref.satisfies(mv, c) for c in cs]
        if None in exp or i not in nv:
            continue
        want = 'true' if all(exp) else 'false'
        cnt['cases'] += 1
        w = {'kind': 'meson-near', 'cs': list(cs), 'project_version': pv, 'meson_version_printed': mv,
             'meson.version().version_compare': nv[i][0], 'equal_plain_string.version_compare': nv[i][1], 'order_says': want}
        if nv[i][0] != want:
            out.append(('meson:meson.version().version_compare-disagrees-with-order-of-the-printed-version', w))
        if nv[i][1] != want:
            out.append(('meson:str.version_compare-disagrees-with-reference', w))
        if nv[i][0] != nv[i][1]:
            out.append(('meson:meson.version()-and-an-equal-plain-string-compare-differently', w))
        if i in nb:
            cnt['if-branches'] += 1
            if nb[i] != want:
                out.append(('meson:if-branch-disagrees-with-reference', dict(w, branch=nb[i])))
    return out, cnt, r


def phase_meson_near(chk: common.Check, scratch: str) -> None:
    """Every operator spelling x versions at / just below / just above the running meson version (whatever it
    is), asked of meson.version() and of an equal plain string, plus constraint lists; expectation = reference order
    applied to the string meson.version() printed."""
    from mesonbuild import coredata
    rng = chk.rng
    near = version_neighbours(str(coredata.version))
    cases: T.List[T.List[str]] = [[op + v] for v in near for op in gen.OPERATORS]
    cases += [[op + ' ' + v] for v in near[:6] for op in gen.OPERATORS[:-1]]
    for _ in range(40):
        cases.append([rng.choice(gen.OPERATORS) + rng.choice(near) for _ in range(rng.choice([2, 2, 3]))])
    chk.notes['near_versions'] = near
    for pi, pv in enumerate([None, '>=1.0.0']):
        fs, cnt, r = near_findings(cases, pv, scratch, f'near{pi}')
        if r.timed_out or r.rc != 0:
            chk.inconclusive_case('meson-near-setup-failed')
            chk.notes['meson_near_failure'] = r.brief()
            continue
        chk.count('monitor:meson:meson.version().version_compare(near-running-version)', cnt['cases'])
        chk.count('monitor:meson:if-version_compare-branch', cnt['if-branches'])
        for cs in cases:
            chk.case(('meson-near', pv, tuple(ref.parse_constraint(c)[0] if ref.parse_constraint(c) else '?' for c in cs)))
        if meson_messages(r.out, 'EQ').get(0) != 'true':
            chk.violation('meson:meson.version()-not-equal-to-its-own-text', {'kind': 'meson-near', 'cs': [], 'project_version': pv})
        check_meson_records(chk, r.records, f'near{pi}')
        per: T.Dict[str, int] = {}
        for mech, w in fs:
            per[mech] = per.get(mech, 0) + 1
            if per[mech] <= 2:
                chk.violation(mech, w)
            else:
                chk.count('violations-by-mechanism:' + mech)
        if pi == 0 and cnt['cases']:
            chk.sample({'meson.version()': meson_messages(r.out, 'MV').get(0), 'near_constraints': [c[0] for c in cases[:6]]})


# =============================================================================================

def rerun_event(ev: dict) -> dict:
    """Re-execute a recorded interpreter-level call on the tree under test (same arguments)."""
    from vf.monitors.c19_version import range_data
    u = U()
    ev = dict(ev)
    kind = ev.get('ev')
    if kind == 'intersect':
        a, b = rebuild_range(ev['self']), rebuild_range(ev['x'])
        ev['result'] = range_data(a.intersect(b))
        ev['self_after'] = range_data(a)
    elif kind == 'always':
        ev['result'] = rebuild_range(ev['self']).always(rebuild_range(ev['inner']))
    elif kind == 'to_range' and not ev.get('has_start'):
        ev['result'] = range_data(u.version_check_to_range(list(ev['checks'])))
    elif kind == 'cond_min':
        c = ev['condition']
        ev['result'] = u.version_compare_condition_with_min(c if isinstance(c, str) else rebuild_range(c), ev['minimum'])
    elif kind == 'many':
        r = u.version_compare_many(ev['v'], list(ev['conditions']))
        ev['result'] = [r[0], list(r[1]), list(r[2])]
    return ev


def replay(chk: common.Check, path: str) -> int:
    with open(path, encoding='utf-8') as f:
        w = json.load(f)
    kind = w.get('kind')
    D = gen.domain(common.random.Random(f'{PID}:{w.get("seed", 0)}'), 2)
    probes = [w['v']] if w.get('v') is not None else D
    fs: T.List[T.Tuple[str, dict]] = []
    if kind == 'pair':
        fs = pair_findings(w['a'], w['b'])
    elif kind == 'triple':
        fs = triple_findings(w['a'], w['b'], w['c'])
    elif kind == 'vc':
        fs = vc_findings(w['a'], w['spec'])
    elif kind == 'many':
        fs = many_findings(w['v'], w['cs'], w.get('form', 'list'))
    elif kind == 'contains':
        fs = contains_findings(w['spec'], probes)
    elif kind == 'intersect' and w.get('r1') and w.get('r2'):
        fs = intersect_findings(w['r1'], w['r2'], probes)
    elif kind == 'always':
        fs = always_findings(w['outer'], w['inner'], probes)
    elif kind == 'to_range':
        fs = to_range_findings(w['cs'], probes, w.get('start'))
    elif kind == 'cond_min':
        fs = [f for f in cond_min_findings(w['cond'], w['minimum'], D) if f[0] != '~gap']
    elif kind == 'meson-vc':
        fs = many_findings(w['a'], w['cs'])
        exp = [ref.satisfies(w['a'], c) for c in w['cs']]
        if None not in exp and U().version_compare_many(w['a'], w['cs'])[0] != all(exp):
            fs.append(('meson:str.version_compare-disagrees-with-reference', w))
    elif kind == 'meson-narrow' and w.get('cs') and w.get('meson_version'):
        exp = [ref.satisfies(w['meson_version'], c) for c in w['cs']]
        fs = many_findings(w['meson_version'], w['cs'])
        if None not in exp and U().version_compare_many(w['meson_version'], w['cs'])[0] != all(exp):
            fs.append(('meson:if-branch-disagrees-with-reference', w))
    elif kind == 'meson-near':
        runner.preload()
        sc = common.scratch_dir('c19r')
        fs, _, r = near_findings([w['cs']] if w.get('cs') else [], w.get('project_version'), sc, 'replay')
        if r.rc != 0 or r.timed_out:
            print(f'[{PID}] replay: meson setup failed rc={r.rc}')
            return 3
    elif kind == 'meson-flow' and w.get('meson_build'):
        runner.preload()
        sc = common.scratch_dir('c19r')
        r = run_chain_project(w['meson_build'], sc, 'replay')
        if r.rc != 0 or r.timed_out:
            print(f'[{PID}] replay: meson setup failed rc={r.rc}')
            return 3
        fs = flow_findings(r.records, D)[0]
        if 'taken' in w:
            tk = [ln.split('CH|', 1)[1].split('|')[1].strip() for ln in r.out.splitlines() if 'Message:' in ln and 'CH|' in ln]
            if (tk[0] if tk else None) != w.get('expected'):
                fs.append(('meson:if-branch-disagrees-with-reference', w))
    elif kind == 'meson-record':
        G['D'] = D
        c2 = common.Check(PID)
        check_meson_records(c2, [rerun_event(w['event'])], 'replay')
        fs = [(v['mechanism'], v) for v in c2.violations]
    else:
        print(f'[{PID}] replay: witness kind {kind!r} cannot be replayed in isolation; run the tier again')
        return 3
    if fs:
        print(f'[{PID}] replay: STILL FAILS: ' + '; '.join(m for m, _ in fs))
        print(json.dumps(fs[0][1], default=repr)[:800])
        return 1
    print(f'[{PID}] replay: no longer fails')
    return 0


def main() -> int:
    chk = common.Check(PID)
    if os.environ.get('VERIF_REPLAY'):
        return replay(chk, os.environ['VERIF_REPLAY'])
    try:
        U()
    except Exception as e:   # a tree that cannot even be imported
        chk.notes['import_error'] = repr(e)
        return chk.finish(rule='n/a', assumptions=[])
    cells: T.Dict[str, int] = {}
    runner.preload()
    build_domain(chk)
    D = G['D']
    chk.notes['domain_size'] = len(D)
    chk.notes['triples_subdomain'] = len(G['T'])
    for s in D[:3] + D[40:43]:
        chk.sample({'version': s, 'ref_tokens': list(ref.tokens(s))})
    directed_order_probes(chk)
    phase_order(chk, cells)
    phase_many(chk, cells)
    phase_ranges(chk, cells)
    phase_meson(chk)

    for m, mn in [('monitor:order-axioms(pairs)', len(D) ** 2), ('monitor:reference-order(pairs)', len(D) ** 2),
                  ('monitor:transitivity(all-triples-via-<=-matrix)', len(D)), ('monitor:transitivity(direct-triples)', 1000),
                  ('monitor:version_compare(op-spellings)', len(G['VCIDX']) ** 2 * 8), ('monitor:version_compare(stray-blanks)', 1000),
                  ('monitor:version_compare_many(conjunction+partition)', 1000),
                  ('monitor:Range.__contains__(spec x version)', 1000), ('monitor:Range.intersect(membership-iff-both)', len(G['S']) ** 2),
                  ('monitor:Range.always(soundness)', len(G['S']) ** 2),
                  ('monitor:version_check_to_range(superset-of-all,subset-of-non-!=)', 1000),
                  ('monitor:version_check_to_range(start=)', 100),
                  ('monitor:version_compare_condition_with_min', 1000),
                  ('monitor:meson:str.version_compare', 100), ('monitor:meson:Range.intersect', 5), ('monitor:meson:Range.always', 5),
                  ('monitor:meson:version_check_to_range', 5), ('monitor:meson:if-version_compare-branch', 10),
                  ('reach:always@interpreterbase/interpreterbase.py:evaluate_if', 5),
                  ('reach:intersect@interpreterbase/interpreterbase.py:evaluate_if', 5),
                  ('monitor:meson:cond_min(Range-argument)', 1),
                  ('monitor:meson:flow:clauses-with-version-check', 20), ('monitor:meson:flow:clauses-without-version-check', 20),
                  ('monitor:meson:flow:elif-clauses', 20), ('monitor:meson:flow:always-attributed', 20),
                  ('monitor:meson:flow:intersect-attributed', 20), ('monitor:meson:flow:feature-checks-in-narrowed-body', 5),
                  ('monitor:meson:flow:else-blocks', 5), ('monitor:meson:chain-branch-taken', 30),
                  ('monitor:meson:meson.version().version_compare(near-running-version)', 200)]:
        chk.require(m, mn)
    for c in ('always:True', 'always:False', 'always:None', 'intersect:empty', 'intersect:nonempty', 'cond_min:True', 'cond_min:False',
              'to_range:with-!=', 'to_range:empty-result'):
        chk.counters['cell:' + c] = cells.get(c, 0)
        chk.require('cell:' + c, 1)
    truncated = {k: v for k, v in chk.counters.items() if k.startswith('truncated:')}
    # every generated case is a different input (D has no duplicates); chk.distinct holds the *shapes*
    chk.evaluations = sum(chk.counters.get(k, 0) for k in (
        'monitor:order-axioms(pairs)', 'monitor:transitivity(direct-triples)', 'monitor:version_compare(op-spellings)',
        'monitor:version_compare(stray-blanks)', 'monitor:version_compare_many(conjunction+partition)',
        'monitor:Range.__contains__(spec x version)', 'monitor:Range.intersect(membership-iff-both)',
        'monitor:version_check_to_range(superset-of-all,subset-of-non-!=)', 'monitor:version_check_to_range(start=)',
        'monitor:version_compare_condition_with_min', 'monitor:meson:str.version_compare', 'monitor:meson:if-version_compare-branch',
        'monitor:directed-order-probes', 'monitor:meson:chain-branch-taken', 'monitor:meson:flow:clauses',
        'monitor:meson:meson.version().version_compare(near-running-version)'))
    if chk.counters.get('harness:fastpath-not-confirmed'):
        chk.inconclusive.append('harness fast path flagged cases the detail predicate did not confirm')
    return chk.finish(
        rule='a case = one ordered pair / triple of version strings, one (version, constraint spelling), one constraint list x version, '
             'one ordered pair of range specs, one constraint list, one (condition, minimum); every case is a different input (D has no '
             'duplicates); distinct_nontrivial counts structural SHAPES only: (numeric/alphabetic component pattern of a, of b, '
             'expected sign) for pairs, (bound patterns, open/closed flags, bound order) for ranges, operator tuples for constraint '
             'lists, plus each meson-level case (D = all 1- and 2-component strings over 9 components x 4 separators, a seeded '
             'stratified sample of 3-component strings, specials)',
        assumptions=['ASCII version strings only', 'Version/Range methods are pure functions of the field values (membership bitsets are memoised per field tuple)',
                     'brute force over D refutes universally quantified claims; it does not prove them beyond D',
                     'alphabetic components compare like strcmp (class comment: "same version ordering as RPM")',
                     'white space before the operator is undocumented: consistency-only'],
        exhaustive=not truncated,
        extra={'cells': dict(sorted(cells.items())), 'evaluations_total': sum(v for k, v in chk.counters.items() if k.startswith('monitor:'))})


if __name__ == '__main__':
    sys.exit(main())
