"""C02 - Parsing is total, lossless and position-accurate.

Driver: feeds the real ``mparser.Parser(text).parse()`` (from $VERIF_REPO) with
  (1) ALL token sequences up to a bound over a token alphabet, joined with and without blanks,
      plus all shorter sequences placed inside 12 nesting contexts,
  (2) random token soups (<= 60 tokens, nested brackets) and grammar-shaped random programs, unmutated
      and mutated,
  (3) every build file shipped under "test cases" / "manual tests", unmutated and mutated (token
      deletion / duplication / swap / insertion, byte-level edits with quotes, backslashes, CR, tabs, BOM,
      NUL, non-ASCII, foreign line separators),
  (4) a deep-nesting class reported separately: every nesting / chaining shape swept through the WHOLE band of
      depths up to where the parser starts to reject (boundaries found by bisection + an even grid + fixed depths
      10..3000): whatever the parser accepts must also be printable,
  (4b) every byte class (CR, CR LF, LF CR, controls, foreign line separators, BOM, NUL, non-ASCII, surrogates,
      quote / escape / substitution syntax) at every position INSIDE every token kind that carries content
      (the four string kinds, comments, continuations, blanks), in several syntactic contexts - exhaustive product,
  (4c) tokens of extreme length of every kind (decimal literals around Python's 4300-digit int() limit and far
      beyond, long 0x/0o/0b literals, ids, strings, comments, blank runs, newline runs),
  (5) directed probes for every listed finding, and the same contracts installed as a
      ``runner.meson`` monitor around real ``meson setup`` runs (proves the wrapper is reached),
while ``vf.monitors.c02_parse`` judges every outcome (exception policy, byte-exact reprint, token
conservation, extents).  Workers return counts and first witnesses only.
"""
from __future__ import annotations

import json
import os
import random
import sys
import time
import typing as T

from vf import common

common.use_repo()
os.environ.pop('MESON_RUNNING_IN_PROJECT_TESTS', None)   # `testcase` blocks are test-suite-only syntax

from vf.monitors import c02_parse as mon   # noqa: E402
from vf.gen import c02_tokens as gen       # noqa: E402

PID = 'C02'
SCRATCH = ''          # scratch directory for the rewriter splice contract (set in main before forking)
WITNESS_PER_MECH = 2
MAX_WITNESS_TEXT = 30000

# directed probes: re-observed on every run (BUILDER.md rule 3).  After a fix the same text must be handled
# correctly (rejected with a located MesonException, or accepted and reproduced) - the contracts decide.
PROBES: T.Dict[str, T.List[str]] = {
    'not-without-in-dropped': ['x = 1 not', 'x = 1 not\n', 'if a not\nendif\n', 'f(a not)\n', "x = [1, 'a' not]\n",
                               'x = a not in b\n', 'x = not a\n'],
    'dict-key-with-empty-operand-unhashable': ['x = {():1}\n', 'x = {-:1}\n', 'x = {not:1}\n', '{+:', "x = {(a): 1, 'b': 2}\n"],
    'string-escape-unicode-decode-error': ["x = '\\N{foo}'\n", "x = '\\U00110000'\n", "x = f'\\N{nope}'\n",
                                           "x = '\\N{DIGIT ONE}\\U0001F600'\n", "x = '''\\N{foo}'''\n"],
    'positional-after-keyword-argument-reordered': ['f(a: 1, b)\n', 'x = o.m(k: 1, 2, j: 3)\n', 'f(b, a: 1)\n'],
    'eof-column-after-multiline-token': ["f('''a\nbbbbbbbbbbbbbbbbbbbbbbbbbbbbbbbbbbbb'''", "x = a.'''m\nllllllllllllll'''",
                                         "x = ['''a\nb''',", "f('''a\nb'''\n"],
    'rewriter-splitlines-foreign-line-separator': ['# page\x0cbreak\nx = [1]\n', "s = 'a\u2028b'\ny = f(s)\n",
                                                   "# \x85\nexecutable('a', ['a.c'])\n", '# plain\nx = [1]\n'],
    'parser-recursion-error-deep-nesting': ['x = ' + '(' * 200 + '1' + ')' * 200 + '\n', 'x = ' + '[' * 30 + ']' * 30 + '\n'],
    'printer-recursion-error-deep-tree': ['x = 1' + ' + 1' * 500 + '\n', 'x = 1' + ' + 1' * 50 + '\n',
                                          'x = a' + '.m()' * 700 + '\n', 'x = a' + '[0]' * 700 + '\n'],
    'printer-recursion-error-nested-blocks': ['if true\n' * 250 + 'x = 1\n' + 'endif\n' * 250,
                                              'foreach i : l\n' * 300 + 'x = 1\n' + 'endforeach\n' * 300,
                                              'if true\n' * 20 + 'x = 1\n' + 'endif\n' * 20],
    'printer-recursion-error-assignment-chain': ['a = ' * 700 + '1\n', 'a = ' * 20 + '1\n'],
    'internal-error:ValueError:huge-integer-literal': ['x = ' + '1' * 4301 + '\n', '9' * 10000, 'x = ' + '9' * 4300 + '\n',
                                                       'x = [' + '1' * 4299 + ', 0x' + 'f' * 5000 + ']\n',
                                                       'f(0o' + '7' * 6000 + ', 0b' + '1' * 20000 + ')\n'],
}


# --------------------------------------------------------------------------------------------------
# worker side

class Acc:
    """What a worker returns for one work item (plain data)."""

    def __init__(self, workload: str) -> None:
        self.workload = workload
        self.n = 0
        self.status: T.Dict[str, int] = {}
        self.counts: T.Dict[str, int] = {}
        self.mech: T.Dict[str, T.List[T.Any]] = {}     # mechanism -> [count, [witness...]]
        self.shapes: T.Set[T.Any] = set()
        self.node_types: T.Set[str] = set()
        self.rej: T.Set[str] = set()
        self.kinds: T.Dict[str, int] = {}
        self.truncated = False
        self.samples: T.List[T.Any] = []
        self.notes: T.Dict[str, T.Any] = {}

    def one(self, text: str, origin: T.Optional[dict] = None, reparse: bool = True, splice: bool = False) -> mon.Outcome:
        out = mon.check_text(text, reparse=reparse)
        if out.status == 'accepted' and (splice or mon.wants_splice_check(text)) and SCRATCH:
            try:
                c, bad = mon.check_rewriter_splice(text, os.path.join(SCRATCH, f'w{os.getpid()}.build'))
            except Exception as e:       # a fault of the monitor is not a verdict
                c, bad = {'monitor-fault': 1}, [('MONITOR-FAULT', {'where': 'rewriter-splice', 'exception': repr(e)[:300]})]
            for k, v in c.items():
                out.count(k, v)
            out.violations.extend(bad)
        self.n += 1
        self.status[out.status] = self.status.get(out.status, 0) + 1
        for k, v in out.counts.items():
            self.counts[k] = self.counts.get(k, 0) + v
        if out.shape is not None:
            self.shapes.add(out.shape)
            if out.status == 'rejected':
                self.rej.add(out.shape[2])
        if out.node_types:
            self.node_types.update(out.node_types)
        for mechanism, detail in out.violations:
            slot = self.mech.setdefault(mechanism, [0, []])
            slot[0] += 1
            ws = slot[1]
            if len(ws) < WITNESS_PER_MECH or len(text) < max(len(w['text']) for w in ws):
                w = {'workload': self.workload, 'text': text if len(text) <= MAX_WITNESS_TEXT else text[:MAX_WITNESS_TEXT],
                     'text_truncated': len(text) > MAX_WITNESS_TEXT, 'detail': detail}
                if origin:
                    w['origin'] = origin
                ws.append(w)
                ws.sort(key=lambda x: len(x['text']))
                del ws[WITNESS_PER_MECH:]
        return out

    def data(self) -> dict:
        return {'workload': self.workload, 'n': self.n, 'status': self.status, 'counts': self.counts, 'mech': self.mech,
                'shapes': self.shapes, 'node_types': self.node_types, 'rej': self.rej, 'kinds': self.kinds,
                'truncated': self.truncated, 'samples': self.samples, 'notes': self.notes}


def read_like_meson(path: str) -> T.Optional[str]:
    """interpreterbase.read_buildfile: text mode, utf-8 (universal newlines)."""
    try:
        with open(path, encoding='utf-8') as f:
            return f.read()
    except (UnicodeDecodeError, OSError):
        return None


def work(item: tuple) -> dict:
    c0 = time.process_time()
    acc = _work(item)
    d = acc.data()
    d['cpu'] = time.process_time() - c0
    d['cpu_key'] = item[0]
    return d


def _work(item: tuple) -> Acc:
    mon.silence_mlog()
    kind, deadline = item[0], item[1]
    acc = Acc(kind)
    if kind in ('enum', 'ctx'):
        spec = item[2]
        acc.workload = f'{kind}:{spec[0]}:L{spec[1]}'
        texts = gen.exhaustive_texts(spec) if kind == 'enum' else gen.context_texts(spec)
        for i, text in enumerate(texts):
            if not i & 1023 and time.time() > deadline:
                acc.truncated = True
                break
            acc.one(text)
    elif kind == 'soup':
        _, _, seed, idx, count = item
        rng = random.Random(f'C02:soup:{seed}:{idx}')
        for i in range(count):
            if not i & 63 and time.time() > deadline:
                acc.truncated = True
                break
            text = gen.soup(rng, 60)
            out = acc.one(text)
            if idx == 0 and i < 2:
                acc.samples.append({'workload': 'soup', 'text': text, 'status': out.status})
    elif kind == 'prog':
        _, _, seed, idx, count = item
        rng = random.Random(f'C02:prog:{seed}:{idx}')
        for i in range(count):
            if not i & 15 and time.time() > deadline:
                acc.truncated = True
                break
            text = gen.Prog(rng).program()
            out = acc.one(text)
            acc.kinds['prog:unmutated:' + out.status] = acc.kinds.get('prog:unmutated:' + out.status, 0) + 1
            if idx == 0 and i < 1:
                acc.samples.append({'workload': 'prog', 'text': text, 'status': out.status})
            m = text
            for _k in range(rng.randint(1, 3)):
                mk, m = gen.mutate(rng, m)
            acc.one(m, {'base': 'prog', 'last_mutation': mk})
            acc.kinds['mut:' + mk] = acc.kinds.get('mut:' + mk, 0) + 1
    elif kind == 'corpus':
        _, _, seed, paths, nmut = item
        rejected_files = []
        for path in paths:
            if time.time() > deadline:
                acc.truncated = True
                break
            text = read_like_meson(path)
            rel = os.path.relpath(path, common.REPO)
            if text is None:
                acc.kinds['corpus:undecodable'] = acc.kinds.get('corpus:undecodable', 0) + 1
                continue
            acc.workload = 'corpus:unmutated'
            out = acc.one(text, {'file': rel}, splice=True)
            acc.kinds['corpus:file:' + out.status] = acc.kinds.get('corpus:file:' + out.status, 0) + 1
            if out.status != 'accepted':
                rejected_files.append(rel)
            rng = random.Random(f'C02:corpus:{seed}:{rel}')
            acc.workload = 'corpus:mutated'
            order = list(gen.MUTATION_KINDS)
            rng.shuffle(order)
            for k in range(nmut):
                mk, m = gen.mutate(rng, text, order[k % len(order)])
                if rng.random() < 0.25:
                    mk2, m = gen.mutate(rng, m)
                    mk = mk + '+' + mk2
                o = acc.one(m, {'file': rel, 'mutation': mk}, reparse=len(m) < 6000 or k == 0)
                acc.kinds['mut:' + mk.split('+')[0]] = acc.kinds.get('mut:' + mk.split('+')[0], 0) + 1
                acc.kinds['corpus:mutant:' + o.status] = acc.kinds.get('corpus:mutant:' + o.status, 0) + 1
        acc.workload = 'corpus'
        acc.notes['rejected_files'] = rejected_files
    elif kind == 'bytes':
        _, _, tkind = item
        acc.workload = 'bytes:' + tkind
        cells: T.Dict[str, T.List[int]] = {}           # payload -> [accepted, rejected, other]
        for i, (payload, text) in enumerate(gen.byte_class_texts(tkind)):
            if not i & 255 and time.time() > deadline:
                acc.truncated = True
                break
            out = acc.one(text, {'token_kind': tkind, 'payload': payload})
            cell = cells.setdefault(payload, [0, 0, 0])
            cell[0 if out.status == 'accepted' else 1 if out.status == 'rejected' else 2] += 1
        acc.notes['bytes'] = [tkind, cells]
    elif kind == 'extreme':
        _, _, tkind = item
        acc.workload = 'extreme:' + tkind
        by_len: T.Dict[str, T.List[int]] = {}          # length -> [accepted, rejected, other]
        for n, text in gen.extreme_length_texts(tkind):
            if time.time() > deadline:
                acc.truncated = True
                break
            out = acc.one(text, {'token_kind': tkind, 'length': n}, reparse=n <= 4302)
            cell = by_len.setdefault(str(n), [0, 0, 0])
            cell[0 if out.status == 'accepted' else 1 if out.status == 'rejected' else 2] += 1
        acc.notes['extreme'] = [tkind, by_len]
    elif kind == 'deepband':
        _, _, form, ngrid = item
        acc.workload = 'deep'
        mk = gen.DEEP_FORMS[form]
        seen: T.Dict[int, str] = {}
        details: T.Dict[int, dict] = {}

        def cls(depth: int) -> str:
            if depth not in seen:
                # slice re-parsing is quadratic in the depth: only at small depths and two fixed larger ones
                out = acc.one(mk(depth), {'form': form, 'depth': depth}, reparse=depth <= 12 or depth in (30, 60))
                c = out.status
                for mechanism, d in out.violations:
                    c = mechanism
                    details[depth] = d
                    break
                seen[depth] = c
            return seen[depth]

        def first(lo: int, hi: int, pred: T.Callable[[str], bool]) -> int:
            # smallest depth in (lo, hi] satisfying pred, given pred(hi) and (assumed) not pred(lo)
            while hi - lo > 1 and time.time() < deadline:
                mid = (lo + hi) // 2
                if pred(cls(mid)):
                    hi = mid
                else:
                    lo = mid
            return hi

        def unprintable(c: str) -> bool:
            return c not in ('accepted', 'rejected')

        top = gen.DEEP_MAX
        first_rejected: T.Optional[int] = None
        if cls(top) == 'rejected':
            first_rejected = first(0, top, lambda c: c == 'rejected')
            top = first_rejected - 1
        first_bad: T.Optional[int] = None
        if top >= 1 and unprintable(cls(top)):
            first_bad = first(0, top, unprintable)
        # the band below the rejection boundary, evenly; the boundary itself; the fixed depths (monotonicity is an
        # assumption of the bisections only - these points do not depend on it)
        if first_rejected is None and first_bad is None:
            span = 0                        # wide-not-deep controls: no band, the fixed depths only
        elif first_rejected is None:
            span = min(top, 2 * T.cast(int, first_bad))    # flat chains the parser never rejects: up to twice the failing depth
        else:
            span = top
        grid = {max(1, (span * k) // ngrid) for k in range(1, ngrid + 1)} if span >= 1 else set()
        grid.update(d for d in (top - 2, top - 1, top, top + 1, top + 2, top + 10) if 1 <= d <= gen.DEEP_MAX)
        grid.update(gen.DEEP_DEPTHS)
        for depth in sorted(grid):
            if time.time() > deadline:
                acc.truncated = True
                break
            cls(depth)
        bad = sorted(d for d, c in seen.items() if unprintable(c))
        # the witness of a recursion mechanism: not the first failing depth (it fails only under exactly this
        # process's stack depth - a replay from a shallower stack would pass) but one well inside the failing band
        for mechanism, slot in list(acc.mech.items()):
            if 'recursion' not in mechanism:
                continue
            ds = [d for d in bad if seen[d] == mechanism]
            if not ds:
                continue
            want = min(ds[-1], ds[0] + max(25, ds[0] // 4))
            if cls(want) != mechanism:
                want = max(d for d in ds if d <= want)
            text = mk(want)
            slot[1] = [{'workload': 'deep', 'text': text[:MAX_WITNESS_TEXT], 'text_truncated': len(text) > MAX_WITNESS_TEXT,
                        'detail': details.get(want, {}), 'origin': {'form': form, 'depth': want, 'first_failing_depth': ds[0],
                                                                   'last_failing_depth_examined': ds[-1]}}]
        acc.notes['deepband'] = {
            'form': form, 'first_rejected': first_rejected, 'first_unprintable': first_bad if first_bad is not None else (bad[0] if bad else None),
            'last_unprintable': bad[-1] if bad else None, 'unprintable_as': sorted({seen[d] for d in bad}),
            'depths_examined': len(seen), 'table': {str(d): seen[d] for d in gen.DEEP_DEPTHS if d in seen},
            'accepted_and_printed_up_to': max((d for d, c in seen.items() if c == 'accepted'), default=None),
        }
    elif kind == 'probe':
        _, _, mechanism, texts = item
        acc.workload = 'probe:' + mechanism
        seen = 0
        for text in texts:
            out = acc.one(text, {'probe_for': mechanism}, splice=True)
            if any(m == mechanism for m, _d in out.violations):
                seen += 1
        acc.notes['probe'] = [mechanism, seen, len(texts)]
    return acc


# --------------------------------------------------------------------------------------------------
# parent side

def judge_text(text: str) -> T.List[T.Tuple[str, dict]]:
    """All contracts (parse contracts + rewriter splice) on one text, in this process."""
    out = mon.check_text(text)
    v = list(out.violations)
    if out.status == 'accepted' and SCRATCH:
        v.extend(mon.check_rewriter_splice(text, os.path.join(SCRATCH, f'w{os.getpid()}.build'), max_nodes=4)[1])
    return v


def minimise(text: str, mechanism: str, budget: float = 3.0) -> str:
    """Greedy delta-debugging over tokens: keep `mechanism` firing."""
    t_end = time.time() + budget

    def fires(t: str) -> bool:
        return any(m == mechanism for m, _d in judge_text(t))

    toks = gen.split_tokens(text)
    if len(toks) > 4000 or not fires(text):
        return text
    n = 2
    while len(toks) >= 2 and time.time() < t_end:
        size = max(1, len(toks) // n)
        reduced = False
        for i in range(0, len(toks), size):
            cand = toks[:i] + toks[i + size:]
            if cand and fires(''.join(cand)):
                toks = cand
                n = max(n - 1, 2)
                reduced = True
                break
            if time.time() > t_end:
                break
        if not reduced:
            if size == 1:
                break
            n = min(len(toks), n * 2)
    return ''.join(toks)


def wrapped_selftest(chk: common.Check, merge: T.Callable[[dict], None]) -> None:
    """The same contracts installed as a runner.meson monitor around real `meson setup` runs."""
    from vf import runner
    root = common.scratch_dir('c02')
    projects = {
        'good': {'meson.build': "project('p', version : '1')\nx = [1, 2]\nsubdir('sub')\nmessage('ok', x)\n",
                 'sub/meson.build': "y = {'k' : files('a.txt')}\nif y.has_key('k')\n  z = f'@x@'\nendif\n",
                 'sub/a.txt': 'a\n', 'meson.options': "option('o', type : 'string', value : 'v')\n"},
        'syntax-error': {'meson.build': "project('p')\nx = [1, 2\n"},
        'dangling-not': {'meson.build': "project('p')\nx = 1 not\n"},
    }
    for name, files in projects.items():
        src = os.path.join(root, name)
        runner.write_tree(src, files)
        r = runner.meson(['setup', '--backend=none', os.path.join(root, name + '-b'), src], cwd=src,
                         monitors=[mon.install], timeout=120, env={'MESON_FORCE_BACKTRACE': ''})
        if r.timed_out:
            chk.inconclusive_case('wrapped-selftest-timeout')
            continue
        calls = 0
        for rec in r.records:
            if rec.get('c02') == 'summary':
                calls = rec['counters'].get('contract:parse', 0)
                chk.count('wrapped:parse-calls', calls)
                for k, v in rec['counters'].items():
                    if k.startswith('status:'):
                        chk.count('wrapped:' + k, v)
            elif rec.get('c02') == 'violation':
                chk.violation(rec['mechanism'], {'workload': 'wrapped:' + name, 'text': rec['text'], 'detail': rec['detail'],
                                                 'file': os.path.basename(rec.get('file', ''))})
                chk.count('wrapped:violations-recorded')
        if name == 'good' and (r.rc != 0 or r.traceback):
            chk.violation('wrapped-selftest-good-project-failed', {'workload': 'wrapped:good', 'text': files['meson.build'], 'result': r.brief()})
        if name == 'syntax-error' and (r.rc == 0 or r.traceback):
            chk.violation('wrapped-selftest-syntax-error-not-reported', {'workload': 'wrapped:syntax-error', 'text': files['meson.build'], 'result': r.brief()})
        if r.traceback:
            chk.count('wrapped:tracebacks')


def replay(chk: common.Check, path: str) -> int:
    mon.silence_mlog()
    with open(path, encoding='utf-8') as f:
        w = json.load(f)
    text = w.get('text')
    if not isinstance(text, str) or w.get('text_truncated'):
        print(f'[{PID}] replay: witness has no complete text; re-run the tier with seed {w.get("seed")}')
        return 3
    global SCRATCH
    SCRATCH = common.scratch_dir('c02')
    out = mon.check_text(text)
    violations = judge_text(text)
    print(f'[{PID}] replay {path}: status={out.status}')
    for mechanism, detail in violations:
        print(f'  mechanism={mechanism} ' + json.dumps(detail, default=repr, ensure_ascii=True)[:500])
    want = w.get('mechanism')
    still = any(m == want for m, _d in violations) if want else bool(violations)
    print(f'[{PID}] replay: ' + ('STILL FAILS' if still else ('other violation' if violations else 'no longer fails')))
    return 1 if violations else 0


def main() -> int:
    chk = common.Check(PID)
    if os.environ.get('VERIF_REPLAY'):
        return replay(chk, os.environ['VERIF_REPLAY'])
    mon.silence_mlog()
    global SCRATCH
    SCRATCH = common.scratch_dir('c02')
    import mesonbuild.rewriter  # noqa: F401  (imported once, before the workers fork)
    quick = chk.tier == 'quick'
    t0 = time.time()
    # two deadlines: the sampled workloads (soups, programs, in-context sequences) stop early and merely show
    # smaller counts; the deciding workloads (corpus, exhaustive enumeration, probes) get the whole budget and
    # make the run inconclusive if even that is not enough (overloaded machine)
    try:      # VERIF_BUDGET_SCALE > 1 stretches both deadlines (for a machine shared with other jobs)
        scale = max(0.1, float(os.environ.get('VERIF_BUDGET_SCALE', '1')))
    except ValueError:
        scale = 1.0
    budget = (165.0 if quick else 1150.0) * scale
    deadline = t0 + budget
    soft_deadline = t0 + (100.0 if quick else 950.0) * scale

    # ---- work list --------------------------------------------------------------------------------
    L = 4 if quick else 5
    items: T.List[tuple] = []
    enum_bounds = {'core': L, 'full': L - 1}
    for spec in gen.exhaustive_items('core', L):
        items.append(('enum', deadline, spec))
    for alphabet in ('full',):
        for spec in gen.exhaustive_items(alphabet, L - 1):
            items.append(('enum', deadline, spec))
    for ln in range(1, L - 1):        # all shorter lengths (full alphabet)
        for spec in gen.exhaustive_items('full', ln):
            items.append(('enum', deadline, spec))
    ctx_bounds = {'full': 2 if quick else 3, 'core': 3}
    for alphabet, cl in ctx_bounds.items():
        for ln in range(1, cl + 1):
            for spec in gen.exhaustive_items(alphabet, ln):
                items.append(('ctx', soft_deadline, spec))
    n_soup, n_prog = (20000, 3000) if quick else (300000, 60000)
    per = 500
    first: T.List[tuple] = []           # a minimal slice of the sampled workloads always runs (deciding deadline)
    for idx in range(n_soup // per):
        (first if idx < 4 else items).append(('soup', deadline if idx < 4 else soft_deadline, chk.seed, idx, per))
    for idx in range(n_prog // 100):
        (first if idx < 5 else items).append(('prog', deadline if idx < 5 else soft_deadline, chk.seed, idx, 100))
    files = gen.corpus_files(common.REPO)
    nmut = 3 if quick else 20
    fper = 8 if quick else 4
    for i in range(0, len(files), fper):
        items.append(('corpus', deadline, chk.seed, files[i:i + fper], nmut))
    for mechanism, texts in PROBES.items():
        items.append(('probe', deadline, mechanism, texts))
    for tkind in gen.TOKEN_CONTENT:
        items.append(('bytes', deadline, tkind))
    for tkind in gen.EXTREME_TOKENS:
        items.append(('extreme', deadline, tkind))
    only = os.environ.get('VERIF_C02_ONLY')      # development aid: comma list of workload kinds
    if only:
        items = [it for it in items if it[0] in only.split(',')]
    # the deciding part first (corpus, exhaustive enumeration, probes: a time-budget cut there makes the run
    # inconclusive); the sampled part after it (a cut there only lowers the counts shown in the evidence)
    weight = {'probe': 0, 'bytes': 0, 'extreme': 0, 'corpus': 1, 'enum': 2, 'prog': 3, 'ctx': 4, 'soup': 5}   # cheap deciding items first
    items.sort(key=lambda it: weight[it[0]])
    items = first + items

    results = common.pmap(work, items, chk.jobs, timeout=budget + 600)

    # deep nesting: own pool (a crashing interpreter must not take the other results with it)
    deep_items = [('deepband', deadline + 120, form, 8 if quick else 64) for form in gen.DEEP_FORMS]
    if only and 'deepband' not in only.split(','):
        deep_items = []
    try:
        deep_results = common.pmap(work, deep_items, chk.jobs, timeout=600)
    except Exception as e:   # BrokenProcessPool etc.
        deep_results = []
        chk.inconclusive.append(f'deep-nesting pool failed: {type(e).__name__}')

    # ---- aggregate --------------------------------------------------------------------------------
    workloads: T.Dict[str, T.Dict[str, int]] = {}
    mech_total: T.Dict[str, int] = {}
    mech_wit: T.Dict[str, T.List[dict]] = {}
    node_types: T.Set[str] = set()
    rej: T.Set[str] = set()
    kinds: T.Dict[str, int] = {}
    truncated = 0
    rejected_files: T.List[str] = []
    deep_table: T.Dict[str, T.Dict[str, str]] = {}
    deep_band: T.Dict[str, dict] = {}
    byte_matrix: T.Dict[str, T.Dict[str, T.List[int]]] = {}
    extreme_matrix: T.Dict[str, T.Dict[str, T.List[int]]] = {}
    probes: T.Dict[str, T.List[int]] = {}

    cpu: T.Dict[str, float] = {}
    trunc_kind: T.Dict[str, int] = {}

    def merge(r: dict) -> None:
        nonlocal truncated
        cpu[r['cpu_key']] = cpu.get(r['cpu_key'], 0.0) + r['cpu']
        wl = workloads.setdefault(r['workload'], {'cases': 0})
        wl['cases'] += r['n']
        for k, v in r['status'].items():
            wl[k] = wl.get(k, 0) + v
        chk.evaluations += r['n']
        chk.merge_counts(r['counts'])
        for s in r['shapes']:
            chk.distinct.add(repr(s))
        node_types.update(r['node_types'])
        rej.update(r['rej'])
        for k, v in r['kinds'].items():
            kinds[k] = kinds.get(k, 0) + v
        if r['truncated']:
            truncated += 1
            trunc_kind[r['cpu_key']] = trunc_kind.get(r['cpu_key'], 0) + 1
        for s in r['samples']:
            chk.sample(s)
        for mechanism, (cnt, ws) in r['mech'].items():
            mech_total[mechanism] = mech_total.get(mechanism, 0) + cnt
            cur = mech_wit.setdefault(mechanism, [])
            cur.extend(ws)
            cur.sort(key=lambda x: len(x['text']))
            del cur[3:]
        rejected_files.extend(r['notes'].get('rejected_files', []))
        if 'deepband' in r['notes']:
            b = dict(r['notes']['deepband'])
            deep_table[b['form']] = b.pop('table')
            deep_band[b.pop('form')] = b
        if 'bytes' in r['notes']:
            tkind, cells = r['notes']['bytes']
            byte_matrix[tkind] = cells
        if 'extreme' in r['notes']:
            tkind, by_len = r['notes']['extreme']
            extreme_matrix[tkind] = by_len
        if 'probe' in r['notes']:
            m, seen, n = r['notes']['probe']
            probes[m] = [seen, n]

    for r in results:
        merge(r)
    for r in deep_results:
        merge(r)

    if 'monitor-fault' in chk.counters or 'MONITOR-FAULT' in mech_total:
        # a fault of the monitor is never a verdict about meson: inconclusive, witness kept in the evidence notes
        chk.inconclusive.append('the monitor itself raised on some case (see notes.monitor_fault)')
        chk.notes['monitor_fault'] = mech_wit.get('MONITOR-FAULT', [])[:2]
        mech_total.pop('MONITOR-FAULT', None)

    # every observed mechanism goes through the known-findings filter; unlisted ones are minimised first
    for mechanism in sorted(mech_total):
        ws = mech_wit[mechanism]
        chk.count('violation-cases:' + mechanism, mech_total[mechanism])
        for k, w in enumerate(ws[:2]):
            w = dict(w)
            if mechanism not in chk.known and k == 0 and not w.get('text_truncated') and 'recursion' not in mechanism:
                # (recursion mechanisms are not minimised: the smallest failing text depends on the stack depth of
                # the process that judges it and would not replay)
                small = minimise(w['text'], mechanism)
                if len(small) < len(w['text']):
                    w['original_length'] = len(w['text'])
                    w['text'] = small
                    w['minimised'] = True
                    w['detail'] = next((d for m, d in judge_text(small) if m == mechanism), w['detail'])
            w['cases_with_this_mechanism'] = mech_total[mechanism]
            chk.violation(mechanism, w)
        if mechanism in chk.known and mech_total[mechanism] > 2:
            chk.known_hits[mechanism] += mech_total[mechanism] - min(2, len(ws))

    # the installable wrapper, exercised through the fork server
    try:
        wrapped_selftest(chk, merge)
    except Exception as e:
        chk.inconclusive.append(f'wrapped self-test failed to run: {type(e).__name__}: {e}')

    for m, (seen, n) in probes.items():
        chk.count(f'probe:{m}:defect-observed', seen)
        chk.count(f'probe:{m}:texts', n)
    chk.count('workload:corpus-files', kinds.get('corpus:file:accepted', 0) + kinds.get('corpus:file:rejected', 0)
              + kinds.get('corpus:file:internal-error', 0))
    chk.count('workload:budget-truncated-items', truncated)
    must_cut = sum(v for k, v in trunc_kind.items() if k in ('enum', 'corpus', 'probe', 'deepband', 'bytes', 'extreme'))
    if must_cut:
        chk.inconclusive.append(f'{must_cut} work items of the exhaustive/corpus part stopped at the time budget '
                                f'(machine too loaded?): {trunc_kind}')
    sampled = {k: workloads.get(k, {}).get('cases', 0) for k in ('soup', 'prog')}
    chk.count('workload:soup-cases', sampled['soup'])
    chk.count('workload:prog-cases', sampled['prog'])
    chk.require('workload:soup-cases', 2000)
    chk.require('workload:prog-cases', 500)

    for name in ('contract:parse', 'contract:roundtrip', 'contract:token-conservation', 'contract:trivia-conservation',
                 'contract:extent:function', 'contract:extent:array', 'contract:extent:method', 'contract:extent-reparse',
                 'policy:exception-located', 'wrapped:parse-calls', 'contract:rewriter-splice'):
        chk.require(name, 1)
    chk.require('workload:corpus-files', 1000)
    # the deep-nesting band: every form must have been swept (boundaries located), and the byte-class product must
    # have reached accepted trees for every token kind that carries content
    chk.count('workload:deep-band-forms', len(deep_band))
    chk.count('workload:deep-band-cases', sum(b['depths_examined'] for b in deep_band.values()))
    chk.count('workload:deep-band-forms-with-parser-limit', sum(1 for b in deep_band.values() if b['first_rejected']))
    chk.count('workload:byte-class-cases', sum(sum(c) for cells in byte_matrix.values() for c in cells.values()))
    for tkind, cells in byte_matrix.items():
        chk.count(f'workload:byte-class:{tkind}:accepted', sum(c[0] for c in cells.values()))
        chk.count(f'workload:byte-class:{tkind}:payloads-accepted', sum(1 for c in cells.values() if c[0]))
    chk.count('workload:extreme-length-cases', sum(sum(c) for cells in extreme_matrix.values() for c in cells.values()))
    for tkind, cells in extreme_matrix.items():
        chk.count(f'workload:extreme-length:{tkind}:accepted', sum(c[0] for c in cells.values()))
        chk.count(f'workload:extreme-length:{tkind}:rejected', sum(c[1] for c in cells.values()))
    if not only:
        chk.require('workload:extreme-length-cases', 1500)
        for tkind in gen.EXTREME_TOKENS:
            if tkind != 'zero-led':
                chk.require(f'workload:extreme-length:{tkind}:accepted', 10)
        chk.require('workload:deep-band-forms', len(gen.DEEP_FORMS))
        chk.require('workload:deep-band-forms-with-parser-limit', 10)
        chk.require('workload:byte-class-cases', 5000)
        for tkind in gen.TOKEN_CONTENT:
            chk.require(f'workload:byte-class:{tkind}:payloads-accepted', 5)
    for m in PROBES:
        chk.require(f'probe:{m}:texts', 1)

    first_recursion = {form: b['first_unprintable'] for form, b in deep_band.items()}

    chk.sample({'workload': 'enum', 'text': "a = [ 1 ]", 'note': 'one of the exhaustively enumerated sequences'})
    return chk.finish(
        rule=('a case is one input text handed to the real Parser; distinct_nontrivial counts distinct structural '
              'signatures: (accepted, sequence of node classes reachable from the tree) or (rejected, exception class, '
              'message with literals blanked)'),
        assumptions=[
            'inputs are Python str (files are decoded as UTF-8 in text mode before parsing, as meson does)',
            f'exhaustive only up to the stated bounds: core alphabet (24 forms) to length {L}, full alphabet '
            f'({len(gen.FULL)} forms) to length {L - 1}, both joined with one blank and with nothing',
            'MESON_RUNNING_IN_PROJECT_TESTS is unset: `testcase` blocks (test-suite-only syntax) are not covered',
            'machine-file mode of the lexer (machinefile=True) is not covered',
            'extent contracts for MethodNode/DictNode/ParenthesizedNode go beyond the property text (function calls and '
            'array literals) and are reported under their own mechanism names',
        ],
        exhaustive=(must_cut == 0),
        extra={
            'workloads': {k: workloads[k] for k in sorted(workloads)},
            'exhaustive_bounds': {'sequence_length': enum_bounds, 'in_context_length': ctx_bounds, 'joiners': list(gen.JOINERS),
                                  'contexts': list(gen.CONTEXTS)},
            'node_classes_seen_in_accepted_trees': sorted(node_types),
            'rejection_message_classes': len(rej),
            'rejection_message_samples': sorted(rej)[:40],
            'mutation_kinds': {k: v for k, v in sorted(kinds.items())},
            'corpus_files_rejected_unmutated': sorted(rejected_files),
            'mechanisms_observed': dict(sorted(mech_total.items())),
            'deep_nesting': {'depths': list(gen.DEEP_DEPTHS), 'max_depth': gen.DEEP_MAX,
                             'first_depth_with_recursion_error': first_recursion,
                             'band': {k: deep_band[k] for k in sorted(deep_band)}, 'table': deep_table},
            'byte_classes_inside_tokens': {
                'payloads': [repr(x) for x in gen.BYTE_CLASSES],
                'cases_accepted_rejected_other_by_token_kind': {k: [sum(c[i] for c in cells.values()) for i in range(3)]
                                                                for k, cells in sorted(byte_matrix.items())},
                'payloads_never_accepted_by_token_kind': {k: sorted(repr(pl) for pl, c in cells.items() if not c[0])
                                                          for k, cells in sorted(byte_matrix.items())}},
            'extreme_length_tokens': {'lengths': list(gen.EXTREME_LENGTHS),
                                      'accepted_rejected_other_by_kind_and_length': {k: extreme_matrix[k] for k in sorted(extreme_matrix)}},
            'probes': probes,
            'cpu_seconds_by_workload': {k: round(v, 1) for k, v in sorted(cpu.items())},
            'work_items_cut_by_time_budget': trunc_kind,
        })


if __name__ == '__main__':
    sys.exit(main())
