"""C13 - compiler argument lists honour the append/override/dedup contract.

Workloads (all run the REAL CompilerArgs / CLikeCompilerArgs of $VERIF_REPO under vf.monitors.c13_shadow):
  P  directed probes: the examples of the class docstring, the two known findings
  1  exhaustive operation sequences (search tree over lazy states, every node verified)
  2  random operation sequences up to length 60 over several interacting lists
  3  the same shadow inside real `meson setup` runs of generated C projects
  4  end to end: -D/-U order + effective macro values (gcc -E -dM) and include-directory order in the
     ARGS of the compile statements of the generated build.ninja; pkg-config dependencies whose Libs:/Cflags: repeat
     non-dedupable arguments (reference: what the real pkg-config prints); library arguments on COMPILE lines of
     multi-source targets: library group once and in place on every ARGS/LINK_ARGS, identical ARGS for all sources of a
     target, and (shadow, in the meson child) every conversion equals the meaning of the increments alone, whatever
     other consumers read or converted the list before
"""
from __future__ import annotations

import functools
import hashlib
import json
import os
import random
import re
import shlex
import shutil
import subprocess
import sys
import time
import typing as T

from vf import common, runner
from vf.monitors import c13_shadow as S
from vf.ref import refargs

PID = 'C13'

# ---------------------------------------------------------------------------------------------------
# alphabet and operations
# ---------------------------------------------------------------------------------------------------
A13 = ['-Ia', '-Ib', '-La', '-Lb', '-DX', '-UX', '-isystem/usr/include', '-lfoo', 'libx.a', '-pthread', '-O2',
       '-Wl,--as-needed', '-I']
EXTRA = ['/abs/liby.a', '/abs/o.o', '-lm', '-isystem', '/usr/include', '-isystem=/usr/include', '-isystemq',
         '-Wl,-rpath,/x', '/opt/libz.so.1.2', '-D', 'x.c', '-Wl,-lbar', '-c', '-DY=1', '-L',
         '-U', '-l', '-Wl,-rpath,', 'FOO=1', 'BAR=2', '/q/inc']
# two-token spellings: a bare prefix token is an ordinary non-dedupable argument defined by what follows it
BARE_PAIRS = [['-D', 'FOO=1', '-D', 'BAR=2'], ['-U', 'FOO', '-U', 'BAR'], ['-isystem', '/q/inc', '-isystem', '/r/inc'],
              ['-I', 'inc1', '-I', 'inc2'], ['-L', 'd1', '-L', 'd2'], ['-l', 'a', '-l', 'b'],
              ['-Wl,-rpath,', '/x', '-Wl,-rpath,', '/y'], ['-D', 'FOO=1'], ['-isystem', '/q/inc']]
R6 = ['-Ia', '-Ib', '-DX', '-lfoo', '-O2', '-I']
R3 = ['-Ia', '-Ib', '-DX']

READ_OPS = [['iter'], ['len'], ['getitem', 0], ['getitem', -1], ['to_native', True], ['to_native', False],
            ['to_native_use', False], ['to_native_use', True], ['to_native_keep', False],
            ['eq_list'], ['eq_other_pending'], ['eq_other_clean'], ['repr']]


def full_ops() -> T.List[list]:
    ops: T.List[list] = [['iadd', [a]] for a in A13]
    ops += [['iadd', [a, b]] for a in R6 for b in R6]
    ops += [['iadd', [a, b, c]] for a in R3 for b in R3 for c in R3]
    ops += [['append_direct', a] for a in ('-Ia', '-DX', 'libx.a', '/abs/liby.a', '-O2')]
    ops += [['extend_direct', ['-Ia', '-Ia']], ['extend_direct', ['libx.a', '/abs/liby.a']],
            ['extend_direct', ['/abs/liby.a', '-lfoo']]]
    ops += [['insert', i, a] for i in (0, 1) for a in ('-Ia', '-DX', '-O2')]
    ops += [['del', 0], ['del', -1], ['set', 0, '-DX']]
    ops += [['iadd', list(b)] for b in BARE_PAIRS]
    ops += [['extend_direct', ['-La', '-lfoo', '-lfoo', '-Lb']], ['factory_copy']]
    ops += [['copy'], ['fork'], ['init_from'], ['add', ['-Ib', '-DX']], ['radd', ['-Ib', '-DX']], ['epl', ['-lm', '-lfoo', '-La', '-DX']]]
    ops += READ_OPS
    return ops


def small_ops() -> T.List[list]:
    ops: T.List[list] = [['iadd', [a]] for a in ('-Ia', '-Ib', '-DX', '-lfoo', '-O2')]
    ops += [['iadd', ['-Ia', '-Ib']], ['iadd', ['-DX', '-Ia']], ['iadd', ['-lfoo', '-DX']]]
    ops += [['insert', 0, '-Ia'], ['insert', 1, '-DX'], ['append_direct', '-Ia'], ['copy']]
    ops += [['iter'], ['getitem', 0], ['len'], ['to_native', True]]
    ops += [['iadd', ['-D', 'FOO=1', '-D', 'BAR=2']], ['factory_copy'], ['to_native_use', False]]
    return ops


OPSETS = {'full': full_ops, 'small': small_ops}

_FAKES: T.Dict[str, T.Any] = {}


def fakes() -> T.Dict[str, T.Any]:
    """Compiler stand-ins: only what to_native() asks of a compiler (GNU-like linker or not, default include
    directories, identity translation).  They are environment, not the logic under test."""
    if _FAKES:
        return _FAKES
    from mesonbuild.compilers import compilers
    from mesonbuild.linkers import linkers
    from mesonbuild.compilers.mixins.clike import CLikeCompilerArgs
    from mesonbuild.arglist import CompilerArgs

    class FakeGnuLd(linkers.GnuLikeDynamicLinkerMixin):   # type: ignore[misc]
        def __init__(self) -> None:
            pass

    from mesonbuild.compilers.mixins.clike import CLikeCompiler

    class FakeCompiler(CLikeCompiler, compilers.Compiler):   # type: ignore[misc]
        # compiler_args() is the REAL factory of CLikeCompiler
        def __init__(self, name: str, linker: T.Any, dirs: T.List[str]) -> None:
            self._name = name
            self.linker = linker
            self._dirs = dirs

        def get_default_include_dirs(self) -> T.List[str]:
            return list(self._dirs)

        # unix_args_to_native() is the REAL one of Compiler (GCC syntax is native)
        info = None

        def __repr__(self) -> str:
            return f'<{self._name}>'

    FakeCompiler.__abstractmethods__ = frozenset()        # type: ignore[misc]

    class FakeStaticLinker(linkers.StaticLinker):          # type: ignore[misc]
        # compiler_args() is the REAL factory of StaticLinker
        def __init__(self) -> None:
            pass

        # unix_args_to_native() is the REAL one of StaticLinker

        def __repr__(self) -> str:
            return '<ar>'

    _FAKES.update({
        'gnu': (CLikeCompilerArgs, FakeCompiler('gnu', FakeGnuLd(), ['/usr/include'])),
        'plain': (CLikeCompilerArgs, FakeCompiler('plain', None, [])),
        'base': (CompilerArgs, FakeStaticLinker()),
    })
    return _FAKES


def new_list(kind: str, initial: T.Optional[T.List[str]] = None) -> T.Any:
    cls, comp = fakes()[kind]
    return cls(comp, initial)


def apply_op(obj: T.Any, op: list, kind: str) -> T.Any:
    """One public operation on the real list. Returns the list to continue with."""
    name = op[0]
    try:
        if name == 'iadd':
            obj += list(op[1])
        elif name == 'append':
            obj.append(op[1])
        elif name == 'extend':
            obj.extend(list(op[1]))
        elif name == 'extend_gen':
            obj.extend(x for x in op[1])
        elif name == 'append_direct':
            obj.append_direct(op[1])
        elif name == 'extend_direct':
            obj.extend_direct(list(op[1]))
        elif name == 'epl':
            obj.extend_preserving_lflags(list(op[1]))
        elif name == 'insert':
            obj.insert(op[1], op[2])
        elif name == 'del':
            del obj[op[1]]
        elif name == 'delslice':
            del obj[op[1]:op[2]]
        elif name == 'set':
            obj[op[1]] = op[2]
        elif name == 'setslice':
            obj[op[1]:op[2]] = list(op[3])
        elif name == 'copy':
            obj = obj.copy()
        elif name == 'fork':
            # a copy that is then changed must not change the original (the sequence goes on with the original)
            c = obj.copy()
            c += ['-Wfork', '-DX', '-Ia']
            c.insert(0, '-Wfork2')
            del c[-1]
            for _ in c:
                pass
            c2 = obj + ['-Wfork3', '-Ib']
            c2.append_direct('-Wfork4')
            for _ in c2:
                pass
        elif name == 'add':
            obj = obj + list(op[1])
        elif name == 'radd':
            obj = list(op[1]) + obj
        elif name == 'iter':
            for _ in obj:
                pass
        elif name == 'len':
            len(obj)
        elif name == 'bool':
            bool(obj)
        elif name == 'getitem':
            obj[op[1]]
        elif name == 'getslice':
            obj[op[1]:op[2]]
        elif name == 'to_native':
            obj.to_native(copy=bool(op[1]))
        elif name == 'to_native_use':
            # the consumer completes ITS command line; the argument list must not change (checked by later reads)
            cmd = obj.to_native(copy=bool(op[1]))
            cmd.insert(0, 'cc')
            cmd += ['-o', 'x.o', '-c', 'x.c']
        elif name == 'to_native_keep':
            # a command line handed out earlier must not change when the list grows afterwards
            cmd = obj.to_native(copy=bool(op[1]))
            snap = list(cmd)
            obj += ['-pthread', '-Wkeep']
            obj.insert(0, '-Wkeep2')
            obj.extend_direct(['-Wkeep3'])
            for _ in obj:
                pass
            S.STATE.count('read:to_native-kept-result')
            if cmd != snap:
                S._violate('to_native-result-changes-with-later-writes', S.shadow_of(obj, adopt=False),
                           'to_native() result kept while the list grows', list(cmd), snap)
        elif name == 'eq_list':
            sh = S.shadow_of(obj, adopt=False)
            obj == (list(sh.ref.items) if sh else [])      # noqa: B015
        elif name == 'eq_wrong':
            obj == ['-nope']                               # noqa: B015
        elif name in ('eq_other_pending', 'eq_other_clean'):
            sh = S.shadow_of(obj, adopt=False)
            items = list(sh.ref.items) if sh else []
            if name == 'eq_other_clean' or not items:
                other = new_list(kind, items)
            else:
                other = new_list(kind, items[:-1])
                other += [items[-1]]                        # a pending write; equality is decided by the eager lists
            obj == other                                    # noqa: B015
        elif name == 'repr':
            repr(obj)
        elif name == 'pop':
            obj.pop()
        elif name == 'remove':
            obj.remove(op[1])
        elif name == 'reversed':
            list(reversed(obj))
        elif name == 'contains':
            op[1] in obj                                    # noqa: B015
        elif name == 'index':
            obj.index(op[1])
        elif name == 'count':
            obj.count(op[1])
        elif name == 'iadd_other':
            other = new_list(kind, list(op[1]))
            other += list(op[2])                            # other has pending writes
            obj += other
        elif name == 'init_from':
            obj = type(obj)(obj.compiler, obj)
        elif name == 'factory_copy':
            # a copy through the compiler's factory must equal the original (initial arguments are taken verbatim)
            sh = S.shadow_of(obj, adopt=False)
            want = list(sh.ref.items) if sh else None
            c = obj.compiler.compiler_args(obj)
            got = S._real_list(c)
            S.STATE.count('read:factory-copy')
            if want is not None and got != want:
                S._violate('factory-copy-differs-from-original:' + S.classify_list_diff(sh.ref.t, got, want), sh,
                           'compiler.compiler_args(args)', got, want)
            if type(c) is type(obj):
                obj = c
        else:
            raise AssertionError('unknown op ' + name)
    except (IndexError, ValueError):
        # an eager list raises here too; agreement of the outcomes is checked inside the wrappers.
        # (reversed()/index() may raise IndexError as a consequence of the known len finding.)
        pass
    return obj


def verify(obj: T.Any) -> None:
    """Read everything of a twin of the list (so that the lazy state of the list itself stays untouched)."""
    probe = S.clone_with_shadow(obj)
    len(probe)
    for _ in probe:
        pass


MAX_STATES = 20000      # per work item; distinct_nontrivial is a lower bound beyond it


class Acc:
    """Per-worker accumulation: plain data only."""

    def __init__(self) -> None:
        self.nodes = 0
        self.states: T.Set[int] = set()
        self.viol: T.Dict[str, list] = {}       # mechanism -> [count, witness]
        self.truncated = False

    def drain(self, path: T.List[list], kind: str, initial: T.List[str]) -> None:
        if not S.STATE.violations:
            return
        for v in S.take_violations():
            mech = v['mechanism']
            ent = self.viol.get(mech)
            if ent is None:
                w = {k: v[k] for k in ('read', 'observed', 'expected', 'class') if k in v}
                if 'error' in v:
                    w['error'] = v['error']
                w.update({'phase': 'sequence', 'kind': kind, 'initial': list(initial), 'ops': [list(p) for p in path]})
                self.viol[mech] = [1, w]
            else:
                ent[0] += 1
                if len(path) < len(ent[1]['ops']):
                    ent[1]['ops'] = [list(p) for p in path]

    def result(self) -> dict:
        return {'nodes': self.nodes, 'states': list(self.states), 'viol': self.viol, 'truncated': self.truncated,
                'counters': dict(S.STATE.counters)}


def _dfs(obj: T.Any, depth_left: int, ops: T.List[list], path: T.List[list], kind: str, initial: T.List[str],
         acc: Acc, deadline: float) -> None:
    for op in ops:
        child = S.clone_with_shadow(obj)
        child = apply_op(child, op, kind)
        path.append(op)
        verify(child)
        acc.nodes += 1
        sh = S.shadow_of(child, adopt=False)
        if sh is not None and len(acc.states) < MAX_STATES:
            acc.states.add(hash((tuple(sh.ref.items), sh.dirty)))
        acc.drain(path, kind, initial)
        if depth_left > 1:
            if (acc.nodes & 1023) == 0 and time.time() > deadline:
                acc.truncated = True
            if not acc.truncated:
                _dfs(child, depth_left - 1, ops, path, kind, initial, acc, deadline)
        path.pop()


def work_exhaustive(item: dict) -> dict:
    """Subtree below a prefix of operations."""
    S.STATE.reset()
    S.STATE.keep_history = False
    acc = Acc()
    ops = OPSETS[item['opset']]()
    kind = item['kind']
    initial = item['initial']
    for prefix in item['prefixes']:
        if time.time() > item['deadline']:
            acc.truncated = True
            break
        obj = new_list(kind, list(initial))
        path: T.List[list] = []
        for op in prefix:
            obj = apply_op(obj, op, kind)
            path.append(op)
        # the prefix node itself is verified by the item that has it as a leaf (or by depth-1 enumeration)
        acc.drain(path, kind, initial)
        _dfs(obj, item['depth'] - len(prefix), ops, path, kind, initial, acc, item['deadline'])
    return acc.result()


# ---------------------------------------------------------------------------------------------------
# random sequences
# ---------------------------------------------------------------------------------------------------
def random_op(rng: random.Random, alphabet: T.List[str]) -> list:
    def arg() -> str:
        return rng.choice(alphabet)

    def batch(lo: int = 0, hi: int = 4) -> T.List[str]:
        return [arg() for _ in range(rng.randint(lo, hi))]
    r = rng.random()
    if r < 0.03:
        return [rng.choice(['iadd', 'extend', 'extend_direct', 'epl']), list(rng.choice(BARE_PAIRS))]
    if r < 0.30:
        return ['iadd', batch(1, 4)]
    if r < 0.36:
        return ['append', arg()]
    if r < 0.40:
        return [rng.choice(['extend', 'extend_gen']), batch()]
    if r < 0.44:
        return ['append_direct', arg()]
    if r < 0.48:
        return ['extend_direct', batch()]
    if r < 0.51:
        return ['epl', batch(0, 5)]
    if r < 0.55:
        return ['insert', rng.randint(-3, 6), arg()]
    if r < 0.57:
        return ['del', rng.randint(-3, 5)]
    if r < 0.58:
        return ['delslice', rng.randint(0, 3), rng.randint(0, 6)]
    if r < 0.60:
        return ['set', rng.randint(-3, 5), arg()]
    if r < 0.61:
        return ['setslice', rng.randint(0, 3), rng.randint(0, 6), batch(0, 3)]
    if r < 0.62:
        return ['fork']
    if r < 0.64:
        return ['copy']
    if r < 0.67:
        return ['add', batch()]
    if r < 0.70:
        return ['radd', batch()]
    if r < 0.73:
        return ['iadd_other', batch(0, 3), batch(0, 3)]
    if r < 0.735:
        return ['factory_copy']
    if r < 0.74:
        return ['init_from']
    if r < 0.79:
        return ['iter']
    if r < 0.82:
        return [rng.choice(['len', 'bool'])]
    if r < 0.85:
        return ['getitem', rng.randint(-4, 6)]
    if r < 0.86:
        return ['getslice', rng.randint(0, 3), rng.randint(0, 7)]
    if r < 0.875:
        return [rng.choice(['to_native_use', 'to_native_keep']), rng.random() < 0.3]
    if r < 0.89:
        return ['to_native', rng.random() < 0.7]
    if r < 0.92:
        return [rng.choice(['eq_list', 'eq_wrong', 'eq_other_pending', 'eq_other_clean'])]
    if r < 0.93:
        return ['repr']
    if r < 0.94:
        return ['pop']
    if r < 0.95:
        return ['remove', arg()]
    if r < 0.96:
        return ['reversed']
    if r < 0.98:
        return ['contains', arg()]
    if r < 0.99:
        return ['index', arg()]
    return ['count', arg()]


def run_sequence(kind: str, initial: T.List[str], ops: T.List[list]) -> T.List[dict]:
    """Replay one sequence on a fresh list; returns the violations the shadow recorded."""
    S.take_violations()
    obj = new_list(kind, list(initial))
    for op in ops:
        obj = apply_op(obj, op, kind)
    verify(obj)
    return S.take_violations()


def minimise(kind: str, initial: T.List[str], ops: T.List[list], mech: str) -> T.Tuple[T.List[str], T.List[list]]:
    def fails(i: T.List[str], o: T.List[list]) -> bool:
        return any(v['mechanism'] == mech for v in run_sequence(kind, i, o))
    changed = True
    rounds = 0
    while changed and rounds < 6:
        changed = False
        rounds += 1
        i = 0
        while i < len(ops):
            cand = ops[:i] + ops[i + 1:]
            if fails(initial, cand):
                ops = cand
                changed = True
            else:
                i += 1
        if initial and fails([], ops):
            initial = []
            changed = True
    return initial, ops


def work_random(item: dict) -> dict:
    S.STATE.reset()
    S.STATE.keep_history = False
    acc = Acc()
    rng = random.Random(item['seed'])
    for _ in range(item['n']):
        if time.time() > item['deadline']:
            acc.truncated = True
            break
        kind = rng.choice(['gnu', 'gnu', 'plain', 'base'])
        alphabet = A13 + (EXTRA if rng.random() < 0.6 else [])
        if rng.random() < 0.5:
            alphabet = rng.sample(alphabet, rng.randint(3, 8))   # small alphabets collide more
        initial = [rng.choice(alphabet) for _ in range(rng.choice([0, 0, 1, 2, 4]))]
        n = rng.randint(1, item['maxlen'])
        obj = new_list(kind, list(initial))
        path: T.List[list] = []
        for _i in range(n):
            op = random_op(rng, alphabet)
            obj = apply_op(obj, op, kind)
            path.append(op)
            if S.STATE.violations:
                acc.drain(path, kind, initial)
        verify(obj)
        acc.drain(path, kind, initial)
        acc.nodes += 1
        sh = S.shadow_of(obj, adopt=False)
        if sh is not None:
            acc.states.add(hash(tuple(sh.ref.items)))
    # shrink the witnesses (first of each mechanism)
    for mech, ent in acc.viol.items():
        w = ent[1]
        try:
            w['initial'], w['ops'] = minimise(w['kind'], w['initial'], w['ops'], mech)
            for v in run_sequence(w['kind'], w['initial'], w['ops']):
                if v['mechanism'] == mech:
                    w.update({k: v[k] for k in ('read', 'observed', 'expected') if k in v})
                    break
        except Exception:
            pass
    S.take_violations()
    return acc.result()


# ---------------------------------------------------------------------------------------------------
# directed probes
# ---------------------------------------------------------------------------------------------------
DOC_EXAMPLES = [
    # (initial via +=, then +=, documented result) - class docstring of CompilerArgs
    (['-Lfoo', '-lbar'], ['-Lpho', '-lbaz'], ['-Lpho', '-Lfoo', '-lbar', '-lbaz']),
    (['-Ifoo', '-Ibar'], ['-Ifez', '-Ibaz', '-Werror'], ['-Ifez', '-Ibaz', '-Ifoo', '-Ibar', '-Werror']),
    (['-Ifez', '-Ibaz', '-Werror'], ['-Ifoo', '-Ibar'], ['-Ifoo', '-Ibar', '-Ifez', '-Ibaz', '-Werror']),
]

PROBES = [
    ('two-token-define-spelling', 'gnu', [], [['iadd', ['-D', 'FOO=1', '-D', 'BAR=2']], ['iter'], ['iadd', ['-isystem', '/q', '-isystem', '/r']]]),
    ('factory-copy-of-directly-built-list', 'gnu', ['-Iinc', '-O2'],
     [['extend_direct', ['-L/opt/a', '-la', '-lz', '-L/opt/b', '-lb', '-lz']], ['factory_copy']]),
    # (name, kind, initial, ops): sequences that exhibit the recorded findings; re-observed every run
    ('len-after-duplicate-override', 'gnu', ['-DX'], [['iadd', ['-DX']], ['len']]),
    ('reversed-after-duplicate-override', 'gnu', ['-DX'], [['iadd', ['-DX']], ['reversed']]),
    ('eq-with-pending-other', 'gnu', ['-O2'], [['eq_other_pending']]),
]


def phase_probes(chk: common.Check) -> None:
    S.STATE.reset()
    S.STATE.keep_history = True
    for first, second, documented in DOC_EXAMPLES:
        # calibration of the oracle on the documented examples, and of the code
        r = refargs.RefArgs(refargs.CLIKE)
        r.add_batch(first)
        r.add_batch(second)
        chk.count('probe:doc-example')
        if r.items != documented:
            chk.violation('oracle-disagrees-with-docstring-example', {'phase': 'doc', 'example': [first, second], 'oracle': r.items,
                                                                       'documented': documented})
        a = new_list('gnu')
        a += first
        a += second
        got = list(a)
        if got != documented:
            chk.violation('docstring-example-not-honoured', {'phase': 'doc', 'example': [first, second], 'observed': got,
                                                             'documented': documented})
        chk.case(('doc', tuple(first), tuple(second)))
    for name, kind, initial, ops in PROBES:
        viol = run_sequence(kind, initial, ops)
        chk.count('probe:known-finding-sequence')
        chk.case(('probe', name))
        for v in viol:
            w = {k: v[k] for k in ('read', 'observed', 'expected', 'class') if k in v}
            w.update({'phase': 'sequence', 'kind': kind, 'initial': initial, 'ops': ops, 'probe': name})
            chk.violation(v['mechanism'], w)
        # the visible consequence of the len finding: reversed() crashes
        if name.startswith('reversed'):
            a = new_list(kind, list(initial))
            a += ['-DX']
            S.STATE.enabled = False
            try:
                list(reversed(a))
                chk.count('probe:reversed-ok')
            except IndexError:
                chk.count('probe:reversed-raises-IndexError')
                chk.violation('len-counts-pending-duplicates',
                              {'phase': 'sequence', 'kind': kind, 'initial': initial, 'ops': ops, 'probe': name,
                               'observed': 'list(reversed(args)) raises IndexError', 'expected': 'the reversed eager list'})
            finally:
                S.STATE.enabled = True
    chk.merge_counts({k: v for k, v in S.STATE.counters.items() if not k.startswith('violation:')})
    S.take_violations()


# ---------------------------------------------------------------------------------------------------
# meson projects
# ---------------------------------------------------------------------------------------------------
LEVELS = ['P', 'G', 'O', 'D', 'T']                      # project, global, -Dc_args option, dependency, target
# documented precedence (later on the command line wins):
#   backends.py generate_basic_compiler_args: project args, then global args ("These override per-project
#   arguments"), then the c_args option ("override all the defaults, but not the per-target compile args");
#   ninjabackend.py: per-target c_args "near the end since these are supposed to override everything else".
#   Dependency compile_args are only documented relative to the target's.
ORDER_PAIRS = [('P', 'G'), ('P', 'O'), ('G', 'O'), ('P', 'T'), ('G', 'T'), ('O', 'T'), ('D', 'T')]


def precedes(a: str, b: str) -> bool:
    return (a, b) in ORDER_PAIRS


def decided_winner(levels: T.Iterable[str]) -> T.Optional[str]:
    lv = list(levels)
    for w in lv:
        if all(x == w or precedes(x, w) for x in lv):
            return w
    return None


PK_WRAPPERS = {
    'bare': ([], []),
    'push-as-needed': (['-Wl,--push-state,--as-needed'], ['-Wl,--pop-state']),
    'push-no-as-needed': (['-Wl,--push-state', '-Wl,--no-as-needed'], ['-Wl,--pop-state']),
    'whole-archive': (['-Wl,--whole-archive'], ['-Wl,--no-whole-archive']),
}


def gen_pkgconfig(rng: random.Random) -> dict:
    """pkg-config packages whose `Libs:` / `Cflags:` REPEAT arguments that cannot be de-duplicated (every library in its
    own push-state/pop-state or whole-archive pair, -framework pairs, a plain flag given several times, the same flags in
    a package and in the package it requires).  What the link / compile line must hold is derived from what the real
    `pkg-config --libs/--cflags` prints for these files."""
    packages: T.List[dict] = []
    npk = rng.choice([1, 2, 2, 3])
    for i in range(npk):
        name = f'zkp{i}'
        libs = {f'{name}{c}': rng.choice(['a', 'a', 'so']) for c in 'ab'[:rng.choice([1, 2, 2])] + ('c' if rng.random() < 0.3 else '')}
        same = rng.choice([None, 'push-as-needed', 'push-as-needed', 'whole-archive', 'push-no-as-needed'])
        line: T.List[str] = ['-L${libdir}']
        for ln in libs:
            pre, post = PK_WRAPPERS[same or rng.choice(sorted(PK_WRAPPERS))]
            line += pre + ['-l' + ln] + post
        extras = [['-framework', 'ZkFa', '-framework', 'ZkFb'], ['-framework', 'ZkFa', '-framework', 'ZkFa'],
                  ['-Wl,--undefined=zk_u1', '-Wl,--undefined=zk_u2', '-Wl,--undefined=zk_u1'],
                  ['-Wl,-z,zkdefs', '-Wl,-z,zkdefs']]
        for e_ in rng.sample(extras, rng.randint(0, 2)):
            k = rng.randint(1, len(e_) - 1) if not e_[0] == '-framework' else rng.choice([0, len(e_)])
            # part in front of the libraries, the rest behind them (a -framework pair stays together)
            line[1:1] = e_[:k]
            line += e_[k:]
        if rng.random() < 0.3:
            line.append('-l' + next(iter(libs)))            # a once-only argument given again
        cextras = [['-fno-math-errno', '-fno-trapping-math', '-fno-math-errno'],
                   ['-Xassembler', '--zk1', '-Xassembler', '--zk2'],
                   ['-imacros', '${prefix}/zkm1.h', '-imacros', '${prefix}/zkm2.h'],
                   ['-DZKSHARED', '-I${prefix}/zkinc_shared'], ['-UZKSHARED', '-DZKSHARED'],
                   ['-l' + next(iter(libs)), '-lzkcfl']]      # a sloppy Cflags: line that names libraries
        chunks = [[f'-DZKP{i}=1'], ['-I${prefix}/zkinc' + str(i)]] + rng.sample(cextras, rng.randint(1, 3))
        if rng.random() < 0.4:
            chunks.append(['-fno-math-errno'])
        rng.shuffle(chunks)
        cfl: T.List[str] = [a for c_ in chunks for a in c_]
        requires = f'zkp{i - 1}' if i and rng.random() < 0.5 else None
        packages.append({'name': name, 'libs': libs, 'libs_line': line, 'cflags_line': cfl, 'requires': requires})
    listed = rng.sample([p['name'] for p in packages], rng.randint(1, npk))
    return {'packages': packages, 'listed': listed, 'path_via': rng.choice(['PKG_CONFIG_PATH', 'pkg_config_path']),
            'wrapped': rng.random() < 0.25}


def pc_text(p: dict) -> str:
    return ('prefix=@SRC@\nlibdir=${prefix}/zkpc/lib\n'
            f"Name: {p['name']}\nDescription: generated\nVersion: 1.0\n" +
            (f"Requires: {p['requires']}\n" if p['requires'] else '') +
            f"Cflags: {' '.join(p['cflags_line'])}\nLibs: {' '.join(p['libs_line'])}\n")


MS_LIBS = ['-lzms1', '-lzms2', '-Wl,-lzms3', 'libzms4.a', 'libzms5.so', 'libzms6.so.1.2']


def gen_project(rng: random.Random, idx: int) -> dict:
    """A small C project with duplicated settings at global/project/option/dependency/target level."""
    macros: T.Dict[str, T.Dict[str, T.List[str]]] = {}
    use_env = rng.random() < 0.5        # the option level arrives through $CFLAGS/$CPPFLAGS (+ $LDFLAGS) instead of -D
    # LVL: distinct value per level
    lv = [lvl for lvl in LEVELS if rng.random() < 0.7] or ['T']
    macros['LVL'] = {lvl: [f'-DLVL={lvl}'] for lvl in lv}
    # DUPA/DUPB: identical strings at several levels, with -U somewhere
    for m, pool in (('DUPA', ['P', 'G', 'O', 'T']), ('DUPB', ['D', 'T']), ('DUPC', LEVELS)):
        per: T.Dict[str, T.List[str]] = {}
        for lvl in pool:
            if rng.random() < 0.65:
                per[lvl] = [rng.choice([f'-D{m}', f'-U{m}']) for _ in range(rng.choice([1, 1, 2]))]
        macros[m] = per
    level_args: T.Dict[str, T.List[str]] = {lvl: [] for lvl in LEVELS}
    for m, per in macros.items():
        for lvl, toks in per.items():
            level_args[lvl] += toks
    for lvl in LEVELS:
        rng.shuffle(level_args[lvl])
        # keep the relative order of one macro's tokens inside a level as generated: recompute it afterwards
    per_level_macro: T.Dict[str, T.Dict[str, T.List[str]]] = {m: {} for m in macros}
    for lvl in LEVELS:
        for tok in level_args[lvl]:
            m = tok[2:].split('=')[0]
            per_level_macro[m].setdefault(lvl, []).append(tok)
    # plain / once-only flags duplicated across levels
    for lvl in LEVELS:
        if rng.random() < 0.5:
            level_args[lvl].append('-pthread')
        if rng.random() < 0.5:
            level_args[lvl].append(rng.choice(['-fno-common', '-funroll-loops']))
    o_libs = rng.random() < 0.3
    if o_libs:
        # library arguments in CFLAGS / -Dc_args: every compile line of the project carries several libraries
        level_args['O'] += ['-lm', '-ldl']
    tdirs = rng.sample(['t1', 't2', 't3'], rng.randint(1, 3))
    ddirs = rng.sample(['d1', 'd2', 'd3'], rng.randint(1, 3))
    sdirs = rng.sample(['s1', 's2', 's3'], rng.randint(0, 3))
    dup_dir = rng.random() < 0.6                       # a target directory repeated by the dependency
    dsys = rng.random() < 0.3                          # the dependency's own -isystem directories
    use_sub = rng.random() < 0.4
    two_deps = rng.random() < 0.6
    libkind = rng.choice(['static_library', 'shared_library', 'library'])

    def q(xs: T.Iterable[str]) -> str:
        return ', '.join("'" + x + "'" for x in xs)

    mb: T.List[str] = [f"project('p{idx}', 'c', default_options: ['warning_level={rng.choice('0123')}'])"]
    if level_args['G']:
        mb.append(f"add_global_arguments({q(level_args['G'])}, language: 'c')")
    if level_args['P']:
        # in two increments
        k = rng.randint(0, len(level_args['P']))
        for part in (level_args['P'][:k], level_args['P'][k:]):
            if part:
                mb.append(f"add_project_arguments({q(part)}, language: 'c')")
    if rng.random() < 0.5:
        mb.append("add_project_link_arguments('-lm', language: 'c')")
    if rng.random() < 0.5:
        mb.append("add_global_link_arguments('-lm', '-Wl,--as-needed', language: 'c')")
    mb.append(f"inc_t = include_directories({q(tdirs)})")
    dlist = list(ddirs) + ([tdirs[0]] if dup_dir else [])
    mb.append(f"inc_d = include_directories({q(dlist)})")
    if sdirs:
        mb.append(f"inc_s = include_directories({q(sdirs)}, is_system: true)")
    if dsys:
        mb.append("inc_ds = include_directories('ds1', 'ds2', is_system: true)")
    mb.append(f"dep = declare_dependency(compile_args: [{q(level_args['D'])}], "
              f"include_directories: [inc_d{', inc_ds' if dsys else ''}], link_args: ['-lm', '-lfoo', '-lfoo', '-L/opt/x'])")
    deps = ['dep']
    if two_deps:
        mb.append(f"dep2 = declare_dependency(compile_args: [{q(level_args['D'])}], include_directories: inc_d, "
                  "dependencies: dep, link_args: ['-lm', '-L/opt/x', '-lbar'])")
        deps.append('dep2')
    mb.append("thr = dependency('threads')")
    deps += ['thr'] * rng.randint(0, 2)
    rng.shuffle(deps)
    # per-target base arguments: symbol visibility and b_* overrides differ from target to target
    tbase: T.Dict[str, dict] = {}

    def base_kw(name: str) -> str:
        vis = rng.choice([None, None, 'hidden', 'default', 'internal', 'protected'])
        nd = rng.choice([None, None, 'true', 'false'])
        tbase[name] = {'visibility': vis, 'b_ndebug': nd}
        kw = ''
        if vis:
            kw += f", gnu_symbol_visibility: '{vis}'"
        if nd:
            kw += f", override_options: ['b_ndebug={nd}']"
        return kw
    mb.append(f"l1 = {libkind}('l1', 'l1.c', c_args: [{q(level_args['T'])}], include_directories: inc_t{base_kw('l1')})")
    mb.append(f"l2 = static_library('l2', 'l2.c', dependencies: dep{base_kw('l2')})")
    links = ['l1', 'l2']
    if use_sub:
        mb.append("sub = subproject('sub')")
        mb.append("sub_dep = sub.get_variable('sub_dep')")
        deps.append('sub_dep')
    incs = ['inc_t'] + (['inc_s'] if sdirs else [])
    mb.append(f"exe = executable('exe', 'main.c', c_args: [{q(level_args['T'])}], include_directories: [{', '.join(incs)}], "
              f"dependencies: [{', '.join(deps)}], link_with: [{', '.join(links)}], link_args: ['-lm', '-lm', '-pthread']{base_kw('exe')})")
    # --- dependencies as increments: several declare_dependency objects, some with IDENTICAL contents, interleaved
    # with competing ones (define/undefine pairs, include directories that provide the same header)
    ndirs = ['ninc_a', 'ninc_b', 'ninc_c']

    def ncontent() -> T.List[str]:
        c = [rng.choice(['-DZQFEAT', '-UZQFEAT']), '-I@SRC@/' + rng.choice(ndirs)]
        if rng.random() < 0.5:
            c.append('-DZQVAL=' + rng.choice('123'))
        if rng.random() < 0.4:
            c.append(rng.choice(['-fwrapv', '-fno-strict-aliasing']))       # non-dedupable: multiplicity counts
        rng.shuffle(c)
        return c
    pool = [ncontent() for _ in range(rng.randint(2, 3))]
    if rng.random() < 0.75:
        # A, B, A' with B competing against A
        a = ['-DZQFEAT', '-I@SRC@/ninc_a'] + (['-DZQVAL=1'] if rng.random() < 0.5 else [])
        b = ['-UZQFEAT', '-I@SRC@/ninc_b'] + (['-DZQVAL=2'] if rng.random() < 0.5 else [])
        if rng.random() < 0.5:
            a, b = b, a
        nseq = [a, b, list(a)]
        for _ in range(rng.randint(0, 2)):
            nseq.insert(rng.randint(0, len(nseq)), list(rng.choice(pool)))
    else:
        nseq = [list(rng.choice(pool)) for _ in range(rng.randint(2, 5))]
    mb.append("zq_src = meson.current_source_dir()")
    # compiler checks: the assembled arguments of a check are one increment - several directories providing the same
    # header / library, given through args:, include_directories: and dependencies:
    mb.append("zq_cc = meson.get_compiler('c')")
    mb.append("zq_pre = '#include <which.h>'")
    cchecks: T.List[dict] = []
    for ci, ckind in enumerate(['args', 'incs', 'dep', 'depinc', 'lib'] + [rng.choice(['args', 'incs', 'dep'])]):
        cdirs = rng.sample(ndirs, rng.randint(2, 3))
        iargs = ', '.join(f"'-I' + zq_src / '{d}'" for d in cdirs)
        key = f'{ckind}{ci}'
        if ckind == 'args':
            extra_ = rng.choice(['', ", '-DZQX=1'", ", '-O1'"])
            call = f"zq_cc.get_define('WHICH', prefix: zq_pre, args: [{iargs}{extra_}])"
        elif ckind == 'incs':
            call = f"zq_cc.get_define('WHICH', prefix: zq_pre, include_directories: include_directories({q(cdirs)}))"
        elif ckind == 'dep':
            call = f"zq_cc.get_define('WHICH', prefix: zq_pre, dependencies: declare_dependency(compile_args: [{iargs}]))"
        elif ckind == 'depinc':
            call = (f"zq_cc.get_define('WHICH', prefix: zq_pre, "
                    f"dependencies: declare_dependency(include_directories: include_directories({q(cdirs)})))")
        else:
            cdirs = rng.sample(['zqla', 'zqlb'], 2)
            largs_ = ', '.join(f"'-L' + zq_src / '{d}'" for d in cdirs)
            call = ("zq_cc.run('extern int zqw; int main(void) { return zqw; }', "
                    f"args: [{largs_}, '-lzqw']).returncode().to_string()")
        mb.append(f"message('ZQCHK {key}=' + {call})")
        cchecks.append({'key': key, 'kind': ckind, 'dirs': cdirs})
    for i, c in enumerate(nseq):
        toks = ', '.join(("'-I' + zq_src / '" + t[len('-I@SRC@/'):] + "'") if t.startswith('-I@SRC@/') else "'" + t + "'" for t in c)
        mb.append(f"nd{i} = declare_dependency(compile_args: [{toks}])")
    nlisted = [f'nd{i}' for i in range(len(nseq))]
    if rng.random() < 0.3:
        nlisted.insert(rng.randint(0, len(nlisted)), 'thr')
    mb.append(f"nexe = executable('nexe', 'n.c', dependencies: [{', '.join(nlisted)}]{base_kw('nexe')})")
    # the same through include_directories: of the dependencies: first listed is searched first, each directory once
    iseq = [rng.choice(ndirs) for _ in range(rng.randint(2, 4))]
    if rng.random() < 0.7:
        x, y = rng.sample(ndirs, 2)
        iseq = [x, y, x] + iseq[:1]
    for i, d in enumerate(iseq):
        mb.append(f"ni{i} = declare_dependency(include_directories: include_directories('{d}'))")
    mb.append(f"nexe2 = executable('nexe2', 'n.c', dependencies: [{', '.join(f'ni{i}' for i in range(len(iseq)))}]{base_kw('nexe2')})")
    # link arguments of the dependencies: -L/-l sets are kept as given (no reordering, repeated -l kept)
    lpool = [['-L/opt/zq_a', '-lzq_a', '-lzq_shared'], ['-L/opt/zq_b', '-lzq_b', '-lzq_shared'],
             ['-lzq_a', '-L/opt/zq_a', '-lzq_a'], ['-Wl,-rpath,/opt/zq', '-lzq_c', '-L/opt/zq_a', '-lm']]
    lseq = [list(rng.choice(lpool)) for _ in range(rng.randint(2, 4))]
    if rng.random() < 0.7:
        lseq = [list(lpool[0]), list(lpool[1])] + lseq[:1]
    for i, la in enumerate(lseq):
        mb.append(f"nl{i} = declare_dependency(link_args: [{q(la)}])")
    mb.append(f"nexe3 = executable('nexe3', 'main.c', dependencies: [{', '.join(f'nl{i}' for i in range(len(lseq)))}]"
              f"{', link_with: l2' if rng.random() < 0.5 else ''}{base_kw('nexe3')})")
    # a dependency that is read (by a target / a compiler check) and then copied with another include type: every copy
    # contributes the arguments of ITS include type
    zv_order = rng.choice(['read-by-target-first', 'read-by-check-first', 'copy-first'])
    mb.append("zv = declare_dependency(compile_args: ['-I' + zq_src / 'zqv', '-DZQV=1', '-isystem' + zq_src / 'zqw'])")
    if zv_order == 'read-by-target-first':
        mb.append("zvexe1 = executable('zvexe1', 'main.c', dependencies: zv)")
    elif zv_order == 'read-by-check-first':
        mb.append("zq_cc.has_header('stdio.h', dependencies: zv)")
    mb.append("zv_sys = zv.as_system('system')")
    mb.append("zvexe2 = executable('zvexe2', 'main.c', dependencies: zv_sys)")
    mb.append("zv_non = zv_sys.as_system('non-system')")
    mb.append("zvexe3 = executable('zvexe3', 'main.c', dependencies: zv_non)")
    if zv_order != 'read-by-target-first':
        mb.append("zvexe1 = executable('zvexe1', 'main.c', dependencies: zv)")
    # a target with several sources whose COMPILE lines carry library-type arguments (c_args, a dependency's
    # compile_args): every source gets the same arguments, the library group is formed once
    nms = rng.choice([0, 1, 2, 2, 3, 4])
    ms_libs = rng.sample(MS_LIBS, nms)
    k = rng.randint(0, nms)
    ms = {'dep': ['-DZMSD=1'] + ms_libs[:k], 'target': ms_libs[k:] + ['-DZMST=1']}
    if rng.random() < 0.3 and ms_libs:
        ms['target'].append(ms_libs[0])                     # a repeat of a once-only argument
    rng.shuffle(ms['dep'])
    mb.append(f"msd = declare_dependency(compile_args: [{q(ms['dep'])}])")
    mb.append(f"msexe = executable('msexe', 'ms_a.c', 'ms_b.c', 'ms_c.c', c_args: [{q(ms['target'])}], dependencies: msd)")
    pk = gen_pkgconfig(rng)
    for p_ in pk['packages']:
        if p_['name'] in pk['listed']:
            mb.append(f"{p_['name']} = dependency('{p_['name']}', method: 'pkg-config')")
    if pk['wrapped']:
        mb.append(f"pkw = declare_dependency(dependencies: [{', '.join(pk['listed'])}])")
        mb.append("pkexe = executable('pkexe', 'ms_a.c', 'ms_b.c', dependencies: pkw)")
    else:
        mb.append(f"pkexe = executable('pkexe', 'ms_a.c', 'ms_b.c', dependencies: [{', '.join(pk['listed'])}])")
    # several languages: arguments registered for ['c', 'cpp'], then for one language, then for both again
    multi: T.Optional[dict] = None
    if rng.random() < 0.5:
        cflags = ['-ftrapv', '-fno-builtin', '-fno-ident', '-fno-plt', '-DZL1', '-DZL2', '-UZL1', '-DZL3=1']
        lflags = ['-Wl,-z,now', '-Wl,-z,relro', '-Wl,--warn-common', '-Wl,--hash-style=gnu', '-Wl,-z,noexecstack', '-Wl,--sort-common']
        multi = {}
        head: T.List[str] = []
        for fn, pool_ in (('add_global_arguments', cflags), ('add_project_arguments', cflags), ('add_project_link_arguments', lflags)):
            calls = []
            langsets = [['c', 'cpp']] + [rng.choice([['c'], ['cpp'], ['c', 'cpp'], ['cpp', 'c']]) for _ in range(rng.randint(1, 2))] + [['c', 'cpp']]
            if rng.random() < 0.2:
                rng.shuffle(langsets)
            for ls in langsets:
                args_ = [rng.choice(pool_) for _ in range(rng.randint(1, 3))]
                calls.append({'languages': ls, 'args': args_})
                head.append(f"{fn}({q(args_)}, language: [{q(ls)}])")
            multi[fn] = calls
        mb[0] = mb[0].replace("'c',", "'c', 'cpp',", 1)
        mb[1:1] = head
        mb.append("zc = executable('zc', 'zc.c')")
        mb.append("zcpp = executable('zcpp', 'zcpp.cpp')")
    files: T.Dict[str, str] = {'meson.build': '\n'.join(mb) + '\n',
                               'zqe1.h': '#define ZQE1 1\n', 'zqe2.h': '#define ZQE2 1\n',
                               'zkm1.h': '#define ZKM1 1\n', 'zkm2.h': '#define ZKM2 1\n',
                               'zqs1/zqs.h': '/* 1 */\n', 'zqs2/zqs.h': '/* 2 */\n',
                               'zqv/zqv.h': '/* v */\n', 'zqw/zqw.h': '/* w */\n',
                               'zc.c': 'int main(void) { return 0; }\n', 'zcpp.cpp': 'int main() { return 0; }\n',
                               'n.c': '#include <which.h>\nint main(void) { return WHICH; }\n',
                               'ninc_a/which.h': '#define WHICH 1\n', 'ninc_b/which.h': '#define WHICH 2\n',
                               'ninc_c/which.h': '#define WHICH 3\n',
                               'main.c': 'int main(void) { return 0; }\n',
                               'ms_a.c': 'int main(void) { return 0; }\n', 'ms_b.c': 'int ms_b;\n', 'ms_c.c': 'int ms_c;\n',
                               'l1.c': 'int l1(void) { return 1; }\n', 'l2.c': 'int l2(void) { return 2; }\n'}
    for d in set(tdirs + ddirs + sdirs + ['ds1', 'ds2']):
        files[f'{d}/h_{d}.h'] = f'/* {d} */\n'
    for p_ in pk['packages']:
        files[f"zkpc/{p_['name']}.pc"] = pc_text(p_)
    if use_sub:
        files['subprojects/sub/meson.build'] = (
            "project('sub', 'c')\nadd_project_arguments('-DLVL=SP', '-DSUBONLY', language: 'c')\n"
            "sl = static_library('sl', 'sl.c')\nsub_dep = declare_dependency(link_with: sl, compile_args: ['-DFROMSUB'])\n")
        files['subprojects/sub/sl.c'] = 'int sl(void) { return 3; }\n'
    argv = ['setup', 'build']
    env: T.Dict[str, str] = {}
    env_c: T.List[str] = []
    env_ld: T.List[str] = []
    env_shared = False
    if use_env:
        # flags from the environment: two-token options used twice, a setting repeated after its opposite, identical
        # non-dedupable flags - one increment whose eager meaning must reach every command line
        extras = [['-DZE=1', '-UZE', '-DZE=1'], ['-UZE', '-DZE=1', '-UZE'],
                  ['-Xpreprocessor', '-DZEP1', '-Xpreprocessor', '-DZEP2'],
                  ['-isystem', '@SRC@/zqs1', '-isystem', '@SRC@/zqs2'],
                  ['-include', '@SRC@/zqe1.h', '-include', '@SRC@/zqe2.h'],
                  ['-fno-asynchronous-unwind-tables', '-fno-asynchronous-unwind-tables']]
        for e_ in rng.sample(extras, rng.randint(1, 3)):
            if not (e_[0] in ('-DZE=1', '-UZE') and any(x in env_c for x in ('-DZE=1', '-UZE'))):
                env_c += e_
        ldpool = [['-Xlinker', '--as-needed', '-Xlinker', '-O1'], ['-Wl,-z,nodlopen', '-Wl,-z,nodelete', '-Wl,-z,nodlopen'],
                  ['-Xlinker', '--no-undefined', '-Wl,-z,nodlopen', '-Xlinker', '--as-needed']]
        if rng.random() < 0.3:
            # "it is a thing to inject linker flags both via CFLAGS and LDFLAGS": the same two-token linker option in both
            env_shared = True
            env_c += ['-Xlinker', '-O1']
            env_ld = ['-Xlinker', '-O1', '-Wl,-z,nodlopen']
        elif rng.random() < 0.8:
            env_ld = list(rng.choice(ldpool))
        if env_ld:
            env['LDFLAGS'] = ' '.join(env_ld)
        env[rng.choice(['CFLAGS', 'CPPFLAGS'])] = ' '.join(level_args['O'] + env_c)
    else:
        if level_args['O']:
            argv.append('-Dc_args=' + ' '.join(level_args['O']))
        if rng.random() < 0.5:
            argv.append('-Dc_link_args=-lm -Wl,--as-needed')
    if pk['path_via'] == 'PKG_CONFIG_PATH':
        env['PKG_CONFIG_PATH'] = '@SRC@/zkpc'
    else:
        argv.append('-Dpkg_config_path=@SRC@/zkpc')
    argv.append('-Dbuildtype=' + rng.choice(['debug', 'release', 'debugoptimized', 'plain', 'minsize']))
    if rng.random() < 0.3:
        argv.append('-Dwerror=true')
    if rng.random() < 0.3:
        argv.append('-Db_ndebug=true')
    if rng.random() < 0.3:
        argv.append('-Db_pie=true')
    if rng.random() < 0.3:
        argv.append('-Dc_std=' + rng.choice(['c99', 'gnu11']))
    return {'idx': idx, 'files': files, 'argv': argv, 'macros': per_level_macro, 'nseq': nseq, 'iseq': iseq, 'lseq': lseq, 'cchecks': cchecks, 'env': env, 'env_c': env_c, 'env_ld': env_ld, 'env_shared': env_shared, 'zv_order': zv_order, 'env_o': (level_args['O'] if use_env else []), 'ms': ms, 'pk': pk, 'tbase': tbase, 'multi': multi, 'tdirs': tdirs, 'ddirs': ddirs,
            'sdirs': sdirs, 'dup_dir': dup_dir, 'use_sub': use_sub, 'global_args': level_args['G'],
            'project_args': level_args['P'], 'features': sorted(
                [f'lib:{libkind}'] + [f'dep-copy:{zv_order}'] + [f'compile-line-libraries:{min(nms, 2)}{"+option-level" if o_libs else ""}'] +
                [f'pkg-config:path-via-{pk["path_via"]}', f'pkg-config:listed-{len(pk["listed"])}'] + (['pkg-config:wrapped-in-declare_dependency'] if pk['wrapped'] else []) +
                (['pkg-config:requires'] if any(p_['requires'] for p_ in pk['packages']) else []) + [f'env:{k}' for k in env] + (['env:same-linker-option-in-CFLAGS-and-LDFLAGS'] if env_shared else []) + (['c+cpp'] if multi else []) + (['subproject'] if use_sub else []) + (['two-deps'] if two_deps else []) +
                (['dup-include-dir'] if dup_dir else []) + (['dep-isystem'] if dsys else []) +
                (['isystem'] if sdirs else []) + [a.split('=')[0] for a in argv[2:]])}


_NINJA_ESC = re.compile(r'\$(.)')


def parse_compile_statements(text: str) -> T.Dict[str, T.List[str]]:
    """{object output: ARGS tokens} for every `build <out>: c_COMPILER ...` statement (simple text parse)."""
    out: T.Dict[str, T.List[str]] = {}
    cur: T.Optional[str] = None
    for line in text.splitlines():
        if line.startswith('build '):
            m = re.match(r'build (\S+): (\S+)', line)
            cur = m.group(1) if m and m.group(2).endswith('_COMPILER') else None
        elif cur is not None and line.startswith(' ARGS = '):
            raw = _NINJA_ESC.sub(lambda mm: mm.group(1), line[len(' ARGS = '):])
            out[cur] = shlex.split(raw)
        elif not line.startswith(' '):
            cur = None
    return out


def parse_statements(text: str) -> T.List[T.Tuple[str, str, T.Dict[str, T.List[str]]]]:
    """[(first output, rule, {variable: tokens})] of every build statement (simple text parse)."""
    res: T.List[T.Tuple[str, str, T.Dict[str, T.List[str]]]] = []
    cur: T.Optional[T.Dict[str, T.List[str]]] = None
    for line in text.splitlines():
        if line.startswith('build '):
            m = re.match(r'build (\S+)[^:]*: (\S+)', line)
            cur = {} if m else None
            if m and cur is not None:
                res.append((m.group(1), m.group(2), cur))
        elif cur is not None and line.startswith(' ') and ' = ' in line:
            k, v = line.strip().split(' = ', 1)
            try:
                cur[k] = shlex.split(_NINJA_ESC.sub(lambda mm: mm.group(1), v))
            except ValueError:
                pass
        elif not line.startswith(' '):
            cur = None
    return res


def effective_macros(tokens: T.List[str]) -> T.Optional[T.Dict[str, str]]:
    """What the real preprocessor makes of the -D/-U tokens in this order."""
    du = [t for t in tokens if t.startswith(('-D', '-U'))]
    try:
        p = subprocess.run(['gcc', '-E', '-dM', '-x', 'c', '/dev/null'] + du, stdout=subprocess.PIPE,
                           stderr=subprocess.DEVNULL, timeout=30)
    except (OSError, subprocess.TimeoutExpired):
        return None
    if p.returncode != 0:
        return None
    res: T.Dict[str, str] = {}
    for line in p.stdout.decode('utf-8', 'replace').splitlines():
        parts = line.split(None, 2)
        if len(parts) >= 2 and parts[0] == '#define':
            res[parts[1]] = parts[2] if len(parts) > 2 else ''
    return res


def check_target_args(proj: dict, tokens: T.List[str], private_dir: str, is_exe: bool) -> T.Tuple[T.Dict[str, int], T.List[T.Tuple[str, dict]]]:
    """End-to-end expectations on one compile statement. Levels that reach this target: exe gets all five;
    the library l1 gets P, G, O, T (no dependency)."""
    cnt: T.Dict[str, int] = {}
    bad: T.List[T.Tuple[str, dict]] = []

    def c(k: str, n: int = 1) -> None:
        cnt[k] = cnt.get(k, 0) + n
    levels_here = LEVELS if is_exe else ['P', 'G', 'O', 'T']
    eff = effective_macros(tokens)
    for macro, per in proj['macros'].items():
        per = {lvl: toks for lvl, toks in per.items() if lvl in levels_here}
        if not per:
            continue
        if macro == 'LVL':
            pos = {lvl: [i for i, t in enumerate(tokens) if t == f'-DLVL={lvl}'] for lvl in per}
            for lvl, pp in pos.items():
                c('e2e:define-present')
                if len(pp) != 1:
                    bad.append(('e2e-define-count', {'token': f'-DLVL={lvl}', 'count': len(pp)}))
            for lo, hi in ORDER_PAIRS:
                if lo in pos and hi in pos and pos[lo] and pos[hi]:
                    c('e2e:define-order-pairs')
                    if not pos[lo][-1] < pos[hi][0]:
                        bad.append((f'e2e-define-order:{lo}-not-before-{hi}', {'lower': lo, 'higher': hi}))
            w = decided_winner(per)
            if w is not None and eff is not None:
                c('e2e:effective-macro')
                if eff.get('LVL') != w:
                    bad.append(('e2e-effective-define-not-highest-level', {'macro': 'LVL', 'effective': eff.get('LVL'), 'expected': w}))
        else:
            # identical strings: each survives exactly once
            for tok in sorted({t for toks in per.values() for t in toks}):
                c('e2e:override-dedup')
                n = tokens.count(tok)
                if n != 1:
                    bad.append(('e2e-identical-override-not-single' if n > 1 else 'e2e-argument-lost', {'token': tok, 'count': n}))
            w = decided_winner(per)
            if w is not None and eff is not None:
                c('e2e:effective-macro')
                want_defined = per[w][-1].startswith('-D')
                if (macro in eff) != want_defined:
                    bad.append(('e2e-effective-define-not-latest', {'macro': macro, 'defined': macro in eff,
                                                                    'expected_defined': want_defined, 'winning_level': w}))
    # include directories
    itoks = [t for t in tokens if t.startswith('-I')]
    c('e2e:include-private-dir-first')
    if not itoks or itoks[0] != '-I' + private_dir:
        bad.append(('e2e-private-dir-not-first', {'first': itoks[:1], 'expected': '-I' + private_dir}))

    def idx(tok: str) -> T.Optional[int]:
        n = tokens.count(tok)
        if n != 1:
            bad.append(('e2e-include-dir-count', {'token': tok, 'count': n}))
            return None
        return tokens.index(tok)
    seq = [f'-I../{d}' for d in proj['tdirs']]
    if is_exe:
        seq += [f'-I../{d}' for d in proj['ddirs']]        # target dirs override dependency dirs; listed order kept
    pos2 = [idx(t) for t in seq]
    for a, b, ta, tb in zip(pos2, pos2[1:], seq, seq[1:]):
        if a is None or b is None:
            continue
        c('e2e:include-order-pairs')
        if not a < b:
            bad.append(('e2e-include-order', {'first_listed': ta, 'later_listed': tb}))
    if is_exe and proj['sdirs']:
        sseq = [f'-isystem../{d}' for d in proj['sdirs']]
        pos3 = [idx(t) for t in sseq]
        for a, b, ta, tb in zip(pos3, pos3[1:], sseq, sseq[1:]):
            if a is None or b is None:
                continue
            c('e2e:isystem-order-pairs')
            if not b < a:                                  # documented: reversed, last listed searched first
                bad.append(('e2e-isystem-order-not-reversed', {'first_listed': ta, 'later_listed': tb}))
    # global / project arguments all arrive
    for tok in proj['global_args'] + proj['project_args']:
        c('e2e:arg-arrives')
        if tok not in tokens:
            # an identical -D/-U of a higher level keeps the string present anyway
            bad.append(('e2e-argument-lost', {'token': tok}))
    if is_exe and proj['use_sub']:
        c('e2e:subproject-isolation')
        if '-DLVL=SP' in tokens or '-DSUBONLY' in tokens:
            bad.append(('e2e-other-projects-arguments-leak', {'tokens': [t for t in tokens if t in ('-DLVL=SP', '-DSUBONLY')]}))
    return cnt, bad


_WHICH = {'ninc_a': '1', 'ninc_b': '2', 'ninc_c': '3'}


def preprocess(tokens: T.List[str], source: str, cwd: str) -> T.Optional[T.Dict[str, str]]:
    """Macros the real preprocessor ends up with for `source` under the -I/-D/-U tokens, in their order."""
    sel: T.List[str] = []
    it = iter(tokens)
    for t in it:
        if t in ('-I', '-D', '-U', '-isystem', '-include', '-Xpreprocessor'):
            sel += [t, next(it, '')]
        elif t.startswith(('-I', '-D', '-U', '-isystem')):
            sel.append(t)
    try:
        p = subprocess.run(['gcc', '-E', '-dM', '-x', 'c', '-'] + sel, input=source.encode(), cwd=cwd,
                           stdout=subprocess.PIPE, stderr=subprocess.DEVNULL, timeout=30)
    except (OSError, subprocess.TimeoutExpired):
        return None
    if p.returncode != 0:
        return {'<preprocessor-failed>': '1'}
    res: T.Dict[str, str] = {}
    for line in p.stdout.decode('utf-8', 'replace').splitlines():
        parts = line.split(None, 2)
        if len(parts) >= 2 and parts[0] == '#define':
            res[parts[1]] = parts[2] if len(parts) > 2 else ''
    return res


def check_dependency_increments(proj: dict, tokens: T.List[str], bdir: str) -> T.Tuple[T.Dict[str, int], T.List[T.Tuple[str, dict]]]:
    """nexe: the dependencies' compile_args are increments added so that the first listed dependency has the
    highest precedence (backends.py: "We must preserve the order in which external deps are specified, so we reverse
    the list before iterating over it").  The expected increment sequence comes from the PROJECT DESCRIPTION, not from
    the += calls the backend happened to make: eager reference of reversed(listed) increments, compared on the
    arguments only the dependencies use; plus what the real preprocessor makes of the whole command line."""
    cnt = {'e2e:dependency-increments': 1}
    bad: T.List[T.Tuple[str, dict]] = []

    def norm(t: str) -> str:
        m = re.match(r'-I.*/(ninc_[abc])$', t)
        return '-I@SRC@/' + m.group(1) if (m and t.startswith('-I/')) else t
    ref = refargs.RefArgs(refargs.CLIKE)
    for inc in reversed(proj['nseq']):
        ref.add_batch(list(inc))
    ns = {t for inc in proj['nseq'] for t in inc}
    observed = [norm(t) for t in tokens if norm(t) in ns]
    expected = list(ref.items)
    if observed != expected:
        bad.append(('e2e-dependency-increments-differ-from-eager:' + S.classify_list_diff(refargs.CLIKE, observed, expected),
                    {'observed': observed, 'expected': expected, 'increments_in_order_of_addition': list(reversed(proj['nseq']))}))
    eff = preprocess(tokens, '#include <which.h>\n', bdir)
    if eff is not None:
        cnt['e2e:dependency-effective'] = 1
        first_dir = next(t for t in expected if t.startswith('-I'))
        want = {'WHICH': _WHICH[first_dir.rsplit('/', 1)[1]]}
        last_feat = [t for t in expected if t in ('-DZQFEAT', '-UZQFEAT')][-1]
        want['ZQFEAT'] = '1' if last_feat == '-DZQFEAT' else None       # type: ignore[assignment]
        vals = [t for t in expected if t.startswith('-DZQVAL=')]
        if vals:
            want['ZQVAL'] = vals[-1].split('=', 1)[1]
        got = {k: eff.get(k) for k in want}
        if got != want:
            bad.append(('e2e-dependency-effective-setting-not-first-listed', {'effective': got, 'expected': want,
                                                                              'increments_in_order_of_addition': list(reversed(proj['nseq']))}))
    return cnt, bad


def check_dependency_include_dirs(proj: dict, tokens: T.List[str], bdir: str) -> T.Tuple[T.Dict[str, int], T.List[T.Tuple[str, dict]]]:
    """nexe2: include_directories of the dependencies keep the order in which they are specified, each once."""
    cnt = {'e2e:dependency-include-dirs': 1}
    bad: T.List[T.Tuple[str, dict]] = []
    expected: T.List[str] = []
    for d in proj['iseq']:
        if f'-I../{d}' not in expected:
            expected.append(f'-I../{d}')
    observed = [t for t in tokens if t in ('-I../ninc_a', '-I../ninc_b', '-I../ninc_c')]
    if observed != expected:
        bad.append(('e2e-dependency-include-dirs-order', {'observed': observed, 'expected': expected, 'listed': proj['iseq']}))
    eff = preprocess(tokens, '#include <which.h>\n', bdir)
    if eff is not None:
        cnt['e2e:dependency-effective'] = 1
        if eff.get('WHICH') != _WHICH[proj['iseq'][0]]:
            bad.append(('e2e-dependency-effective-setting-not-first-listed', {'effective': {'WHICH': eff.get('WHICH')},
                                                                              'expected': {'WHICH': _WHICH[proj['iseq'][0]]}, 'listed': proj['iseq']}))
    return cnt, bad


_ZQ_LINK = {'-L/opt/zq_a', '-L/opt/zq_b', '-lzq_a', '-lzq_b', '-lzq_c', '-lzq_shared', '-Wl,-rpath,/opt/zq'}
_ZL_C = {'-ftrapv', '-fno-builtin', '-fno-ident', '-fno-plt', '-DZL1', '-DZL2', '-UZL1', '-DZL3=1'}
_ZL_L = {'-Wl,-z,now', '-Wl,-z,relro', '-Wl,--warn-common', '-Wl,--hash-style=gnu', '-Wl,-z,noexecstack', '-Wl,--sort-common'}


def check_dependency_link_args(proj: dict, link_tokens: T.List[str]) -> T.Tuple[T.Dict[str, int], T.List[T.Tuple[str, dict]]]:
    """nexe3: link_args of the dependencies are added in listed order "without reordering or de-dup to preserve
    `-L -l` sets" (ninjabackend.generate_link, meson issue 1718): eager expectation of the increments named in the
    project description."""
    cnt = {'e2e:dependency-link-args': 1}
    bad: T.List[T.Tuple[str, dict]] = []
    ref = refargs.RefArgs(refargs.CLIKE)
    for inc in proj['lseq']:
        ref.extend_preserving_lflags(list(inc))
    expected = [t for t in ref.items if t in _ZQ_LINK]
    observed = [t for t in link_tokens if t in _ZQ_LINK]
    if observed != expected:
        bad.append(('e2e-dependency-link-args-differ-from-eager:' + S.classify_list_diff(refargs.CLIKE, observed, expected),
                    {'observed': observed, 'expected': expected, 'increments': proj['lseq'], 'LINK_ARGS': link_tokens}))
    return cnt, bad


def check_language_args(proj: dict, lang: str, tokens: T.List[str], link_tokens: T.Optional[T.List[str]]) -> T.Tuple[T.Dict[str, int], T.List[T.Tuple[str, dict]]]:
    """zc / zcpp: a compile (link) line of language L carries exactly the arguments of the calls that named L, in
    call order, project arguments before global ones (each kind arrives as one increment)."""
    cnt: T.Dict[str, int] = {}
    bad: T.List[T.Tuple[str, dict]] = []
    multi = proj['multi']

    def named(fn: str) -> T.List[str]:
        return [a for call in multi[fn] if lang in call['languages'] for a in call['args']]
    if link_tokens is None:
        ref = refargs.RefArgs(refargs.CLIKE)
        ref.add_batch(named('add_project_arguments'))
        ref.add_batch(named('add_global_arguments'))
        expected = list(ref.items)
        observed = [t for t in tokens if t in _ZL_C]
        cnt['e2e:per-language-compile-args'] = 1
        if observed != expected:
            bad.append((f'e2e-per-language-arguments-differ:{lang}:' + S.classify_list_diff(refargs.CLIKE, observed, expected),
                        {'language': lang, 'observed': observed, 'expected': expected, 'calls': multi, 'ARGS': tokens}))
    else:
        ref = refargs.RefArgs(refargs.CLIKE)
        ref.add_batch(named('add_project_link_arguments'))
        expected = list(ref.items)
        observed = [t for t in link_tokens if t in _ZL_L]
        cnt['e2e:per-language-link-args'] = 1
        if observed != expected:
            bad.append((f'e2e-per-language-link-arguments-differ:{lang}:' + S.classify_list_diff(refargs.CLIKE, observed, expected),
                        {'language': lang, 'observed': observed, 'expected': expected,
                         'calls': multi['add_project_link_arguments'], 'LINK_ARGS': link_tokens}))
    return cnt, bad


def build_probe_libs(src: str) -> None:
    """zqla/libzqw.a (zqw = 1) and zqlb/libzqw.a (zqw = 2): the same library name in two directories."""
    for d, v in (('zqla', 1), ('zqlb', 2)):
        dd = os.path.join(src, d)
        os.makedirs(dd, exist_ok=True)
        obj = os.path.join(dd, 'zqw.o')
        subprocess.run(['gcc', '-c', '-x', 'c', '-', '-o', obj], input=f'int zqw = {v};\n'.encode(), check=True,
                       stdout=subprocess.DEVNULL, stderr=subprocess.DEVNULL, timeout=60)
        subprocess.run(['ar', 'rcs', os.path.join(dd, 'libzqw.a'), obj], check=True, stdout=subprocess.DEVNULL,
                       stderr=subprocess.DEVNULL, timeout=60)


_WHICH_LIB = {'zqla': '1', 'zqlb': '2'}


def check_compiler_checks(proj: dict, out: str) -> T.Tuple[T.Dict[str, int], T.List[T.Tuple[str, dict]]]:
    """Result of the compiler checks of the project: the directory listed first in the one increment that carries
    them must be the one searched first (include_directories.yaml: "the first directory listed has the highest
    priority"; a batch of -I/-L keeps its own order)."""
    cnt: T.Dict[str, int] = {}
    bad: T.List[T.Tuple[str, dict]] = []
    got = dict(re.findall(r'ZQCHK (\w+)=(\S*)', out))
    for chk_ in proj.get('cchecks', []):
        want = (_WHICH_LIB if chk_['kind'] == 'lib' else _WHICH)[chk_['dirs'][0]]
        if chk_['key'] not in got:
            cnt['e2e:compiler-check-result-missing'] = cnt.get('e2e:compiler-check-result-missing', 0) + 1
            continue
        cnt['e2e:compiler-check:' + chk_['kind']] = cnt.get('e2e:compiler-check:' + chk_['kind'], 0) + 1
        if got[chk_['key']] != want:
            bad.append((f"e2e-compiler-check-searches-later-listed-directory-first:{chk_['kind']}",
                        {'check': chk_, 'result': got[chk_['key']], 'expected': want}))
    return cnt, bad


def check_env_flags(proj: dict, src: str, tokens: T.List[str], link: bool) -> T.Tuple[T.Dict[str, int], T.List[T.Tuple[str, dict]]]:
    """Flags taken from $CFLAGS/$CPPFLAGS ($LDFLAGS) are one option-derived increment: on every compile (link)
    line the arguments only the environment supplied appear with the eager meaning of that one batch."""
    cnt: T.Dict[str, int] = {}
    bad: T.List[T.Tuple[str, dict]] = []
    given = [t.replace('@SRC@', src) for t in (proj['env_ld'] if link else proj['env_c'])]
    if not given:
        return cnt, bad
    ref = refargs.RefArgs(refargs.CLIKE)
    ref.add_batch(given)
    ns = set(given)
    expected = [t for t in ref.items if t in ns]
    observed = [t for t in tokens if t in ns]
    key = 'e2e:env-link-flags' if link else 'e2e:env-compile-flags'
    cnt[key] = 1
    if observed != expected:
        bad.append((('e2e-environment-link-flags-differ-from-eager:' if link else 'e2e-environment-flags-differ-from-eager:') +
                    S.classify_list_diff(refargs.CLIKE, observed, expected),
                    {'observed': observed, 'expected': expected, 'environment': proj['env']}))
    if not link and any(t in ('-DZE=1', '-UZE') for t in given):
        eff = preprocess(tokens, '', os.path.join(src, 'build'))
        if eff is not None:
            cnt['e2e:env-effective-macro'] = 1
            want = [t for t in given if t in ('-DZE=1', '-UZE')][-1] == '-DZE=1'
            if ('ZE' in eff) != want:
                bad.append(('e2e-environment-setting-later-one-does-not-win', {'ZE_defined': 'ZE' in eff, 'expected_defined': want,
                                                                               'environment': proj['env']}))
    return cnt, bad


def check_dependency_copies(proj: dict, src: str, target: str, tokens: T.List[str]) -> T.Tuple[T.Dict[str, int], T.List[T.Tuple[str, dict]]]:
    """zvexe1 uses the dependency as declared, zvexe2 its as_system('system') copy, zvexe3 the 'non-system' copy of that
    copy ("returns a copy of the dependency object, where the include_type has changed")."""
    cnt = {'e2e:dependency-copy-include-type': 1}
    bad: T.List[T.Tuple[str, dict]] = []
    v, w = src + '/zqv', src + '/zqw'
    want = {'zvexe1': ['-I' + v, '-isystem' + w], 'zvexe2': ['-isystem' + v, '-isystem' + w],
            'zvexe3': ['-I' + v, '-I' + w]}[target]
    forms = {'-I' + v, '-isystem' + v, '-I' + w, '-isystem' + w}
    got = [t for t in tokens if t in forms]
    if sorted(got) != sorted(want) or '-DZQV=1' not in tokens:
        bad.append(('e2e-dependency-copy-carries-arguments-of-another-include-type',
                    {'target': target, 'observed': got, 'expected': want, 'history': proj['zv_order']}))
    elif got != [t for t in refargs.RefArgs(refargs.CLIKE, []).added(
            {'zvexe1': ['-I' + v, '-DZQV=1', '-isystem' + w], 'zvexe2': ['-isystem' + v, '-DZQV=1', '-isystem' + w],
             'zvexe3': ['-I' + v, '-DZQV=1', '-I' + w]}[target]).items if t in forms]:
        bad.append(('e2e-dependency-copy-arguments-order', {'target': target, 'observed': got, 'history': proj['zv_order']}))
    return cnt, bad


def check_env_link_multiplicity(proj: dict, src: str, link_tokens: T.List[str]) -> T.Tuple[T.Dict[str, int], T.List[T.Tuple[str, dict]]]:
    """$CFLAGS/$CPPFLAGS "will be added to the linker command line if the compiler acts as a linker driver"
    (environment.py): a link line holds the words of $LDFLAGS and of the compile flags from the environment; the ones
    that cannot be de-duplicated keep their multiplicity (a word given in both variables is there for both)."""
    cnt = {'e2e:env-link-multiplicity': 1}
    bad: T.List[T.Tuple[str, dict]] = []
    t = refargs.CLIKE
    ld = [x.replace('@SRC@', src) for x in proj['env_ld']]
    cc_ = [x.replace('@SRC@', src) for x in proj['env_c']]
    lost = {}
    for a in sorted(set(ld + cc_)):
        if t.kind(a) != refargs.NONE or t.prepends(a):
            continue
        want = ld.count(a) + cc_.count(a)
        if link_tokens.count(a) != want:
            lost[a] = {'on_line': link_tokens.count(a), 'expected': want}
    if lost:
        bad.append(('e2e-environment-flags-multiplicity-on-link-line', {'differences': lost, 'environment': proj['env']}))
    return cnt, bad


def check_target_base_args(proj: dict, target: str, tokens: T.List[str]) -> T.Tuple[T.Dict[str, int], T.List[T.Tuple[str, dict]]]:
    """Every target's compile line carries ITS OWN base arguments (gnu_symbol_visibility:, override_options of a b_*
    option), nobody else's."""
    cnt = {'e2e:target-base-args': 1}
    bad: T.List[T.Tuple[str, dict]] = []
    tb = proj['tbase'][target]
    want_vis = [f"-fvisibility={tb['visibility']}"] if tb['visibility'] and tb['visibility'] != 'default' else (
        ['-fvisibility=default'] if tb['visibility'] == 'default' else [])
    got_vis = [t for t in tokens if t.startswith('-fvisibility=')]
    if got_vis != want_vis:
        bad.append(('e2e-target-base-arguments-of-another-target:visibility',
                    {'target': target, 'observed': got_vis, 'expected': want_vis, 'settings': proj['tbase']}))
    nd = tb['b_ndebug'] if tb['b_ndebug'] else ('true' if '-Db_ndebug=true' in proj['argv'] else 'false')
    if ('-DNDEBUG' in tokens) != (nd == 'true'):
        bad.append(('e2e-target-base-arguments-of-another-target:b_ndebug',
                    {'target': target, 'NDEBUG_on_line': '-DNDEBUG' in tokens, 'expected': nd == 'true', 'settings': proj['tbase']}))
    return cnt, bad


GROUP_S, GROUP_E = '-Wl,--start-group', '-Wl,--end-group'


def check_group_markers(tokens: T.List[str]) -> T.Optional[str]:
    """A command line is the eager list converted ONCE: one --start-group in front of the first and one --end-group
    behind the last library argument when there are several, none otherwise (comments of CLikeCompilerArgs.to_native;
    the generated projects never pass group markers themselves)."""
    bare = [t for t in tokens if t not in (GROUP_S, GROUP_E)]
    want = refargs.RefArgs(refargs.CLIKE, bare).native_form(True)
    if tokens == want:
        return None
    if tokens.count(GROUP_S) > 1 or tokens.count(GROUP_E) > 1:
        return 'repeated'
    if len(want) == len(bare):
        return 'without-several-libraries'
    if len(tokens) == len(bare):
        return 'missing'
    return 'misplaced'


def check_multi_source_target(proj: dict, tokens: T.List[str]) -> T.Tuple[T.Dict[str, int], T.List[T.Tuple[str, dict]]]:
    """msexe: compile_args of the dependency, then the target's c_args (two increments, dependency < target), with library
    arguments among them: eager meaning on the arguments only these two supply."""
    cnt = {'e2e:compile-line-library-args': 1}
    bad: T.List[T.Tuple[str, dict]] = []
    ms = proj['ms']
    ref = refargs.RefArgs(refargs.CLIKE)
    ref.add_batch(list(ms['dep']))
    ref.add_batch(list(ms['target']))
    ns = set(ms['dep']) | set(ms['target'])
    expected = [t for t in ref.items if t in ns]
    observed = [t for t in tokens if t in ns]
    if len([t for t in expected if refargs.is_group_lib(t)]) >= 2:
        cnt['e2e:compile-line-library-args:several'] = 1
    if observed != expected:
        bad.append(('e2e-compile-line-library-arguments-differ-from-eager:' + S.classify_list_diff(refargs.CLIKE, observed, expected),
                    {'observed': observed, 'expected': expected, 'increments': [ms['dep'], ms['target']]}))
    return cnt, bad


def build_pkgconfig_libs(src: str, proj: dict) -> None:
    """The libraries the generated .pc files name (so that -lX resolves to ONE file: static or shared as drawn)."""
    libdir = os.path.join(src, 'zkpc', 'lib')
    os.makedirs(libdir, exist_ok=True)
    obj = os.path.join(src, 'zqla', 'zqw.o')
    so: T.Optional[str] = None
    for p_ in proj['pk']['packages']:
        for ln, kind in p_['libs'].items():
            if kind == 'a':
                subprocess.run(['ar', 'rcs', os.path.join(libdir, f'lib{ln}.a'), obj], check=True, stdout=subprocess.DEVNULL,
                               stderr=subprocess.DEVNULL, timeout=60)
            elif so is None:
                so = os.path.join(libdir, f'lib{ln}.so')
                subprocess.run(['gcc', '-shared', '-fPIC', '-x', 'c', '-', '-o', so], input=b'int zkso;\n', check=True,
                               stdout=subprocess.DEVNULL, stderr=subprocess.DEVNULL, timeout=60)
            else:
                shutil.copyfile(so, os.path.join(libdir, f'lib{ln}.so'))


def pkgconfig_says(src: str, proj: dict) -> T.Optional[T.Dict[str, T.Dict[str, T.List[str]]]]:
    """What the REAL pkg-config prints for the listed packages (the reference for what has to arrive)."""
    env = dict(runner.base_env())
    env['PKG_CONFIG_PATH'] = os.path.join(src, 'zkpc')
    out: T.Dict[str, T.Dict[str, T.List[str]]] = {}
    for name in proj['pk']['listed']:
        out[name] = {}
        for what, extra in (('libs', {'PKG_CONFIG_ALLOW_SYSTEM_LIBS': '1'}), ('cflags', {})):
            e2 = dict(env)
            e2.update(extra)
            try:
                p = subprocess.run(['pkg-config', '--' + what, name], env=e2, stdout=subprocess.PIPE, stderr=subprocess.DEVNULL, timeout=30)
            except (OSError, subprocess.TimeoutExpired):
                return None
            if p.returncode != 0:
                return None
            out[name][what] = shlex.split(p.stdout.decode('utf-8', 'replace'))
    return out


def check_pkgconfig_args(proj: dict, src: str, says: T.Dict[str, T.Dict[str, T.List[str]]], tokens: T.List[str],
                         link: bool) -> T.Tuple[T.Dict[str, int], T.List[T.Tuple[str, dict]]]:
    """pkexe: the arguments pkg-config prints for the listed packages reach the command line with their eager meaning.
    Link line: the dependencies' link_args in listed order, each one increment added "without reordering or de-dup to
    preserve -L -l sets" (generate_link); `-L` is consumed by the library lookup and `-lX` stands for the one file
    lib X resolves to (PkgConfigDependency._search_libs docstring).  Compile line: the dependencies' compile_args as
    increments in reversed listed order (generate_basic_compiler_args).  Arguments that cannot be de-duplicated keep
    order and multiplicity; a repeated library is dropped."""
    cnt: T.Dict[str, int] = {}
    bad: T.List[T.Tuple[str, dict]] = []
    t = refargs.CLIKE
    libdir = os.path.join(src, 'zkpc', 'lib')
    files = {'-l' + ln: os.path.join(libdir, f'lib{ln}.{kind}') for p_ in proj['pk']['packages'] for ln, kind in p_['libs'].items()}
    ref = refargs.RefArgs(t)
    watched: T.Set[str] = set()
    incs: T.List[T.List[str]] = []
    names = list(proj['pk']['listed'])
    for name in (names if link else reversed(names)):
        if link:
            inc = [files.get(a, a) for a in says[name]['libs'] if not a.startswith('-L')]
            ref.extend_preserving_lflags(inc)
        else:
            inc = list(says[name]['cflags'])
            ref.add_batch(inc)
        incs.append(inc)
        watched.update(inc)
    watched.discard('-pthread')
    expected = [a for a in ref.items if a in watched]
    observed = [a for a in tokens if a in watched]
    nd = [a for a in expected if t.kind(a) == refargs.NONE and not t.prepends(a)]
    key = 'e2e:pkg-config-link-args' if link else 'e2e:pkg-config-compile-args'
    cnt[key] = 1
    if len(set(nd)) < len(nd):
        cnt[key + ':repeated-non-dedupable'] = 1
    if observed != expected:
        bad.append((('e2e-pkg-config-link-args-differ-from-eager:' if link else 'e2e-pkg-config-compile-args-differ-from-eager:') +
                    S.classify_list_diff(t, observed, expected),
                    {'observed': observed, 'expected': expected, 'pkg-config_prints': {n: says[n]['libs' if link else 'cflags'] for n in names},
                     'increments_in_order_of_addition': incs}))
    return cnt, bad


def run_project(proj: dict, root: T.Optional[str] = None) -> dict:
    """One real `meson setup` with the shadow installed + the end-to-end checks. Plain data out."""
    own = root is None
    root = root or common.scratch_dir('c13p')
    src = os.path.join(root, f'p{proj["idx"]}')
    res: dict = {'idx': proj['idx'], 'counters': {}, 'viol': [], 'status': 'ok', 'features': proj['features']}
    try:
        runner.write_tree(src, {k: (v.replace('@SRC@', src) if k.endswith('.pc') else v) for k, v in proj['files'].items()})
        build_probe_libs(src)
        says = None
        if proj.get('pk'):
            build_pkgconfig_libs(src, proj)
            says = pkgconfig_says(src, proj)
            if says is None:
                res['counters']['e2e:pkg-config-reference-unavailable'] = 1
        menv = {'MESON_FORCE_BACKTRACE': ''}
        menv.update({k: v.replace('@SRC@', src) for k, v in proj.get('env', {}).items()})
        r = runner.meson([a.replace('@SRC@', src) for a in proj['argv']], cwd=src, env=menv, monitors=[S.install_shadow], timeout=180)
        if r.timed_out:
            res['status'] = 'timeout'
            return res
        got_counters = False
        for ev in r.records:
            if ev.get('kind') == 'counters':
                got_counters = True
                for k, v in ev['counters'].items():
                    res['counters']['meson:' + k] = res['counters'].get('meson:' + k, 0) + v
            elif ev.get('kind') in ('violation', 'monitor-error'):
                w = {k: ev[k] for k in ('read', 'observed', 'expected', 'class', 'history', 'error') if k in ev}
                res['viol'].append((ev['mechanism'], w))
        if r.rc != 0:
            if r.traceback or r.rc not in (1,):
                # a MesonException is reported as "ERROR: ..." with rc 1; anything else escaped from the code
                res['viol'].append(('internal-error-during-setup', r.brief()))
            res['status'] = 'setup-failed'
            res['brief'] = r.brief()
            return res
        if not got_counters:
            res['status'] = 'no-counters'
        with open(os.path.join(src, 'build', 'build.ninja'), encoding='utf-8') as f:
            ninja_text = f.read()
        cnt0, bad0 = check_compiler_checks(proj, r.out)
        for k, v in cnt0.items():
            res['counters'][k] = res['counters'].get(k, 0) + v
        for mech, w in bad0:
            res['viol'].append((mech, dict(w)))
        stmts = parse_compile_statements(ninja_text)
        extra: T.List[T.Tuple[T.Dict[str, int], T.List[T.Tuple[str, dict]], str]] = []
        for out, rule, var in parse_statements(ninja_text):
            if rule.endswith('_LINKER') and 'LINK_ARGS' in var:
                if out == 'nexe3':
                    extra.append(check_dependency_link_args(proj, var['LINK_ARGS']) + (out,))
                elif out in ('zc', 'zcpp') and proj.get('multi'):
                    lang = 'c' if out == 'zc' else 'cpp'
                    if rule != f'{lang}_LINKER':
                        res['viol'].append(('harness:unexpected-linker-rule', {'statement': out, 'rule': rule}))
                    extra.append(check_language_args(proj, lang, [], var['LINK_ARGS']) + (out,))
            elif rule.endswith('_COMPILER') and 'ARGS' in var and proj.get('multi') and out.split('/')[0] in ('zc.p', 'zcpp.p'):
                lang = 'c' if out.startswith('zc.p') else 'cpp'
                extra.append(check_language_args(proj, lang, var['ARGS'], None) + (out,))
        for cnt, bad, out in extra:
            for k, v in cnt.items():
                res['counters'][k] = res['counters'].get(k, 0) + v
            for mech, w in bad:
                w = dict(w)
                w['statement'] = out
                res['viol'].append((mech, w))
        res['counters']['e2e:compile-statements'] = len(stmts)
        more: T.List[T.Tuple[T.Dict[str, int], T.List[T.Tuple[str, dict]], str, T.List[str]]] = []
        for out, tokens in stmts.items():
            if out.startswith('subprojects/'):
                continue
            mt = re.match(r'^(?:lib)?(\w+?)(?:\.a|\.so)?\.p$', out.split('/')[0])
            if mt and mt.group(1) in proj.get('tbase', {}):
                more.append(check_target_base_args(proj, mt.group(1), tokens) + (out, tokens))
            if proj.get('env_c') and out.endswith('.c.o'):
                more.append(check_env_flags(proj, src, tokens, False) + (out, tokens))
        for out, tokens in stmts.items():
            tgt = out.split('/')[0][:-2]
            if tgt in ('zvexe1', 'zvexe2', 'zvexe3'):
                more.append(check_dependency_copies(proj, src, tgt, tokens) + (out, tokens))
        # every command line: the library group once, in its place; all sources of one target and language get the
        # same arguments (the generated projects have no per-source arguments)
        per_target: T.Dict[T.Tuple[str, str], T.List[T.Tuple[str, T.List[str]]]] = {}
        for out, rule, var in parse_statements(ninja_text):
            if not re.match(r'^(c|cpp)_(COMPILER|LINKER)$', rule):
                continue
            vname = 'ARGS' if rule.endswith('_COMPILER') else 'LINK_ARGS'
            if vname not in var:
                continue
            toks = var[vname]
            nlib = len([a for a in toks if refargs.is_group_lib(a)])
            ck = 'e2e:group-markers:' + ('compile' if vname == 'ARGS' else 'link') + (':several-libraries' if nlib >= 2 else '')
            res['counters'][ck] = res['counters'].get(ck, 0) + 1
            why = check_group_markers(toks)
            if why is not None:
                res['viol'].append((f"e2e-library-group-markers-{why}:{'compile' if vname == 'ARGS' else 'link'}-line",
                                    {'statement': out, vname: toks}))
            if vname == 'ARGS':
                per_target.setdefault((out.split('/')[0] if '/' in out else '', rule), []).append((out, toks))
        for (tdir, rule), lst in per_target.items():
            if len(lst) < 2 or not tdir:
                continue
            res['counters']['e2e:sources-of-one-target-same-args'] = res['counters'].get('e2e:sources-of-one-target-same-args', 0) + 1
            if any(refargs.is_group_lib(a) for a in lst[0][1]):
                res['counters']['e2e:sources-of-one-target-same-args:with-libraries'] = \
                    res['counters'].get('e2e:sources-of-one-target-same-args:with-libraries', 0) + 1
            odd = [(o, tk) for o, tk in lst[1:] if tk != lst[0][1]]
            if odd:
                res['viol'].append(('e2e-sources-of-one-target-get-different-arguments:' +
                                    S.classify_list_diff(refargs.CLIKE, lst[0][1], odd[0][1]),
                                    {'target_dir': tdir, 'rule': rule, 'statement': lst[0][0], 'ARGS': lst[0][1],
                                     'other_statement': odd[0][0], 'other_ARGS': odd[0][1]}))
        for out, tokens in stmts.items():
            if out.startswith('msexe.p/') and proj.get('ms'):
                more.append(check_multi_source_target(proj, tokens) + (out, tokens))
            elif out.startswith('pkexe.p/') and says is not None:
                more.append(check_pkgconfig_args(proj, src, says, tokens, False) + (out, tokens))
        if says is not None:
            for out, rule, var in parse_statements(ninja_text):
                if out == 'pkexe' and rule == 'c_LINKER' and 'LINK_ARGS' in var:
                    more.append(check_pkgconfig_args(proj, src, says, var['LINK_ARGS'], True) + (out, var['LINK_ARGS']))
        if proj.get('env_c') or proj.get('env_ld'):
            for out, rule, var in parse_statements(ninja_text):
                if rule == 'c_LINKER' and 'LINK_ARGS' in var and not out.startswith('subprojects/'):
                    if proj.get('env_ld') and not proj.get('env_shared'):
                        # (when the same token is in both variables their mutual order is undocumented: multiplicity only)
                        more.append(check_env_flags(proj, src, var['LINK_ARGS'], True) + (out, var['LINK_ARGS']))
                    more.append(check_env_link_multiplicity(proj, src, var['LINK_ARGS']) + (out, var['LINK_ARGS']))
        for cnt, bad, out, tokens in more:
            for k, v in cnt.items():
                res['counters'][k] = res['counters'].get(k, 0) + v
            for mech, w in bad:
                w = dict(w)
                w.update({'statement': out, 'ARGS': tokens})
                res['viol'].append((mech, w))
        for out, tokens in stmts.items():
            private_dir = out.split('/')[0]
            if out.startswith('subprojects/'):
                res['counters']['e2e:subproject-isolation'] = res['counters'].get('e2e:subproject-isolation', 0) + 1
                if '-DLVL=P' in tokens or '-DLVL=SP' not in tokens:
                    res['viol'].append(('e2e-other-projects-arguments-leak', {'statement': out, 'ARGS': tokens}))
                for tok in proj['global_args']:
                    if tok not in tokens:
                        res['viol'].append(('e2e-argument-lost', {'statement': out, 'token': tok}))
                continue
            bdir = os.path.join(src, 'build')
            if private_dir == 'nexe.p':
                cnt, bad = check_dependency_increments(proj, tokens, bdir)
            elif private_dir == 'nexe2.p':
                cnt, bad = check_dependency_include_dirs(proj, tokens, bdir)
            elif private_dir.startswith('exe'):
                cnt, bad = check_target_args(proj, tokens, private_dir, True)
            elif 'l1' in private_dir:
                cnt, bad = check_target_args(proj, tokens, private_dir, False)
            else:
                continue
            for k, v in cnt.items():
                res['counters'][k] = res['counters'].get(k, 0) + v
            for mech, w in bad:
                w = dict(w)
                w.update({'statement': out, 'ARGS': tokens})
                res['viol'].append((mech, w))
    except Exception as e:      # harness trouble is never a verdict
        res['status'] = f'harness-error:{type(e).__name__}:{e}'
    finally:
        shutil.rmtree(src, ignore_errors=True)
        if own:
            shutil.rmtree(root, ignore_errors=True)
    return res


# ---------------------------------------------------------------------------------------------------
def merge_seq_result(chk: common.Check, r: dict, states: T.Set[int], phase: str) -> None:
    chk.evaluations += r['nodes']
    chk.count(f'{phase}:sequences', r['nodes'])
    if len(states) < 2000000:
        states.update(r['states'])
    for k, v in r['counters'].items():
        if not k.startswith('violation:'):
            chk.count(k, v)
    if r['truncated']:
        chk.count(f'{phase}:truncated-by-time')
    for mech, (n, w) in r['viol'].items():
        ent = SEQ_VIOL.get(mech)
        if ent is None:
            SEQ_VIOL[mech] = [n, dict(w), phase]
        else:
            ent[0] += n
            if len(w['ops']) < len(ent[1]['ops']):
                ent[1], ent[2] = dict(w), phase


SEQ_VIOL: T.Dict[str, list] = {}


def report_seq_violations(chk: common.Check) -> None:
    for mech, (n, w, phase) in sorted(SEQ_VIOL.items()):
        w = dict(w)
        w['occurrences'] = n
        w['found_in'] = phase
        if mech in chk.known:
            chk.known_hits[mech] = chk.known_hits.get(mech, 0) + n - 1
        chk.violation(mech, w)


def replay(chk: common.Check, path: str) -> int:
    with open(path, encoding='utf-8') as f:
        w = json.load(f)
    S.install()
    fakes()
    if w.get('phase') == 'sequence':
        S.STATE.keep_history = True
        viol = run_sequence(w['kind'], w['initial'], w['ops'])
        for v in viol:
            print('still fails:', v['mechanism'], 'observed', v.get('observed'), 'expected', v.get('expected'))
        hit = any(v['mechanism'] == w.get('mechanism') for v in viol) or (bool(viol) and 'mechanism' not in w)
        print('REPLAY', 'reproduced' if hit else 'not reproduced')
        return 1 if hit else 0
    if w.get('phase') == 'project':
        runner.preload()
        res = run_project(w['project'])
        for mech, ww in res['viol']:
            print('still fails:', mech, json.dumps(ww, default=repr)[:400])
        hit = any(m == w.get('mechanism') for m, _ in res['viol'])
        print('REPLAY', 'reproduced' if hit else 'not reproduced', res['status'])
        return 1 if hit else 0
    print('REPLAY: witness has no replayable phase')
    return 0


def main() -> int:
    chk = common.Check(PID)
    common.use_repo()
    if os.environ.get('VERIF_REPLAY'):
        return replay(chk, os.environ['VERIF_REPLAY'])
    quick = chk.tier == 'quick'
    runner.preload()
    S.install()
    fakes()
    t0 = time.time()

    # ---- P: probes -------------------------------------------------------------------------------
    phase_probes(chk)

    # ---- 3/4 first (forked children; independent of the in-process state) --------------------------
    nproj = 24 if quick else 150
    prng = random.Random(f'C13:projects:{chk.seed}')
    projects = [gen_project(prng, i) for i in range(nproj)]
    root = common.scratch_dir('c13')

    pres = common.pmap(functools.partial(run_project, root=root), projects, chk.jobs)
    feature_cells: T.Dict[str, int] = {}
    proj_viol: T.Dict[str, int] = {}
    for p, r in zip(projects, pres):
        chk.case(('project', hashlib.sha256(json.dumps(p['files'], sort_keys=True).encode()).hexdigest()[:12], tuple(p['argv'])))
        chk.count('meson:setups')
        for f in r['features']:
            feature_cells[f] = feature_cells.get(f, 0) + 1
        if r['status'] != 'ok':
            chk.inconclusive_case('project-' + r['status'].split(':')[0])
            if 'brief' in r:
                chk.notes.setdefault('failed_setups', []).append(r['brief'])
        else:
            chk.count('meson:setups-ok')
        chk.merge_counts({k: v for k, v in r['counters'].items() if not k.startswith('meson:violation:')})
        for mech, w in r['viol']:
            proj_viol[mech] = proj_viol.get(mech, 0) + 1
            if proj_viol[mech] <= 2 or mech in chk.known:      # two witnesses per mechanism are enough
                w = dict(w)
                w.update({'phase': 'project', 'project': p})
                chk.violation(mech, w)
    if proj_viol:
        chk.notes['project_violation_counts'] = proj_viol
    if projects:
        chk.sample({'project': projects[0]['files']['meson.build'], 'argv': projects[0]['argv']})
    t_proj = time.time() - t0

    # ---- 1: exhaustive ----------------------------------------------------------------------------
    states: T.Set[int] = set()
    budget = 32.0 if quick else 480.0
    t_end = time.time() + budget
    # (opset, class, initial list, max length, sampled only, share of the time budget); cheapest first so that a
    # loaded machine still completes the small bounds
    if quick:
        plans = [('full', 'plain', ['-lfoo', '-DX'], 2, False, 0.05), ('small', 'base', [], 4, False, 0.1),
                 ('small', 'gnu', ['-DX', '-Ia'], 5, False, 0.4), ('full', 'gnu', [], 3, False, 0.45)]
    else:
        # the last plan is too large to finish: a seed-dependent sample of its subtrees, cut by the time budget
        # (time a finished plan leaves unused goes to the following ones: on 16 free cores the four bounded plans take
        # about 90 s together and the sample gets the rest)
        plans = [('full', 'plain', ['-lfoo', '-DX'], 3, False, 0.1), ('small', 'base', [], 5, False, 0.1),
                 ('full', 'gnu', [], 3, False, 0.1), ('small', 'gnu', ['-DX', '-Ia'], 6, False, 0.4),
                 ('full', 'gnu', ['-DX', '-Ia', '-lfoo'], 4, True, 0.3)]
    exhaustive_complete = True
    plan_notes = []
    share_left = sum(p[5] for p in plans)
    for opset, kind, initial, depth, sampled, share in plans:
        deadline = time.time() + max(1.0, (t_end - time.time()) * share / share_left)
        share_left -= share
        ops = OPSETS[opset]()
        plen = min(2, depth - 1)
        prefixes: T.List[T.List[list]] = [[]]
        for _ in range(plen):
            prefixes = [p + [op] for p in prefixes for op in ops]
        # nodes of depth <= plen are enumerated by a single extra item
        items = [{'opset': opset, 'kind': kind, 'initial': initial, 'depth': plen, 'prefixes': [[]], 'deadline': deadline}] if plen else []
        order = list(prefixes)
        random.Random(f'C13:order:{chk.seed}').shuffle(order)
        per = max(1, len(order) // (chk.jobs * 8))
        items += [{'opset': opset, 'kind': kind, 'initial': initial, 'depth': depth, 'prefixes': order[i:i + per],
                   'deadline': deadline} for i in range(0, len(order), per)]
        n0 = chk.counters.get('exhaustive:sequences', 0)
        trunc = False
        for r in common.pmap(work_exhaustive, items, chk.jobs):
            merge_seq_result(chk, r, states, 'exhaustive')
            trunc = trunc or r['truncated']
        n = chk.counters.get('exhaustive:sequences', 0) - n0
        total = sum(len(ops) ** d for d in range(1, depth + 1))
        plan_notes.append({'opset': opset, 'ops': len(ops), 'class': kind, 'initial': initial, 'max_len': depth,
                           'sequences': n, 'of': total, 'complete': not trunc and n == total, 'sampled_only': sampled})
        if not sampled:
            exhaustive_complete = exhaustive_complete and not trunc and n == total
    chk.sample({'exhaustive_ops_full': [o for o in full_ops()[:3]] + ['...'], 'n_ops_full': len(full_ops()),
                'n_ops_small': len(small_ops())})
    t_exh = time.time() - t0 - t_proj

    # ---- 2: random --------------------------------------------------------------------------------
    nrand = 24000 if quick else 1500000
    rdeadline = time.time() + (16.0 if quick else 200.0)
    per = max(200, nrand // (chk.jobs * 6))
    ritems = [{'seed': f'C13:rand:{chk.seed}:{i}', 'n': per, 'maxlen': 60, 'deadline': rdeadline}
              for i in range((nrand + per - 1) // per)]
    rstates: T.Set[int] = set()
    for r in common.pmap(work_random, ritems, chk.jobs):
        merge_seq_result(chk, r, rstates, 'random')
    rr = random.Random('C13:sample')
    chk.sample({'random_sequence_example': [random_op(rr, A13) for _ in range(6)]})
    chk.distinct.update(states)        # ints; only the size of the set is reported (a lower bound, capped)
    chk.distinct.update(rstates)

    report_seq_violations(chk)

    # ---- deciding monitors -------------------------------------------------------------------------
    chk.require('probe:doc-example', 3)
    chk.require('probe:known-finding-sequence', 5)
    chk.require('read:factory-copy', 1)
    chk.require('exhaustive:sequences', 50000 if quick else 300000)
    chk.require('random:sequences', 3000 if quick else 20000)
    for m in ('read:__iter__', 'read:__getitem__', 'read:__len__', 'read:__eq__', 'read:to_native', 'read:__repr__',
              'read:copy', 'compare:full-list', 'compare:conservation', 'compare:after-direct-op',
              'op:__iadd__', 'op:append', 'op:extend', 'op:insert', 'op:__setitem__', 'op:__delitem__',
              'op:append_direct', 'op:extend_direct', 'op:extend_preserving_lflags', 'op:copy', 'op:__add__',
              'op:__radd__', 'op:__init__'):
        chk.require(m, 1)
    min_ok = max(1, (nproj * 3) // 4)
    chk.require('meson:setups-ok', min_ok)
    for m in ('meson:compare:full-list', 'meson:read:to_native', 'meson:op:__iadd__', 'meson:op:extend_preserving_lflags',
              'e2e:define-order-pairs', 'e2e:effective-macro', 'e2e:override-dedup', 'e2e:include-order-pairs',
              'e2e:isystem-order-pairs', 'e2e:include-private-dir-first', 'e2e:dependency-increments',
              'e2e:dependency-include-dirs', 'e2e:dependency-effective', 'e2e:dependency-link-args',
              'e2e:per-language-compile-args', 'e2e:per-language-link-args', 'e2e:compiler-check:args',
              'e2e:compiler-check:incs', 'e2e:compiler-check:dep', 'e2e:compiler-check:lib',
              'meson:contract:compile-check-increment:several-dirs', 'meson:contract:to_native-result-independent',
              'contract:to_native-result-independent', 'read:to_native-kept-result', 'e2e:env-compile-flags',
              'e2e:env-link-flags', 'e2e:target-base-args', 'meson:contract:check-link-option-args',
              'e2e:dependency-copy-include-type', 'e2e:env-link-multiplicity',
              'e2e:pkg-config-link-args:repeated-non-dedupable', 'e2e:pkg-config-compile-args:repeated-non-dedupable',
              'e2e:compile-line-library-args:several', 'e2e:group-markers:compile:several-libraries',
              'e2e:group-markers:link:several-libraries', 'e2e:sources-of-one-target-same-args:with-libraries',
              'meson:contract:command-line-is-meaning-of-increments',
              'meson:read:to_native:in-place-conversion-changed-the-list'):
        chk.require(m, 1)
    if chk.counters.get('shadow:adopted', 0):
        chk.notes['adopted_in_process'] = chk.counters['shadow:adopted']
    for k in list(chk.counters):
        if k.startswith('monitor-error:') or k.startswith('meson:monitor-error:'):
            chk.inconclusive.append(f'{k}={chk.counters[k]} (the monitor itself failed)')

    return chk.finish(
        rule='a case is one operation sequence on a real CompilerArgs/CLikeCompilerArgs (every node of the search tree over '
             'lazy states / every random sequence / every generated meson project); exhaustive sequences are distinct by '
             'construction; distinct_nontrivial counts distinct (final eager list, pending-writes flag) states reached '
             'plus distinct projects',
        assumptions=[
            'the eager reference (vf/ref/refargs.py) reads the contract as stated in property C13 and the docstrings of '
            'mesonbuild/arglist.py; classification tables are hand-transcribed data, not read from the class under test',
            'extend_preserving_lflags has no documentation: modelled after its name (-l/-L flags other than the always-dedup '
            'internal libraries are appended directly after the remaining arguments were added as a batch)',
            'to_native(copy=False) is taken to modify the list itself (group markers, stripped default -isystem); inside real '
            'meson runs every conversion is ALSO compared with the eager meaning of the increments alone (a second '
            'reference that ignores earlier in-place conversions): a command line must not depend on which other consumers '
            '(introspection, ...) read or converted the list while it was assembled; in build.ninja the library group is '
            'there once, in its place, and all sources of one target and language get identical ARGS (the generated '
            'projects have no per-source arguments)',
            'pkg-config dependencies: the reference is what the installed pkg-config really prints (--libs with '
            'PKG_CONFIG_ALLOW_SYSTEM_LIBS=1, --cflags); -L is consumed by the library lookup, -lX stands for the one file '
            'the harness created for X; link_args of the listed dependencies are increments in listed order, compile_args '
            'in reversed listed order; compared on the arguments only these dependencies supply (-pthread excluded)',
            'precedence of argument sources end to end is demanded only where a comment in backends.py/ninjabackend.py or '
            'docs/yaml states it: project < global < c_args option < target, dependency < target; '
            'include_directories: first listed first (-I), reversed for is_system (include_directories.yaml)',
            'compile_args of the dependencies of a target are increments added in reversed listed order, so the first '
            'listed dependency has the highest precedence (comment in generate_basic_compiler_args); the expected '
            'sequence of increments is taken from the project description, not from the += calls observed',
            'link_args of dependencies are added in listed order without reordering or de-dup of -L/-l sets (comment in '
            'generate_link); add_*_arguments(language: [...]) registers the arguments for exactly the named languages '
            '(docs/yaml/functions/add_global_arguments.yaml)',
            'POSIX paths, gcc-like C compiler with a GNU-like linker; D/other CompilerArgs subclasses are not shadowed',
        ],
        exhaustive=exhaustive_complete,
        extra={'exhaustive_plans': plan_notes, 'project_feature_cells': dict(sorted(feature_cells.items())),
               'phase_wall_s': {'projects': round(t_proj, 1), 'exhaustive': round(t_exh, 1),
                                'random': round(time.time() - t0 - t_proj - t_exh, 1)}})


if __name__ == '__main__':
    sys.exit(main())
