"""C20 - Cargo version requirements and cfg() expressions mean what Cargo says.

Runtime monitoring of the REAL mesonbuild.cargo.version / mesonbuild.cargo.cfg (in-process, forked
workers) against two independent oracles (vf/ref/refsemver.py, vf/ref/refcfg.py) plus contracts on
the real functions (vf/monitors/c20.py).

Sections
  calib    the oracles against the expectations pinned in unittests/cargotests.py (transcribed AND
           re-read from the repo with ast), and the real code against the same expectations
  grid     requirements x versions: for release versions acceptance == Cargo's matcher with the two
           pinned deviations; for pre-release versions and a requirement naming no pre-release: rejected;
           for pre-release versions and a requirement naming one: consistency with SemVer order under
           the rule the code documents (gate 'any') - Cargo's stricter same-triple gate is only counted
  history  every order of using accepts_version / api and calling update_version on ONE manifest.Dependency object:
           the object answers like a fresh one carrying the current requirement (and that answer is judged as in grid)
  order    SemVer section 11 on all pairs of an adversarial domain (six operators, vs the oracle) and the
           strict-weak-order axioms on all triples of the observed `<` relation; CargoLock sorting
  cfg      every expression to depth 2 (arity <= 2; depth <= 1 arity <= 3; beyond that sampled) x 16
           assignments: parse structure and value; strings with blanks/commas/parentheses; token soups
           and near-misses: malformed => MesonException, never a value, never another exception type
  probes   one directed probe per listed known finding
"""
from __future__ import annotations

import ast as pyast
import hashlib
import json
import os
import random
import sys
import time
import typing as T

from vf import common
from vf.ref import refsemver, refcfg
from vf.gen import c20 as gen

common.use_repo()
common.ensure_deps()

from vf.monitors import c20 as mon  # noqa: E402

# the code under test
from mesonbuild.cargo import version as mversion  # noqa: E402
from mesonbuild.cargo import cfg as mcfg  # noqa: E402
from mesonbuild.cargo import manifest as mmanifest  # noqa: E402
from mesonbuild.mesonlib import MesonException, MesonBugException  # noqa: E402

PID = 'C20'
DELIMS = set(' \t\n\r,()=')

# ---- globals shared with forked workers ---------------------------------------------------
REQS: T.List[T.Tuple[str, str]] = []
VERS: T.List[T.Tuple[str, str, refsemver.Version]] = []
VER_BY_TRIPLE: T.Dict[T.Tuple[int, int, int], T.List[int]] = {}
ORDER: T.List[str] = []
POOL1: T.List[refcfg.Ast] = []
POOL2: T.List[refcfg.Ast] = []     # argument pool of the enumerated depth-2 class
ASSIGN: T.List[T.Dict[str, str]] = []
SEED = 0
QUICK = os.environ.get('VERIF_TIER', 'quick') != 'thorough'


def _h64(s: str) -> int:
    return int.from_bytes(hashlib.blake2b(s.encode('utf-8', 'surrogatepass'), digest_size=8).digest(), 'big')


class Acc:
    """What a worker returns: counters, capped mismatches per mechanism, coverage cells."""

    def __init__(self) -> None:
        self.counts: T.Dict[str, int] = {}
        self.mis: T.Dict[str, T.List[dict]] = {}
        self.mis_n: T.Dict[str, int] = {}
        self.cells: T.Dict[str, int] = {}
        self.samples: T.List[T.Any] = []
        self.hashes: T.Set[int] = set()

    def count(self, k: str, n: int = 1) -> None:
        self.counts[k] = self.counts.get(k, 0) + n

    def cell(self, k: str) -> None:
        self.cells[k] = self.cells.get(k, 0) + 1

    def mismatch(self, mech: str, witness: dict) -> None:
        self.mis_n[mech] = self.mis_n.get(mech, 0) + 1
        lst = self.mis.setdefault(mech, [])
        if len(lst) < 3:
            lst.append(witness)

    def data(self) -> dict:
        c, b = mon.take()
        for k, v in c.items():
            self.count(k, v)
        for w in b:
            mech, wit = classify_breach(w)
            self.mismatch(mech, wit)
        return {'counts': self.counts, 'mis': self.mis, 'mis_n': self.mis_n, 'cells': self.cells,
                'samples': self.samples[:4], 'hashes': self.hashes}


# ==========================================================================================
# classifiers: WHY does a disagreement happen (mechanism keys)

def _shape(c: refsemver.Comparator) -> str:
    s = 'x' if c.minor is None else ('x.y' if c.patch is None else 'x.y.z')
    return s + ('-pre' if c.pre else '')


def classify_req(req: str, comps: T.Sequence[refsemver.Comparator], v: refsemver.Version,
                 real: T.Any, want: bool, section: str) -> str:
    if real is not True and real is not False:
        return f'accept-outcome:{real!r}'[:60]
    if section == 'gate':
        if not comps and req.strip() == '*':
            return 'star-accepts-prerelease'
        return 'prerelease-accepted-by-plain-requirement'
    if real and not want:
        # `<= X.Y.Z[-pre]` handled as `< X.Y.(Z+1)`: everything in (X.Y.Z[-pre], X.Y.(Z+1)) is wrongly accepted.
        # The mechanism explains the witness when every comparator the oracle sees failing is such a `<=`.
        def in_le_window(c: refsemver.Comparator) -> bool:
            return c.op == '<=' and c.patch is not None and c.minor is not None \
                and refsemver.cmp_version(v, refsemver.Version(c.major, c.minor, c.patch, c.pre, '')) > 0 \
                and refsemver.cmp_version(v, refsemver.Version(c.major, c.minor, c.patch + 1, (), '')) < 0
        # failing comparators under the interval reading (the one the code implements; on releases it equals the matcher)
        failing = [c for c in comps if not refsemver.range_matches([c], v, gate='none')]
        if failing and all(in_le_window(c) for c in failing):
            return 'le-bound-handled-as-lt-next-patch'
    ops = '+'.join(sorted({(c.op if c.op != '*' else 'wild') + ':' + _shape(c) for c in comps})) or 'star'
    return f'req-mismatch[{section}]:{ops}:{"accepts" if real else "rejects"}'


_DIGIT_LEAD = __import__('re').compile(r'^[0-9]+[A-Za-z-]')


def _pre_fields(v: str) -> T.List[str]:
    core = v.split('+', 1)[0]
    if '-' not in core:
        return []
    return core.split('-', 1)[1].split('.')


def classify_order(a: str, b: str) -> T.Optional[str]:
    """Known mechanisms of SemVer order defects, decided on the witness pair; None = unexplained."""
    fa, fb = _pre_fields(a), _pre_fields(b)
    for f in (fa, fb):
        if any(_DIGIT_LEAD.match(x) for x in f[1:]):
            return 'prerelease-digit-leading-ident-split'
    for f in (fa, fb):
        if f and f[0].isdigit():
            return 'prerelease-leading-numeric-ident-compared-as-string'
    return None


def _delim_literals(s: str) -> T.List[str]:
    try:
        toks = refcfg.tokenize(s)
    except (refcfg.Malformed, refcfg.Unspecified):
        import re
        return [m for m in re.findall(r'"([^"]*)"', s) if set(m) & DELIMS]
    return [t for k, t in toks if k == 'str' and set(t) & DELIMS]


def classify_cfg(s: str, refkind: str, real: T.Tuple[str, T.Any]) -> str:
    if real[0] == 'internal':
        return 'cfg-internal-error:' + str(real[1]).split(':')[0]
    if refkind == 'ok':
        if _delim_literals(s):
            return 'cfg-string-with-delimiter-rejected' if real[0] == 'rejected' else 'cfg-string-with-delimiter-misevaluated'
        return 'cfg-valid-rejected' if real[0] == 'rejected' else 'cfg-misevaluated'
    if refkind == 'malformed' and real[0] == 'val':
        if s.count('"') % 2 == 1:
            return 'cfg-unterminated-quote-ignored'
        if _delim_literals(s):
            # e.g. `a " = "`: the lexer splits inside the quotes and the pieces happen to parse
            return 'cfg-string-with-delimiter-misevaluated'
        return 'cfg-malformed-accepted'
    return 'cfg-unexpected'


def classify_breach(w: dict) -> T.Tuple[str, dict]:
    c = w.get('contract', '?')
    wit = {'kind': 'contract', **w}
    if c == 'lexer-loses-input':
        raw = w.get('raw', '')
        if raw.count('"') % 2 == 1:
            return 'lexer-drops-unterminated-quote', wit
        if _delim_literals(raw):
            return 'lexer-splits-inside-string', wit
        return 'lexer-loses-input', wit
    if c == 'cfg-foreign-exception':
        return 'cfg-internal-error:' + str(w.get('outcome', '')).split(':')[-1], wit
    return 'contract:' + c, wit


# ==========================================================================================
# section: grid

def _neighbour_triples(c: refsemver.Comparator) -> T.Set[T.Tuple[int, int, int]]:
    M, m, p = c.major, c.minor or 0, c.patch or 0
    hi = max(gen.VER_COMPONENTS)
    cand = {(M, m, p), (M, m, p + 1), (M, m, p - 1), (M, m + 1, 0), (M, m + 1, p), (M, m - 1, p), (M, m - 1, hi),
            (M + 1, 0, 0), (M + 1, m, p), (M - 1, m, p), (M - 1, hi, hi), (M, 0, 0), (M, m, 0), (M, hi, hi), (M, m, hi),
            (0, 0, 0), (0, 0, 1), (0, 1, 0), (1, 0, 0)}
    return {t for t in cand if t in VER_BY_TRIPLE}


def _select_versions(i: int, comps: T.Sequence[refsemver.Comparator], k_random: int) -> T.List[int]:
    rng = random.Random(f'{SEED}:sel:{i}')
    chosen: T.Dict[int, None] = {}
    for c in comps:
        for t in _neighbour_triples(c):
            for j in VER_BY_TRIPLE[t]:
                chosen.setdefault(j)
    for j in rng.sample(range(len(VERS)), min(k_random, len(VERS))):
        chosen.setdefault(j)
    return list(chosen)


def judge(comps: T.Sequence[refsemver.Comparator], v: refsemver.Version, real: T.Any,
          acc: T.Optional[Acc] = None) -> T.Tuple[str, T.Optional[bool]]:
    """(section, demanded outcome) for one (requirement, version) pair.

    release  a release version: acceptance == Cargo's matcher with the two pinned deviations
    gate     a pre-release version, requirement naming no pre-release: rejected
    range    a pre-release version, requirement naming one: the property is silent about the outcome in general.
             Two readings exist: Cargo's matcher (component-wise caret/tilde, gate: a comparator with the SAME
             major.minor.patch names a pre-release) and the Cargo book's ranges evaluated in section-11 order
             (gate: some comparator names a pre-release - what the code documents).  An outcome is demanded
             only where both readings give the same answer (e.g. `^1.2.3-alpha` accepts 1.2.3-beta and rejects
             1.2.3-1; `<=1.0.0-alpha` rejects 1.0.0-beta); otherwise only: the outcome is a bool.
    """
    def count(k: str) -> None:
        if acc is not None:
            acc.count(k)
    if not v.pre:
        want: T.Optional[bool] = refsemver.matches(comps, v, gate='cargo')
        count('monitor:grid-release-vs-cargo-matcher')
        if refsemver.matches(comps, v, pad_partial=False, zero_caret=False) != want:
            count('info:pairs-where-a-pinned-deviation-decides')
        return 'release', want
    if not refsemver.names_prerelease(comps):
        count('monitor:prerelease-gate')
        return 'gate', False
    count('monitor:prerelease-named-outcome-is-bool')
    by_matcher = refsemver.matches(comps, v, gate='cargo')
    by_interval = refsemver.range_matches(comps, v, gate='any')
    if by_matcher != bool(real):
        count('info:prerelease-pairs-differing-from-cargo-matcher')
    if by_matcher == by_interval:
        count('monitor:prerelease-both-readings-agree')
        if by_matcher:
            count('monitor:prerelease-both-readings-accept')
        want = by_matcher
    else:
        count('info:prerelease-readings-differ-nothing-demanded')
        want = real if (real is True or real is False) else None
    return 'range', want


def grid_worker(item: T.Tuple[int, int, int]) -> dict:
    start, end, k_random = item     # k_random < 0: every version
    acc = Acc()
    mon.take()
    for i in range(start, end):
        req, klass = REQS[i]
        try:
            comps = refsemver.parse_req(req)
        except refsemver.RefError as e:
            acc.count('ref:requirement-not-parsed')
            acc.mismatch('harness:requirement-not-in-reference-grammar', {'kind': 'req', 'req': req, 'error': str(e)})
            continue
        e2e = i % 7 == 0
        try:
            if e2e:
                pred = mmanifest.Dependency('pkg', version=req).accepts_version
                acc.count('monitor:e2e-dependency-accepts-version')
            else:
                pred = mversion.cargo_parse(req)
        except Exception as e:
            acc.mismatch('cargo-parse-raised:' + type(e).__name__, {'kind': 'req', 'req': req, 'ver': None,
                                                                    'error': f'{type(e).__name__}: {e}'})
            continue
        idxs = range(len(VERS)) if k_random < 0 else _select_versions(i, comps, k_random)
        for j in idxs:
            ver, vklass, v = VERS[j]
            try:
                real: T.Any = pred(ver)
            except Exception as e:
                acc.mismatch('accept-raised:' + type(e).__name__, {'kind': 'req', 'req': req, 'ver': ver,
                                                                   'error': f'{type(e).__name__}: {e}'})
                continue
            acc.count('pairs')
            if any(abs(v.major - c.major) <= 1 for c in comps) or not comps:
                acc.count('pairs-nontrivial')
            section, want = judge(comps, v, real, acc)
            for c in comps:
                acc.cells[f'{c.op if c.op != "*" else "wild"}|{_shape(c)}|{vklass}|{bool(real)}'] = \
                    acc.cells.get(f'{c.op if c.op != "*" else "wild"}|{_shape(c)}|{vklass}|{bool(real)}', 0) + 1
            if real is not want:
                mech = classify_req(req, comps, v, real, want, section)
                acc.mismatch(mech, {'kind': 'req', 'req': req, 'ver': ver, 'real': real, 'want': want,
                                    'section': section, 'req_class': klass, 'e2e': e2e})
        if i % 997 == 0:
            acc.samples.append({'req': req, 'class': klass, 'versions_tried': len(idxs)})
    return acc.data()


# ==========================================================================================
# section: order

_OPS6 = ('__lt__', '__le__', '__gt__', '__ge__', '__eq__', '__ne__')
_WANT6 = {'__lt__': lambda c: c < 0, '__le__': lambda c: c <= 0, '__gt__': lambda c: c > 0,
          '__ge__': lambda c: c >= 0, '__eq__': lambda c: c == 0, '__ne__': lambda c: c != 0}


def order_worker(item: T.Tuple[int, int]) -> dict:
    import operator
    start, end = item
    acc = Acc()
    mon.take()
    pyops = {'__lt__': operator.lt, '__le__': operator.le, '__gt__': operator.gt, '__ge__': operator.ge,
             '__eq__': operator.eq, '__ne__': operator.ne}
    objs = []
    refs = []
    for s in ORDER:
        objs.append(mversion.SemVer(s))
        refs.append(refsemver.parse_version(s, allow_partial=False))
    rows: T.Dict[int, int] = {}
    for i in range(start, end):
        bits = 0
        for j in range(len(ORDER)):
            c = refsemver.cmp_version(refs[i], refs[j])
            for op in _OPS6:
                try:
                    real = pyops[op](objs[i], objs[j])
                except Exception as e:
                    acc.mismatch('semver-compare-raised:' + type(e).__name__,
                                 {'kind': 'order', 'a': ORDER[i], 'b': ORDER[j], 'op': op, 'error': str(e)})
                    continue
                acc.count('monitor:order-pair-vs-semver11')
                want = _WANT6[op](c)
                if op == '__lt__' and real is True:
                    bits |= 1 << j
                if real is not want:
                    mech = classify_order(ORDER[i], ORDER[j]) or f'semver-order-mismatch:{op}'
                    acc.mismatch(mech, {'kind': 'order', 'a': ORDER[i], 'b': ORDER[j], 'op': op,
                                        'real': real, 'want': want})
            acc.count('order-pairs')
        rows[i] = bits
    # has_prerelease (feeds the gate)
    for i in range(start, end):
        acc.count('monitor:has-prerelease')
        if objs[i].has_prerelease is not bool(refs[i].pre):
            acc.mismatch('semver-has-prerelease-wrong', {'kind': 'order', 'a': ORDER[i], 'b': ORDER[i], 'op': 'has_prerelease',
                                                         'real': objs[i].has_prerelease, 'want': bool(refs[i].pre)})
    d = acc.data()
    d['rows'] = rows
    return d


def order_axioms(chk: common.Check, rows: T.Dict[int, int], viol: T.Callable[[str, dict], None]) -> int:
    """Strict weak order axioms on the observed `<` relation (bitset rows); returns triples covered."""
    n = len(ORDER)
    full = (1 << n) - 1
    reported = 0
    for a in range(n):
        la = rows[a]
        if la >> a & 1:
            viol(classify_order(ORDER[a], ORDER[a]) or 'semver-order-axiom:irreflexive',
                 {'kind': 'order-axiom', 'axiom': 'irreflexive', 'a': ORDER[a]})
        for b in range(n):
            lb = rows[b]
            if la >> b & 1:
                if lb >> a & 1:
                    viol(classify_order(ORDER[a], ORDER[b]) or 'semver-order-axiom:asymmetric',
                         {'kind': 'order-axiom', 'axiom': 'asymmetric', 'a': ORDER[a], 'b': ORDER[b]})
                bad = lb & ~la & full                 # a<b, b<c but not a<c
                axiom = 'transitive'
            else:
                bad = la & ~lb & full                 # not a<b, a<c but not b<c  (negative transitivity)
                axiom = 'negatively-transitive'
            if bad and reported < 200:
                c = bad.bit_length() - 1
                reported += 1
                mech = None
                for x, y in ((a, b), (b, c), (a, c)):
                    mech = mech or classify_order(ORDER[x], ORDER[y])
                viol(mech or f'semver-order-axiom:{axiom}',
                     {'kind': 'order-axiom', 'axiom': axiom, 'a': ORDER[a], 'b': ORDER[b], 'c': ORDER[c]})
    return n * n * n


def sort_probe(chk: common.Check, rng: random.Random, rounds: int, viol: T.Callable[[str, dict], None]) -> None:
    """End to end: CargoLock.named() lists versions newest first (it sorts with the real SemVer as key)."""
    for _ in range(rounds):
        vs = rng.sample(ORDER, min(len(ORDER), 24))
        lock = mmanifest.CargoLock(package=[mmanifest.CargoLockPackage('pkg', v) for v in vs])
        got = [p.version for p in lock.named('pkg')]
        chk.count('monitor:e2e-cargolock-sorted-newest-first')
        for x, y in zip(got, got[1:]):
            if refsemver.cmp_str(x, y) < 0:
                viol(classify_order(x, y) or 'cargolock-sort-order', {'kind': 'sort', 'versions': vs, 'got': got, 'a': x, 'b': y})
                break


# ==========================================================================================
# section: histories on one Dependency object (lazily cached matcher / api, update_version)
#
# manifest.Dependency is the object the cargo interpreter asks (`dep.accepts_version(v)`, `dep.api`) and later
# re-pins (`dep.update_version('=X.Y.Z')`).  accepts_version and api are cached on first use, so what the object
# answers may depend on what was looked at before.  Demand: after ANY history of {use accepts_version, use api,
# update_version(r)} the object answers exactly like a fresh Dependency carrying the current requirement - and
# that answer is judged by the same oracle as the grid.

HIST_OLD = ['', '*', '1.2', '^0.2', '~1.1', '>=1.0.0, <3.0.0', '=1.2.3', '1', '<=2', '0.0', '1.2.3-alpha', '>1.1']
HIST_NEW = ['=1.2.3', '=0.2.1', '=1.1.0', '=2.3.1', '=1.0.0', '2', '~2.1', '^0.0.3', '>=2.0.0-alpha', '']


def _pre_histories(max_len: int) -> T.List[T.Tuple[str, ...]]:
    import itertools
    out: T.List[T.Tuple[str, ...]] = []
    for n in range(max_len + 1):
        out += list(itertools.product('AP', repeat=n))
    return out


def _ref_pred(req: str) -> T.Optional[T.Callable[[refsemver.Version], bool]]:
    """Reference acceptance on RELEASE versions; None when the text is outside the reference grammar.
    The empty text is "no requirement" (accepts everything)."""
    if not req.strip():
        return lambda v: True
    try:
        comps = refsemver.parse_req(req)
    except refsemver.RefError:
        return None
    return lambda v: refsemver.matches(comps, v, gate='cargo')


def _history_versions(rng: random.Random, reqs: T.Sequence[str], n: int) -> T.List[int]:
    """Indices into VERS: release versions on which the requirements of the history disagree (per the oracle)
    first, then seeded others (a few pre-releases among them)."""
    preds = [p for p in (_ref_pred(r) for r in reqs) if p is not None]
    rel = [j for j, (_, k, v) in enumerate(VERS) if not v.pre and k in ('release', 'build')]
    split = [j for j in rel if len({p(VERS[j][2]) for p in preds}) > 1]
    rng.shuffle(split)
    chosen = dict.fromkeys(split[:n // 2])
    for j in rng.sample(range(len(VERS)), min(len(VERS), n)):
        if len(chosen) >= n:
            break
        chosen.setdefault(j)
    return list(chosen)


def _outcome(fn: T.Callable[[], T.Any]) -> T.Tuple[str, T.Any]:
    try:
        return ('val', fn())
    except MesonException as e:
        return ('meson-exception', type(e).__name__)
    except Exception as e:
        return ('internal', f'{type(e).__name__}: {e}')


def run_history(acc: Acc, old: str, ops: T.Sequence[T.Tuple[str, ...]], vidx: T.Sequence[int], via_from_raw: bool) -> None:
    """Execute ops on one Dependency; every 'A' / 'P' is a checkpoint."""
    if via_from_raw:
        dep = mmanifest.Dependency.from_raw('pkg', old if old else {})
    else:
        dep = mmanifest.Dependency('pkg', version=old)
    cur = old
    past: T.List[str] = []
    acc.count('dependency-histories')
    wit = {'kind': 'dep-history', 'old': old, 'ops': [list(o) for o in ops], 'from_raw': via_from_raw}
    for step, op in enumerate(ops):
        if op[0] == 'U':
            past.append(cur)
            cur = op[1]
            r = _outcome(lambda: dep.update_version(cur))
            if r[0] != 'val' or dep.version != cur:
                acc.mismatch('dependency-update-version-failed', {**wit, 'step': step, 'real': r})
        elif op[0] == 'P':
            acc.count('monitor:dependency-history-api-equals-fresh')
            got = _outcome(lambda: dep.api)
            want = _outcome(lambda: mversion.api(cur))
            if got != want:
                stale = any(got == _outcome(lambda q=q: mversion.api(q)) for q in past)
                acc.mismatch('dependency-api-stale-after-update' if stale else 'dependency-api-history-dependent',
                             {**wit, 'step': step, 'requirement_now': cur, 'real': got, 'want': want})
        else:
            fresh = _outcome(lambda: mmanifest.Dependency('pkg', version=cur).accepts_version)
            pred = _outcome(lambda: dep.accepts_version)
            if fresh[0] != 'val' or pred[0] != 'val':
                if fresh[0] != pred[0]:
                    acc.mismatch('dependency-accepts-version-history-dependent',
                                 {**wit, 'step': step, 'requirement_now': cur, 'real': pred[:1], 'want': fresh[:1]})
                continue
            try:
                comps: T.Optional[T.List[refsemver.Comparator]] = refsemver.parse_req(cur) if cur.strip() else None
            except refsemver.RefError:
                comps = None
            got_vec, want_vec = [], []
            for j in vidx:
                ver, _k, v = VERS[j]
                g = _outcome(lambda: pred[1](ver))
                w = _outcome(lambda: fresh[1](ver))
                got_vec.append(g)
                want_vec.append(w)
                acc.count('monitor:dependency-history-accepts-equals-fresh')
                if comps is not None and g[0] == 'val' and g == w:
                    # same answer as a fresh object: judged like a grid pair (known grid mechanisms pass through)
                    section, want = judge(comps, v, g[1])
                    acc.count('monitor:dependency-history-accepts-vs-oracle')
                    if g[1] is not want:
                        acc.mismatch(classify_req(cur, comps, v, g[1], bool(want), section),
                                     {'kind': 'req', 'req': cur, 'ver': ver, 'real': g[1], 'want': want, 'section': section,
                                      'req_class': 'dependency-history', 'e2e': True})
            if got_vec != want_vec:
                stale = False
                for q in past:
                    qp = _outcome(lambda q=q: mmanifest.Dependency('pkg', version=q).accepts_version)
                    if qp[0] == 'val' and [_outcome(lambda j=j: qp[1](VERS[j][0])) for j in vidx] == got_vec:
                        stale = True
                        break
                k = next(i for i, (g, w) in enumerate(zip(got_vec, want_vec)) if g != w)
                acc.mismatch('dependency-accepts-version-stale-after-update' if stale else 'dependency-accepts-version-history-dependent',
                             {**wit, 'step': step, 'requirement_now': cur, 'ver': VERS[vidx[k]][0], 'real': got_vec[k], 'want': want_vec[k],
                              'versions': [VERS[j][0] for j in vidx]})


def _enumerated_histories(new: str, new2: str) -> T.List[T.List[T.Tuple[str, ...]]]:
    """pre in {A,P}^(0..3); update; then either observe, or (nothing | A | P) + second update + observe."""
    out: T.List[T.List[T.Tuple[str, ...]]] = []
    for pre in _pre_histories(3):
        head: T.List[T.Tuple[str, ...]] = [(x,) for x in pre] + [('U', new)]
        out.append(head + [('A',), ('P',)])
        for mid in ((), ('A',), ('P',)):
            out.append(head + [(x,) for x in mid] + [('U', new2), ('P',), ('A',)])
    return out


def history_worker(item: T.Tuple[str, int, int]) -> dict:
    what, a, b = item
    acc = Acc()
    mon.take()
    if what == 'enum':       # pairs a..b of HIST_OLD x HIST_NEW, every enumerated history
        pairs = [(o, n) for o in HIST_OLD for n in HIST_NEW]
        for idx in range(a, min(b, len(pairs))):
            old, new = pairs[idx]
            new2 = HIST_NEW[(HIST_NEW.index(new) + 3) % len(HIST_NEW)]
            rng = random.Random(f'{SEED}:hist:{idx}')
            vidx = _history_versions(rng, [old, new, new2], 14)
            for h, ops in enumerate(_enumerated_histories(new, new2)):
                run_history(acc, old, ops, vidx, via_from_raw=(h + idx) % 2 == 1)
            acc.count('dependency-history-requirement-pairs')
            if idx % 37 == 0:
                acc.samples.append({'dependency_history': {'old': old, 'ops': 'A P update(%r) A P' % new}})
    else:                    # seeded: requirements of the grid, random histories with up to 3 updates
        rng = random.Random(f'{SEED}:histrand:{a}')
        singles = [r for r, _k in REQS]
        for _ in range(b):
            old = rng.choice(singles + ['', '*'])
            ops: T.List[T.Tuple[str, ...]] = []
            reqs = [old]
            for _u in range(rng.randint(1, 3)):
                ops += [(rng.choice('AP'),) for _x in range(rng.randint(0, 3))]
                r = rng.choice(singles) if rng.random() < 0.5 else '=%d.%d.%d' % (rng.randrange(4), rng.randrange(4), rng.randrange(4))
                reqs.append(r)
                ops.append(('U', r))
            ops += [('A',), ('P',)] if rng.random() < 0.5 else [('P',), ('A',)]
            run_history(acc, old, ops, _history_versions(rng, reqs, 10), via_from_raw=rng.random() < 0.5)
    return acc.data()


# ==========================================================================================
# section: cfg

def real_eval(s: str, cfgs: T.Dict[str, str]) -> T.Tuple[str, T.Any]:
    try:
        r = mcfg.eval_cfg('cfg(' + s + ')', dict(cfgs))
    except MesonBugException as e:
        return ('internal', f'MesonBugException: {e}')
    except MesonException as e:
        return ('rejected', str(e))
    except Exception as e:
        return ('internal', f'{type(e).__name__}: {e}')
    if r is True or r is False:
        return ('val', r)
    return ('internal', f'NotBool: {r!r}')


def _ir_to_ast(ir: T.Any) -> T.Any:
    n = type(ir).__name__
    if n == 'Identifier':
        return ('name', ir.value)
    if n == 'Equal':
        return ('eq', ir.lhs.value, ir.rhs.value)
    if n == 'Not':
        return ('not', _ir_to_ast(ir.value))
    if n in ('All', 'Any'):
        return (n.lower(), [_ir_to_ast(x) for x in ir.args])
    return ('?', repr(ir))


def real_parse_ir(s: str) -> T.Tuple[str, T.Any, T.Any]:
    try:
        ir = mcfg.parse(mcfg.lexer(s))
    except MesonBugException as e:
        return ('internal', f'MesonBugException: {e}', None)
    except MesonException as e:
        return ('rejected', str(e), None)
    except Exception as e:
        return ('internal', f'{type(e).__name__}: {e}', None)
    if not isinstance(ir, mcfg.IR):
        return ('internal', f'NotIR: {ir!r}', None)
    return ('val', _ir_to_ast(ir), ir)


def real_parse(s: str) -> T.Tuple[str, T.Any]:
    return real_parse_ir(s)[:2]


def real_eval_ir(ir: T.Any, cfgs: T.Dict[str, str]) -> T.Tuple[str, T.Any]:
    """The real evaluator on the real IR (what eval_cfg does after parsing)."""
    try:
        r = mcfg._eval_cfg(ir, dict(cfgs))
    except MesonBugException as e:
        return ('internal', f'MesonBugException: {e}')
    except MesonException as e:
        return ('rejected', str(e))
    except Exception as e:
        return ('internal', f'{type(e).__name__}: {e}')
    if r is True or r is False:
        return ('val', r)
    return ('internal', f'NotBool: {r!r}')


_KW_TOKEN = {'ALL': 'all', 'ANY': 'any', 'NOT': 'not'}
_PUNCT_TOKEN = {'LPAREN': '(', 'RPAREN': ')', 'COMMA': ',', 'EQUAL': '='}


def check_lexer(acc: Acc, s: str, klass: str) -> None:
    """The real lexer's token stream against the reference tokenization (only for texts the reference can
    tokenize; a keyword is the same token whether the lexer calls it ALL or IDENTIFIER 'all')."""
    try:
        want = [(k if k in ('ident', 'str') else 'punct', t) for k, t in refcfg.tokenize(s)]
    except (refcfg.Malformed, refcfg.Unspecified):
        return
    acc.count('monitor:lexer-vs-reference-tokens')
    try:
        got = []
        for tok, val in mon.original('lexer')(s):
            n = tok.name
            if n in _KW_TOKEN:
                got.append(('ident', _KW_TOKEN[n]))
            elif n in _PUNCT_TOKEN:
                got.append(('punct', _PUNCT_TOKEN[n]))
            elif n == 'IDENTIFIER':
                got.append(('ident', val))
            elif n == 'STRING':
                got.append(('str', val))
            else:
                got.append((n, val))
    except MesonException:
        return      # rejecting while lexing is an allowed way to reject; the parse monitors judge the outcome
    except Exception as e:
        acc.mismatch('cfg-internal-error:' + type(e).__name__, {'kind': 'cfg', 'expr': s, 'cfgs': None, 'where': 'lexer',
                                                                'real': ('internal', f'{type(e).__name__}: {e}')})
        return
    if got != want:
        mech = 'lexer-splits-inside-string' if _delim_literals(s) else 'lexer-tokens-differ'
        acc.mismatch(mech, {'kind': 'lex', 'expr': s, 'real': got, 'want': want, 'class': klass})


def check_valid_expr(acc: Acc, s: str, ast: refcfg.Ast, assigns: T.Sequence[T.Dict[str, str]], klass: str) -> None:
    """Well-formed expression: (1) the real parser's IR has the structure of the text, (2) the real evaluator on
    that IR gives the Boolean value of the structure for every assignment, (3) eval_cfg('cfg(..)') end to end
    agrees on two assignments rotating with the text."""
    acc.count('cfg-expressions')
    check_lexer(acc, s, klass)
    st, got, ir = real_parse_ir(s)
    acc.count('monitor:cfg-parse-structure')
    if (st, got) != ('val', ast):
        if st == 'val' and not _delim_literals(s):
            mech = 'cfg-parse-structure-differs'
        else:
            mech = classify_cfg(s, 'ok', (st, got))
        acc.mismatch(mech, {'kind': 'cfg', 'expr': s, 'cfgs': None, 'refkind': 'ok', 'real': (st, got), 'want': ast, 'class': klass})
    if ir is not None:
        for cfgs in assigns:
            want = refcfg.evaluate(ast, cfgs)
            real = real_eval_ir(ir, cfgs)
            acc.count('monitor:cfg-eval-vs-structure')
            if real != ('val', want):
                acc.mismatch(classify_cfg(s, 'ok', real), {'kind': 'cfg', 'expr': s, 'cfgs': cfgs, 'refkind': 'ok',
                                                           'real': real, 'want': want, 'class': klass, 'via': '_eval_cfg'})
    k = len(s) % len(assigns)
    e2e = (assigns[k], assigns[(k * 7 + 5) % len(assigns)])
    for cfgs in e2e:
        want = refcfg.evaluate(ast, cfgs)
        real = real_eval(s, cfgs)
        acc.count('monitor:cfg-eval-end-to-end')
        acc.cell(f'cfg|{klass}|ok|{real[0]}')
        if real != ('val', want):
            acc.mismatch(classify_cfg(s, 'ok', real), {'kind': 'cfg', 'expr': s, 'cfgs': cfgs, 'refkind': 'ok',
                                                       'real': real, 'want': want, 'class': klass})


_FEW = [{}, {'a': 'x', 'b': ''}, {'a': 'y'}, {'a': '', 'b': 'x'}]


def check_any_string(acc: Acc, s: str, klass: str) -> None:
    """A string of unknown status: the oracle classifies it, then the matching demand applies."""
    kind, info = refcfg.classify(s)
    acc.count('cfg-strings')
    acc.count('cfg-strings-' + kind)
    if kind == 'ok':
        check_valid_expr(acc, s, info, _FEW, klass)
        return
    check_lexer(acc, s, klass)
    for cfgs in _FEW[:2]:
        real = real_eval(s, cfgs)
        acc.cell(f'cfg|{klass}|{kind}|{real[0]}')
        if kind == 'malformed':
            acc.count('monitor:cfg-malformed-rejected-with-mesonexception')
            if real[0] != 'rejected':
                acc.mismatch(classify_cfg(s, kind, real), {'kind': 'cfg', 'expr': s, 'cfgs': cfgs, 'refkind': kind,
                                                           'why': info, 'real': real, 'want': 'MesonException', 'class': klass})
        else:
            acc.count('monitor:cfg-exception-type-policy')
            if real[0] == 'internal':
                acc.mismatch(classify_cfg(s, kind, real), {'kind': 'cfg', 'expr': s, 'cfgs': cfgs, 'refkind': kind,
                                                           'why': info, 'real': real, 'want': 'no internal error', 'class': klass})
    # parse() on its own obeys the same exception policy
    pr = real_parse(s)
    acc.count('monitor:cfg-exception-type-policy')
    if pr[0] == 'internal':
        acc.mismatch(classify_cfg(s, kind, pr), {'kind': 'cfg', 'expr': s, 'cfgs': None, 'refkind': kind, 'real': pr,
                                                 'want': 'no internal error', 'class': klass})


def cfg_depth_worker(item: T.Tuple[str, int, int]) -> dict:
    what, start, end = item
    acc = Acc()
    mon.take()
    if what == 'd1':
        for i in range(start, end):
            ast = POOL1[i]
            s = refcfg.render(ast, i % 4)
            check_valid_expr(acc, s, ast, ASSIGN, 'depth<=1')
            acc.count('cfg-distinct')
            if i % 40 == 0:
                acc.samples.append(s)
    elif what == 'd2':
        for i in range(start, end):
            ast = gen.depth2_item(i, POOL2)
            if refcfg.depth(ast) < 2:
                continue
            s = refcfg.render(ast, i % 4)
            check_valid_expr(acc, s, ast, ASSIGN, 'depth2')
            acc.count('cfg-distinct')
            if i % 9973 == 0:
                acc.samples.append(s)
    else:   # sampled: ('r:<depth>:<arity>', seed, count)
        _, depth, arity = what.split(':')
        rng = random.Random(f'{SEED}:cfgrand:{what}:{start}')
        for k in range(end):
            ast = gen.random_expr(rng, int(depth), int(arity), gen.ATOMS)
            s = refcfg.render(ast, k % 4)
            h = _h64(s)
            if h in acc.hashes:
                continue
            acc.hashes.add(h)
            check_valid_expr(acc, s, ast, ASSIGN, f'sampled-depth{depth}')
            if k % 5000 == 0:
                acc.samples.append(s)
    return acc.data()


def cfg_unary3_worker(item: T.Tuple[int, int]) -> dict:
    """thorough: depth 3 exhaustively for unary wrappers not(x) / all(x) / any(x) over all depth-2 expressions."""
    start, end = item
    acc = Acc()
    mon.take()
    for i in range(start, end):
        inner = gen.depth2_item(i, POOL2)
        if refcfg.depth(inner) < 2:
            continue
        for w, ast in enumerate((('not', inner), ('all', [inner]), ('any', [inner]))):
            s = refcfg.render(ast, (i + w) % 4)
            check_valid_expr(acc, s, ast, ASSIGN, 'depth3-unary')
            acc.count('cfg-distinct')
    return acc.data()


def _soup_at(n: int, idx: int) -> str:
    toks = []
    base = len(gen.SOUP_TOKENS)
    for _ in range(n):
        toks.append(gen.SOUP_TOKENS[idx % base])
        idx //= base
    return ' '.join(reversed(toks))


def cfg_soup_worker(item: T.Tuple[str, int, int, int]) -> dict:
    what, a, b, c = item
    acc = Acc()
    mon.take()
    if what == 'exh':        # (length, start, end)
        for idx in range(b, c):
            s = _soup_at(a, idx)
            check_any_string(acc, s, f'soup-len{a}')
            acc.count('cfg-distinct')
            if idx % 20011 == 0:
                acc.samples.append(s)
    elif what == 'rand':     # (seed-part, count, _)
        rng = random.Random(f'{SEED}:soup:{a}')
        for k in range(b):
            s = gen.soup_random(rng)
            h = _h64(s)
            if h in acc.hashes:
                continue
            acc.hashes.add(h)
            check_any_string(acc, s, 'soup-random')
            if k % 4000 == 0:
                acc.samples.append(s)
    elif what == 'near':
        rng = random.Random(f'{SEED}:near:{a}')
        for k in range(b):
            base_ast = gen.random_expr(rng, rng.randint(0, 3), 3, gen.ATOMS)
            s = gen.near_miss(rng, refcfg.render(base_ast, rng.randrange(4)))
            h = _h64(s)
            if h in acc.hashes:
                continue
            acc.hashes.add(h)
            check_any_string(acc, s, 'near-miss')
            if k % 4000 == 0:
                acc.samples.append(s)
    elif what == 'edit1':    # (start, end, _) into the single-edit neighbourhood
        strings = gen.single_edit_neighbourhood()
        for idx in range(a, min(b, len(strings))):
            check_any_string(acc, strings[idx], 'single-edit')
            acc.count('cfg-distinct')
            if idx % 3001 == 0:
                acc.samples.append(strings[idx])
    elif what == 'wide':     # characters outside the alphabet: exception-type policy only
        rng = random.Random(f'{SEED}:wide:{a}')
        alphabet = list('ab_x(),="\' \t.-#\\/[]{}!&|0') + ['all', 'any', 'not', 'é', '​', '\x00', 'r"', "r#\""]
        for k in range(b):
            s = ''.join(rng.choice(alphabet) for _ in range(rng.randint(0, 14)))
            h = _h64(s)
            if h in acc.hashes:
                continue
            acc.hashes.add(h)
            check_any_string(acc, s, 'wide-alphabet')
    elif what == 'delim':
        cases = gen.delimiter_cases()
        for e, cfgs in cases[a:b]:
            kind, info = refcfg.classify(e)
            acc.count('cfg-delimiter-cases')
            if kind != 'ok':
                acc.mismatch('harness:delimiter-case-not-wellformed', {'kind': 'cfg', 'expr': e, 'why': info})
                continue
            want = refcfg.evaluate(info, cfgs)
            real = real_eval(e, cfgs)
            if not cfgs:
                check_lexer(acc, e, 'delimiter')
            acc.count('monitor:cfg-string-with-delimiters')
            acc.cell(f'cfg|delimiter|ok|{real[0]}')
            acc.hashes.add(_h64(e + '\0' + json.dumps(cfgs, sort_keys=True)))
            if real != ('val', want):
                acc.mismatch(classify_cfg(e, 'ok', real), {'kind': 'cfg', 'expr': e, 'cfgs': cfgs, 'refkind': 'ok',
                                                           'real': real, 'want': want, 'class': 'delimiter'})
    return acc.data()


# ==========================================================================================
# calibration against unittests/cargotests.py

def pinned_from_repo() -> T.Tuple[T.Optional[list], T.Optional[list], T.Optional[list]]:
    """(version cases, cfg invalid cases, cfg eval cases) literal-evaluated from the repo's test file."""
    path = os.path.join(common.REPO, 'unittests', 'cargotests.py')
    try:
        with open(path, encoding='utf-8') as f:
            tree = pyast.parse(f.read())
    except (OSError, SyntaxError):
        return None, None, None
    found: T.Dict[str, T.Any] = {}
    for cls in [n for n in tree.body if isinstance(n, pyast.ClassDef)]:
        for fn in [n for n in cls.body if isinstance(n, pyast.FunctionDef)]:
            if fn.name not in ('test_cargo_parse', 'test_parse_invalid', 'test_eval_ir'):
                continue
            for node in pyast.walk(fn):
                tgt = None
                if isinstance(node, pyast.AnnAssign) and isinstance(node.target, pyast.Name):
                    tgt, val = node.target.id, node.value
                elif isinstance(node, pyast.Assign) and len(node.targets) == 1 and isinstance(node.targets[0], pyast.Name):
                    tgt, val = node.targets[0].id, node.value
                if tgt in ('cases', 'd') and val is not None:
                    try:
                        found[f'{fn.name}:{tgt}'] = pyast.literal_eval(val)
                    except (ValueError, SyntaxError):
                        pass
    return (found.get('test_cargo_parse:cases'), found.get('test_parse_invalid:cases'),
            (found.get('test_eval_ir:cases'), found.get('test_eval_ir:d')) if 'test_eval_ir:cases' in found else None)


def calibrate(chk: common.Check, viol: T.Callable[[str, dict], None]) -> None:
    bad = refsemver.selftest() + refcfg.selftest()
    chk.count('calibration:oracle-selftest-items', len(refsemver.PINNED_CASES) + len(refcfg.PINNED_EVAL))
    if bad:
        chk.notes['oracle_selftest_failures'] = bad[:20]
        chk.inconclusive.append(f'oracle selftest failed ({len(bad)} items) - the oracle is not calibrated')
        return
    vcases, cinvalid, ceval = pinned_from_repo()
    if vcases is None:
        vcases = refsemver.PINNED_CASES
        chk.notes['pinned_source'] = 'transcribed copy (could not read unittests/cargotests.py)'
    else:
        chk.notes['pinned_source'] = 'unittests/cargotests.py (ast.literal_eval) + transcribed copy'
        bad2 = refsemver.check_cases(vcases, gate='cargo')
        if bad2:
            chk.notes['oracle_vs_repo_pinned'] = bad2[:20]
            chk.inconclusive.append('oracle disagrees with the expectations pinned in unittests/cargotests.py')
            return
    # the real code against the pinned expectations (this is the unit test, re-run under the contracts)
    for req, acc, rej in vcases:
        pred = mversion.cargo_parse(req)
        for v, want in [(x, True) for x in acc] + [(x, False) for x in rej]:
            chk.count('calibration:real-vs-pinned')
            try:
                real: T.Any = pred(v)
            except Exception as e:
                real = f'{type(e).__name__}: {e}'
            if real is not want:
                viol('pinned-expectation-broken', {'kind': 'req', 'req': req, 'ver': v, 'real': real, 'want': want})
    for s in (cinvalid or refcfg.PINNED_INVALID):
        chk.count('calibration:real-vs-pinned')
        pr = real_parse(s)
        if pr[0] != 'rejected':
            viol('pinned-expectation-broken', {'kind': 'cfg', 'expr': s, 'cfgs': None, 'real': pr, 'want': 'MesonException'})
    cases, d = ceval if ceval else (refcfg.PINNED_EVAL, refcfg.PINNED_EVAL_CFGS)
    for s, want in cases:
        chk.count('calibration:real-vs-pinned')
        kind, ast = refcfg.classify(s)
        if kind != 'ok' or refcfg.evaluate(ast, d) != want:
            chk.inconclusive.append(f'refcfg disagrees with pinned eval case {s!r}')
            continue
        real = real_eval(s, d)
        if real != ('val', want):
            viol('pinned-expectation-broken', {'kind': 'cfg', 'expr': s, 'cfgs': d, 'real': real, 'want': want})


# ==========================================================================================
# directed probes for the listed findings (re-observed on every run)

def probes(chk: common.Check, viol: T.Callable[[str, dict], None]) -> None:
    S = mversion.SemVer

    def req_probe(mech: str, req: str, ver: str, want: bool) -> None:
        chk.count('monitor:directed-probes')
        try:
            real: T.Any = mversion.cargo_parse(req)(ver)
        except Exception as e:
            real = f'{type(e).__name__}: {e}'
        if real is not want:
            viol(mech, {'kind': 'req', 'req': req, 'ver': ver, 'real': real, 'want': want, 'probe': True})

    def order_probe(mech: str, a: str, b: str) -> None:
        chk.count('monitor:directed-probes')
        try:
            real: T.Any = (S(a) < S(b), S(b) > S(a), S(a) >= S(b))
        except Exception as e:
            real = f'{type(e).__name__}: {e}'
        if real != (True, True, False):
            viol(mech, {'kind': 'order', 'a': a, 'b': b, 'op': '__lt__', 'real': real, 'want': (True, True, False), 'probe': True})

    def cfg_probe(mech: str, expr: str, cfgs: T.Dict[str, str], want: T.Tuple[str, T.Any]) -> None:
        chk.count('monitor:directed-probes')
        real = real_eval(expr, cfgs)
        ok = real[0] == 'rejected' if want[0] == 'rejected' else real == want
        if not ok:
            viol(mech, {'kind': 'cfg', 'expr': expr, 'cfgs': cfgs, 'real': real, 'want': want, 'probe': True})

    order_probe('prerelease-leading-numeric-ident-compared-as-string', '1.0.0-2', '1.0.0-10')
    order_probe('prerelease-digit-leading-ident-split', '1.0.0-rc.2', '1.0.0-rc.1a')
    req_probe('prerelease-leading-numeric-ident-compared-as-string', '>=1.0.0-10', '1.0.0-9', False)
    req_probe('le-bound-handled-as-lt-next-patch', '<=1.0.0-alpha', '1.0.0', False)
    req_probe('star-accepts-prerelease', '*', '1.0.0-alpha', False)
    cfg_probe('cfg-string-with-delimiter-rejected', 'a = "p q"', {'a': 'p q'}, ('val', True))
    cfg_probe('cfg-string-with-delimiter-rejected', 'any(a = "p,q", b)', {'b': ''}, ('val', True))
    cfg_probe('cfg-string-with-delimiter-misevaluated', 'a = " x"', {'a': 'x'}, ('val', False))
    cfg_probe('cfg-unterminated-quote-ignored', 'a"', {'a': ''}, ('rejected', None))
    cfg_probe('cfg-unterminated-quote-ignored', 'all(a, b) "', {'a': '', 'b': ''}, ('rejected', None))
    # lexer contract breaches of the probes above arrive through the monitor log
    # a few things that must simply work
    cfg_probe('cfg-misevaluated', 'not(' * 60 + 'a' + ')' * 60, {'a': ''}, ('val', True))
    cfg_probe('cfg-misevaluated', 'all()', {}, ('val', True))
    cfg_probe('cfg-misevaluated', 'any()', {'a': ''}, ('val', False))
    cfg_probe('cfg-malformed-accepted', 'all(a b)', {'a': '', 'b': ''}, ('rejected', None))
    cfg_probe('cfg-malformed-accepted', 'not(a, b)', {'a': '', 'b': ''}, ('rejected', None))
    cfg_probe('cfg-malformed-accepted', '', {}, ('rejected', None))
    # eval_cfg on something that is not cfg(...) is "no match", not an error (target triples share the table)
    chk.count('monitor:directed-probes')
    try:
        r: T.Any = mcfg.eval_cfg('x86_64-unknown-linux-gnu', {})
    except Exception as e:
        r = f'{type(e).__name__}: {e}'
    if r is not False:
        viol('cfg-non-cfg-key', {'kind': 'cfg-raw', 'raw': 'x86_64-unknown-linux-gnu', 'real': r, 'want': False})


# ==========================================================================================
# replay

def replay(chk: common.Check, path: str) -> int:
    with open(path, encoding='utf-8') as f:
        w = json.load(f)
    kind = w.get('kind')
    fails = False
    if kind == 'req':
        comps = refsemver.parse_req(w['req'])
        v = refsemver.parse_version(w['ver'])
        try:
            real: T.Any = mversion.cargo_parse(w['req'])(w['ver'])
        except Exception as e:
            real = f'{type(e).__name__}: {e}'
        section, want = judge(comps, v, real)
        fails = real is not want
        print(f'replay req={w["req"]!r} ver={w["ver"]!r}: section={section} real={real!r} want={want!r}'
              + (f' mechanism={classify_req(w["req"], comps, v, real, bool(want), section)}' if fails else ''))
    elif kind in ('order', 'order-axiom', 'sort'):
        import operator
        a, b = w['a'], w.get('b', w['a'])
        c = refsemver.cmp_str(a, b)
        A, B = mversion.SemVer(a), mversion.SemVer(b)
        for op in _OPS6:
            real = getattr(operator, op.strip('_'))(A, B)
            want = _WANT6[op](c)
            if real is not want:
                fails = True
            print(f'replay {a} {op} {b}: real={real!r} want={want!r}')
    elif kind == 'cfg':
        expr = w['expr']
        kindr, info = refcfg.classify(expr)
        cfgs = w.get('cfgs') or {}
        real = real_eval(expr, cfgs)
        if kindr == 'ok':
            want: T.Any = ('val', refcfg.evaluate(info, cfgs))
            fails = real != want
        elif kindr == 'malformed':
            want = ('rejected',)
            fails = real[0] != 'rejected'
        else:
            want = ('no internal error',)
            fails = real[0] == 'internal'
        print(f'replay cfg({expr!r}) cfgs={cfgs!r}: oracle={kindr} real={real!r} want={want!r}')
    elif kind == 'dep-history':
        global VERS
        VERS = [(v, k, refsemver.parse_version(v)) for v, k in gen.versions()]
        acc = Acc()
        mon.take()
        names = {v: j for j, (v, _k, _v) in enumerate(VERS)}
        vidx = [names[x] for x in w.get('versions', []) if x in names] or list(range(0, len(VERS), 7))
        run_history(acc, w['old'], [tuple(o) for o in w['ops']], vidx, bool(w.get('from_raw')))
        d = acc.data()
        fails = bool(d['mis_n'])
        print(f'replay dependency history old={w["old"]!r} ops={w["ops"]!r}: mismatches now = {d["mis_n"]}')
    elif kind == 'lex':
        acc = Acc()
        check_lexer(acc, w['expr'], 'replay')
        fails = bool(acc.mis_n)
        print(f'replay lexer({w["expr"]!r}): mismatches now = {acc.mis}')
    elif kind == 'contract':
        acc = Acc()
        mon.take()
        if w.get('raw') is not None:
            real_eval(w['raw'], {})
        elif 'lhs_v' in w:
            import operator
            try:
                getattr(operator, w['op'].strip('_'))(mversion.SemVer(w['lhs_v']), mversion.SemVer(w['rhs_v']))
            except Exception as e:
                print(f'comparison raised {type(e).__name__}: {e}')
        elif 'req' in w:
            try:
                pred = mversion.cargo_parse(w['req'])
                if w.get('ver') is not None:
                    pred(w['ver'])
            except Exception as e:
                print(f'raised {type(e).__name__}: {e}')
        d = acc.data()
        fails = bool(d['mis_n'])
        print(f'replay contract: breaches now = {d["mis_n"]}')
    else:
        print(f'unknown witness kind {kind!r}')
        return 2
    print('STILL FAILS' if fails else 'no longer fails')
    return 1 if fails else 0


# ==========================================================================================

def main() -> int:
    global REQS, VERS, VER_BY_TRIPLE, ORDER, POOL1, POOL2, ASSIGN, SEED
    chk = common.Check(PID)
    mon.install(mversion, mcfg, MesonException, MesonBugException)
    if os.environ.get('VERIF_REPLAY'):
        return replay(chk, os.environ['VERIF_REPLAY'])
    thorough = chk.tier == 'thorough'
    SEED = chk.seed
    budget = 1000.0 if thorough else 75.0
    t0 = time.time()
    totals = {'evaluations': 0, 'distinct': 0}
    cells: T.Dict[str, int] = {}
    mech_counts: T.Dict[str, int] = {}

    mech_sample: T.Dict[str, dict] = {}
    section_samples: T.Dict[str, T.List[T.Any]] = {}

    def viol(mech: str, witness: dict) -> None:
        mech_counts[mech] = mech_counts.get(mech, 0) + 1
        mech_sample.setdefault(mech, witness)
        chk.violation(mech, witness)

    def merge(results: T.Sequence[dict]) -> T.Set[int]:
        hashes: T.Set[int] = set()
        for d in results:
            chk.merge_counts(d['counts'])
            for k, n in d['cells'].items():
                cells[k] = cells.get(k, 0) + n
            for mech, wl in d['mis'].items():
                for w in wl:
                    viol(mech, w)
                extra = d['mis_n'][mech] - len(wl)
                if extra > 0:
                    mech_counts[mech] = mech_counts.get(mech, 0) + extra
                    if mech in chk.known:
                        chk.known_hits[mech] = chk.known_hits.get(mech, 0) + extra
            for s in d['samples']:
                sec = ('history' if 'dependency_history' in s else 'grid') if isinstance(s, dict) else 'cfg'
                if len(section_samples.setdefault(sec, [])) < (8 if sec == 'cfg' else 3 if sec == 'history' else 4):
                    section_samples[sec].append(s)
            hashes |= d['hashes']
        return hashes

    # ---- calibration ---------------------------------------------------------------------
    calibrate(chk, viol)

    # ---- grid ----------------------------------------------------------------------------
    REQS = gen.requirements(chk.rng, 3000 if thorough else 1500)
    VERS = [(v, k, refsemver.parse_version(v)) for v, k in gen.versions()]
    for j, (_, k, v) in enumerate(VERS):
        VER_BY_TRIPLE.setdefault((v.major, v.minor, v.patch), []).append(j)
    k_random = -1 if thorough else 16
    step = max(1, len(REQS) // (chk.jobs * 6))
    items = [(i, min(i + step, len(REQS)), k_random) for i in range(0, len(REQS), step)]
    chk.rng.shuffle(items)
    res = common.pmap(grid_worker, items, chk.jobs)
    merge(res)
    pairs = chk.counters.get('pairs', 0)
    totals['evaluations'] += pairs
    totals['distinct'] += chk.counters.get('pairs-nontrivial', 0)
    chk.notes['grid'] = {'requirements': len(REQS), 'versions': len(VERS), 'full_grid_pairs': len(REQS) * len(VERS),
                         'pairs_evaluated': pairs, 'mode': 'full' if thorough else f'stratified slice: boundary neighbourhood of every comparator + {k_random} seeded versions per requirement',
                         'requirement_classes': {k: sum(1 for _, c in REQS if c == k) for k in sorted({c for _, c in REQS})},
                         'version_classes': {k: sum(1 for _, c, _v in VERS if c == k) for k in sorted({c for _, c, _v in VERS})}}
    t_grid = time.time() - t0

    # ---- order ---------------------------------------------------------------------------
    ORDER = gen.order_domain(chk.tier)
    n = len(ORDER)
    step = max(1, n // (chk.jobs * 2))
    res = common.pmap(order_worker, [(i, min(i + step, n)) for i in range(0, n, step)], chk.jobs)
    merge(res)
    rows: T.Dict[int, int] = {}
    for d in res:
        rows.update({int(k): v for k, v in d['rows'].items()})
    triples = order_axioms(chk, rows, viol)
    chk.count('monitor:order-axioms-triples', triples)
    sort_probe(chk, chk.rng, 200 if thorough else 40, viol)
    c, b = mon.take()
    chk.merge_counts(c)
    for w in b:
        mech, wit = classify_breach(w)
        viol(mech, wit)
    totals['evaluations'] += n * n + triples
    totals['distinct'] += n * (n - 1)
    chk.notes['order'] = {'versions': n, 'pairs': n * n, 'triples': triples}
    section_samples['order'] = [{'order_domain_excerpt': ORDER[:6] + ORDER[26:34]}]
    # ---- histories on one Dependency object ----------------------------------------------------
    n_pairs = len(HIST_OLD) * len(HIST_NEW)
    if thorough:
        hitems: T.List[T.Any] = [('enum', i, i + 6) for i in range(0, n_pairs, 6)] + [('rand', i, 150) for i in range(20)]
    else:
        # quick: a seeded half of the enumerated pairs (rotates with the seed) + a few random histories
        order_ = list(range(n_pairs))
        chk.rng.shuffle(order_)
        hitems = [('enum', i, i + 1) for i in sorted(order_[:n_pairs // 2])] + [('rand', i, 60) for i in range(4)]
    res = common.pmap(history_worker, hitems, chk.jobs)
    merge(res)
    n_hist_checks = chk.counters.get('monitor:dependency-history-accepts-equals-fresh', 0) + chk.counters.get('monitor:dependency-history-api-equals-fresh', 0)
    totals['evaluations'] += n_hist_checks
    totals['distinct'] += chk.counters.get('dependency-histories', 0)
    chk.notes['dependency_histories'] = {'histories': chk.counters.get('dependency-histories', 0),
                                         'enumerated_requirement_pairs': chk.counters.get('dependency-history-requirement-pairs', 0),
                                         'of': n_pairs, 'checkpoints': n_hist_checks}
    t_order = time.time() - t0 - t_grid

    # ---- cfg -----------------------------------------------------------------------------
    POOL1 = gen.depth1()
    # depth-2 class: not/all/any with <= 2 arguments drawn from POOL2.  thorough: every depth<=1 expression of
    # arity <= 3 (178); quick: those of arity <= 2 (50) - the wider ones are reached by the sampled class.
    POOL2 = POOL1 if thorough else list(gen.ATOMS) + list(gen.level_up(gen.ATOMS, 2))
    ASSIGN = gen.assignments()
    n1 = len(POOL1)
    np2 = len(POOL2)
    n2 = np2 + 2 * (1 + np2 + np2 * np2)
    items2: T.List[T.Any] = [('d1', 0, n1)]
    step = max(1, n2 // (chk.jobs * 8))
    items2 += [('d2', i, min(i + step, n2)) for i in range(0, n2, step)]
    per = 4000
    n_r23 = 300000 if thorough else 32000     # depth 2 with arity 3
    n_r3 = 300000 if thorough else 32000      # depth 3, arity <= 3
    items2 += [('r:2:3', i, per) for i in range(n_r23 // per)]
    items2 += [('r:3:3', i, per) for i in range(n_r3 // per)]
    if time.time() - t0 > budget * 0.7:
        chk.notes['budget_cfg'] = 'sampled cfg expressions reduced to a third: time budget (machine load); enumerated parts kept'
        sampled = [it for it in items2 if it[0].startswith('r:')]
        items2 = [it for it in items2 if not it[0].startswith('r:')] + sampled[::3]
    chk.rng.shuffle(items2)
    res = common.pmap(cfg_depth_worker, items2, chk.jobs)
    hashes = merge(res)
    if thorough:
        step = max(1, n2 // (chk.jobs * 8))
        res = common.pmap(cfg_unary3_worker, [(i, min(i + step, n2)) for i in range(0, n2, step)], chk.jobs)
        merge(res)
    t_cfg = time.time() - t0 - t_grid - t_order

    # ---- delimiters, soups ----------------------------------------------------------------
    ncases = len(gen.delimiter_cases())
    items3: T.List[T.Any] = [('delim', i, min(i + 400, ncases), 0) for i in range(0, ncases, 400)]
    max_len = 5 if thorough else 4
    base = len(gen.SOUP_TOKENS)
    for ln in range(0, max_len + 1):
        tot = base ** ln
        st = max(1, min(tot, 8000))
        items3 += [('exh', ln, i, min(i + st, tot)) for i in range(0, tot, st)]
    n_rand = 200000 if thorough else 12000
    n_near = 200000 if thorough else 12000
    n_wide = 100000 if thorough else 8000
    items3 += [('rand', i, 4000, 0) for i in range(n_rand // 4000)]
    items3 += [('near', i, 4000, 0) for i in range(n_near // 4000)]
    items3 += [('wide', i, 4000, 0) for i in range(n_wide // 4000)]
    n_edit = len(gen.single_edit_neighbourhood())
    items3 += [('edit1', i, min(i + 2500, n_edit), 0) for i in range(0, n_edit, 2500)]
    if time.time() - t0 > budget:
        chk.notes['budget'] = 'random soups / near-misses / wide alphabet reduced to a quarter: time budget exhausted (machine load); enumerated classes kept'
        keep: T.List[T.Any] = []
        for kind3 in ('rand', 'near', 'wide'):
            sel = [it for it in items3 if it[0] == kind3]
            keep += sel[:max(1, len(sel) // 4)]
        items3 = [it for it in items3 if it[0] in ('delim', 'exh', 'edit1')] + keep
    chk.rng.shuffle(items3)
    res = common.pmap(cfg_soup_worker, items3, chk.jobs)
    hashes |= merge(res)
    n_cfg_eval = chk.counters.get('monitor:cfg-eval-vs-structure', 0) + chk.counters.get('monitor:cfg-eval-end-to-end', 0) + chk.counters.get('monitor:cfg-string-with-delimiters', 0) \
        + chk.counters.get('monitor:cfg-malformed-rejected-with-mesonexception', 0) + chk.counters.get('monitor:cfg-exception-type-policy', 0)
    totals['evaluations'] += n_cfg_eval
    totals['distinct'] += chk.counters.get('cfg-distinct', 0) + len(hashes)

    # ---- probes ----------------------------------------------------------------------------
    probes(chk, viol)
    c, b = mon.take()
    chk.merge_counts(c)
    for w in b:
        mech, wit = classify_breach(w)
        viol(mech, wit)
    totals['evaluations'] += chk.counters.get('monitor:directed-probes', 0)

    # ---- verdict ----------------------------------------------------------------------------
    chk.samples = section_samples.get('grid', []) + section_samples.get('history', []) + section_samples.get('order', []) + section_samples.get('cfg', [])
    chk.evaluations = totals['evaluations']
    for name, minimum in (('monitor:grid-release-vs-cargo-matcher', 50000), ('monitor:prerelease-gate', 5000),
                          ('monitor:prerelease-both-readings-agree', 10000), ('monitor:prerelease-both-readings-accept', 500), ('monitor:order-pair-vs-semver11', 10000),
                          ('monitor:order-axioms-triples', 100000), ('monitor:cfg-eval-vs-structure', 50000),
                          ('monitor:cfg-parse-structure', 10000), ('monitor:lexer-vs-reference-tokens', 30000), ('monitor:cfg-eval-end-to-end', 20000), ('monitor:cfg-malformed-rejected-with-mesonexception', 5000),
                          ('monitor:cfg-exception-type-policy', 5000), ('monitor:cfg-string-with-delimiters', 500),
                          ('monitor:directed-probes', 10), ('monitor:e2e-dependency-accepts-version', 100),
                          ('monitor:e2e-cargolock-sorted-newest-first', 10), ('monitor:dependency-history-accepts-equals-fresh', 20000),
                          ('monitor:dependency-history-api-equals-fresh', 2000), ('monitor:dependency-history-accepts-vs-oracle', 10000), ('contract:semver-cmp', 50000),
                          ('contract:accept', 50000), ('contract:cargo_parse', 1000), ('contract:lexer-conservation', 30000), ('contract:cfg-outcome-policy', 50000),
                          ('calibration:real-vs-pinned', 100), ('info:pairs-where-a-pinned-deviation-decides', 100)):
        chk.require(name, minimum)
    op_cells = sorted(k for k in cells if not k.startswith('cfg|'))
    cfg_cells = {k: v for k, v in sorted(cells.items()) if k.startswith('cfg|')}
    chk.notes['mechanisms_observed'] = dict(sorted(mech_counts.items()))
    chk.notes['mechanism_first_witness'] = dict(sorted(mech_sample.items()))
    chk.notes['timing_s'] = {'grid': round(t_grid, 1), 'order': round(t_order, 1), 'cfg_depth': round(t_cfg, 1),
                             'total': round(time.time() - t0, 1)}
    return chk.finish(
        rule=('grid: every requirement string (deduplicated; operators x partial versions over {0..3}, wildcards, pre-release '
              'requirements, multi-digit, blanks, comma pairs) is paired with versions (thorough: all; quick: the boundary '
              'neighbourhood of each comparator + 16 seeded ones); a pair is non-trivial when the version major is within 1 '
              'of a comparator major. order: all ordered pairs (a != b) of the adversarial version domain, all triples for the '
              'axioms. dependency histories: per (old, new) requirement pair every history pre in {use accepts_version, use api}^(0..3), '
              'update, optionally (nothing|A|P) + second update, observe; distinct by (pair, history). cfg: distinct expressions by structure (depth <= 1 arity <= 3 and depth 2 arity <= 2 enumerated - in the quick tier over arguments of arity <= 2 - the rest '
              'sampled and deduplicated by a 64-bit hash of the text), each against all 16 assignments; soups: every token '
              'sequence up to the length bound + seeded random / near-miss strings deduplicated by hash.'),
        assumptions=[
            'refsemver transcribes the comparator rules of the semver crate used by Cargo and SemVer 2.0.0 section 11; it is '
            'calibrated against unittests/cargotests.py (transcribed and re-read from the repo) before anything is judged',
            'the two deviations pinned by the project tests are applied to the oracle: partial =/> pad with zero; all-zero caret means <1.0.0',
            'for pre-release VERSIONS the property only demands rejection by requirements naming no pre-release; where the requirement '
            'names one, an outcome is demanded only when Cargo\'s matcher (same-triple gate) and the Cargo-book ranges in SemVer order '
            '(any-comparator gate) agree; the rest is counted, not judged',
            'cfg: a trailing comma is treated as malformed because test_parse_invalid pins it (rustc/Cargo accept it); keywords used as '
            'names and characters outside [A-Za-z0-9_(),="] are unspecified (exception-type policy only); no string escapes',
            'cfg configuration is the dict name -> value that eval_cfg receives (multi-valued cfgs are outside the interface)',
        ],
        exhaustive=False,
        extra={'distinct_nontrivial': totals['distinct'], 'evaluations': totals['evaluations'],
               'operator_shape_class_outcome_cells': len(op_cells), 'operator_cells_sample': op_cells[:12],
               'cfg_cells': cfg_cells,
               'exhaustive_parts': {'grid': thorough, 'dependency_histories_over_enumerated_pairs': thorough, 'order_pairs_and_triples': True, 'cfg_depth<=2_arity<=2': thorough, 'cfg_depth2_arity<=2_over_args_of_arity<=2': True,
                                    'cfg_depth<=1_arity<=3': True, 'cfg_depth3_unary': thorough,
                                    f'token_soups_len<={max_len}': True, 'single_token_edits_of_depth<=1_arity<=2': True}})


if __name__ == '__main__':
    sys.exit(main())
