"""Harness-side injection into child/cold Python processes of meson. Does nothing unless MESON_VERIF=1.

MESON_VERIF_MONITORS is a comma separated list of monitor specs applied at interpreter start:
  readdir_shuffle:<seed>   os.listdir / os.scandir results are returned in a seeded pseudo-random order
                           (perturbs a real nondeterminism source: directory order is unspecified by POSIX)
"""
import os

if os.environ.get('MESON_VERIF') == '1':
    # Only the process that was started with the guard set is perturbed: children (scripts that the PROJECT runs with
    # run_command()/custom targets) must see an ordinary environment, or their own unsorted directory listings would be
    # blamed on meson.
    os.environ.pop('MESON_VERIF', None)
    for _spec in filter(None, os.environ.get('MESON_VERIF_MONITORS', '').split(',')):
        _name, _, _arg = _spec.partition(':')
        if _name == 'readdir_shuffle':
            import random as _random
            _rng = _random.Random(int(_arg or '0'))
            _listdir = os.listdir
            _scandir = os.scandir

            def _shuffled_listdir(path='.'):
                res = _listdir(path)
                _rng.shuffle(res)
                return res

            class _ScandirShuffled:
                def __init__(self, path):
                    with _scandir(path) as it:
                        self._items = list(it)
                    _rng.shuffle(self._items)
                    self._iter = iter(self._items)

                def __iter__(self):
                    return self

                def __next__(self):
                    return next(self._iter)

                def __enter__(self):
                    return self

                def __exit__(self, *a):
                    return False

                def close(self):
                    pass

            def _shuffled_scandir(path='.'):
                return _ScandirShuffled(path)

            os.listdir = _shuffled_listdir
            os.scandir = _shuffled_scandir
