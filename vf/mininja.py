"""mini-ninja: an independent implementation of the Ninja manifest language and a controllable executor.

Written from the Ninja manual (https://ninja-build.org/manual.html) and ninja's documented behaviour;
imports nothing from mesonbuild.  Three roles (DESIGN.md 1.2):
  * shim so that the real `meson setup` with the ninja backend can run in a sandbox without ninja;
  * independent parser/evaluator of build.ninja for C03/C04/C13/C15;
  * executor whose schedule is an input (C05), with per-edge strace and an event log.

Manifest semantics implemented
  - lexer: comments, `$`-escapes ($$, $ , $:, $\\n + leading blanks of the next line, $var, ${var}),
    top-level `var = value` (evaluated immediately in file scope), `rule`, `build`, `default`, `pool`,
    `include`, `subninja` (own scope, parent = current), indented bindings;
  - build line: explicit outs [| implicit outs] : rule explicit ins [| implicit] [|| order-only] [|@ validations];
    binding values are evaluated at once in FILE scope, paths are then evaluated in the EDGE scope;
  - variable lookup when evaluating a rule binding for an edge: $in/$out/$in_newline (shell-escaped like
    ninja does), then the edge's bindings, then the rule's bindings (lazily, recursively), then file scope;
  - path canonicalisation (./, //, a/../b);  reserved rule `phony`;  pool depth;  `console` pool (depth 1);
  - rspfile/rspfile_content written before the command and removed after success;
  - parent directories of outputs are created before a command runs.
"""
from __future__ import annotations

import json
import os
import random
import re
import shlex
import subprocess
import sys
import time
import typing as T


class ManifestError(Exception):
    def __init__(self, msg: str, path: str = '', line: int = 0) -> None:
        super().__init__(f'{path}:{line}: {msg}' if path else msg)
        self.msg = msg
        self.path = path
        self.line = line


# ------------------------------------------------------------------ eval strings
# An EvalString is a list of ('t', text) and ('v', varname) parts.
Part = T.Tuple[str, str]
_SIMPLE_VAR = re.compile(r'[a-zA-Z0-9_-]+')
_BRACE_VAR = re.compile(r'\{([a-zA-Z0-9_.-]+)\}')


class Scope:
    def __init__(self, parent: T.Optional['Scope'] = None) -> None:
        self.parent = parent
        self.vars: T.Dict[str, str] = {}
        self.rules: T.Dict[str, 'Rule'] = {}

    def lookup(self, name: str) -> str:
        s: T.Optional[Scope] = self
        while s is not None:
            if name in s.vars:
                return s.vars[name]
            s = s.parent
        return ''

    def lookup_rule(self, name: str) -> T.Optional['Rule']:
        s: T.Optional[Scope] = self
        while s is not None:
            if name in s.rules:
                return s.rules[name]
            s = s.parent
        return None


def evaluate(parts: T.Sequence[Part], lookup: T.Callable[[str], str]) -> str:
    out = []
    for kind, val in parts:
        out.append(val if kind == 't' else lookup(val))
    return ''.join(out)


class Rule:
    def __init__(self, name: str) -> None:
        self.name = name
        self.bindings: T.Dict[str, T.List[Part]] = {}

    RESERVED = {'command', 'depfile', 'dyndep', 'description', 'deps', 'generator', 'pool', 'restat',
                'rspfile', 'rspfile_content', 'msvc_deps_prefix'}


class Edge:
    def __init__(self, idx: int, rule: Rule, scope: Scope, path: str, line: int) -> None:
        self.idx = idx
        self.rule = rule
        self.scope = scope          # edge scope (own bindings; parent = file scope at that point)
        self.outputs: T.List[str] = []
        self.implicit_outputs: T.List[str] = []
        self.inputs: T.List[str] = []
        self.implicit: T.List[str] = []
        self.order_only: T.List[str] = []
        self.validations: T.List[str] = []
        self.path = path
        self.line = line

    @property
    def is_phony(self) -> bool:
        return self.rule.name == 'phony'

    @property
    def all_outputs(self) -> T.List[str]:
        return self.outputs + self.implicit_outputs

    @property
    def all_inputs(self) -> T.List[str]:
        return self.inputs + self.implicit + self.order_only

    def get(self, key: str) -> str:
        """Evaluate binding `key` for this edge (ninja's EdgeEnv lookup order)."""
        return self._lookup(key, ())

    def _lookup(self, var: str, stack: T.Tuple[str, ...]) -> str:
        if var == 'in':
            return ' '.join(shell_escape_path(p) for p in self.inputs)
        if var == 'in_newline':
            return '\n'.join(shell_escape_path(p) for p in self.inputs)
        if var == 'out':
            return ' '.join(shell_escape_path(p) for p in self.outputs)
        if var in self.scope.vars:
            return self.scope.vars[var]
        if var in self.rule.bindings:
            if var in stack:
                raise ManifestError(f'cycle in rule variables: {" -> ".join(stack + (var,))}', self.path, self.line)
            return evaluate(self.rule.bindings[var], lambda v: self._lookup(v, stack + (var,)))
        return self.scope.parent.lookup(var) if self.scope.parent else ''

    def has_binding(self, key: str) -> bool:
        return key in self.scope.vars or key in self.rule.bindings

    def __repr__(self) -> str:
        return f'<Edge {self.idx} {self.rule.name} {self.outputs}>'


def shell_escape_path(s: str) -> str:
    """ninja's GetShellEscapedString: untouched if only safe characters, else single-quoted."""
    if s and all(c.isalnum() or c in '_+-./' for c in s):
        return s
    return "'" + s.replace("'", "'\\''") + "'"


def canon(path: str) -> str:
    """ninja's CanonicalizePath: collapse //, ./ and a/../ textually (no symlink resolution)."""
    if not path:
        return path
    absolute = path.startswith('/')
    comps: T.List[str] = []
    for c in path.split('/'):
        if c == '' or c == '.':
            continue
        if c == '..':
            if comps and comps[-1] != '..':
                comps.pop()
            elif not absolute:
                comps.append('..')
            continue
        comps.append(c)
    res = '/'.join(comps)
    if absolute:
        return '/' + res
    return res or '.'


class Manifest:
    def __init__(self) -> None:
        self.root = Scope()
        self.root.rules['phony'] = Rule('phony')
        self.edges: T.List[Edge] = []
        self.defaults: T.List[str] = []
        self.pools: T.Dict[str, int] = {'console': 1}
        self.producer: T.Dict[str, Edge] = {}
        self.duplicate_outputs: T.List[T.Tuple[str, int, int]] = []
        self.files: T.List[str] = []
        self.all_rules: T.Dict[str, Rule] = {}

    # ---- graph services -------------------------------------------------------------
    def consumers(self) -> T.Dict[str, T.List[Edge]]:
        res: T.Dict[str, T.List[Edge]] = {}
        for e in self.edges:
            for i in e.all_inputs:
                res.setdefault(i, []).append(e)
        return res

    def source_inputs(self) -> T.Set[str]:
        """Inputs that no statement produces."""
        return {i for e in self.edges for i in e.all_inputs if i not in self.producer}

    def edge_deps(self, e: Edge) -> T.List[Edge]:
        seen: T.Set[int] = set()
        out = []
        for i in e.all_inputs:
            p = self.producer.get(i)
            if p is not None and p.idx not in seen:
                seen.add(p.idx)
                out.append(p)
        return out

    def ancestors(self, e: Edge) -> T.Set[int]:
        """Indices of all edges transitively ordered before e (explicit, implicit, order-only)."""
        seen: T.Set[int] = set()
        stack = [e]
        while stack:
            cur = stack.pop()
            for p in self.edge_deps(cur):
                if p.idx not in seen:
                    seen.add(p.idx)
                    stack.append(p)
        return seen

    def find_cycle(self) -> T.Optional[T.List[int]]:
        WHITE, GREY, BLACK = 0, 1, 2
        color = [WHITE] * len(self.edges)
        for root in self.edges:
            if color[root.idx] != WHITE:
                continue
            stack: T.List[T.Tuple[Edge, T.Iterator[Edge]]] = [(root, iter(self.edge_deps(root)))]
            color[root.idx] = GREY
            path = [root.idx]
            while stack:
                cur, it = stack[-1]
                nxt = next(it, None)
                if nxt is None:
                    color[cur.idx] = BLACK
                    stack.pop()
                    path.pop()
                    continue
                if color[nxt.idx] == GREY:
                    return path[path.index(nxt.idx):] + [nxt.idx]
                if color[nxt.idx] == WHITE:
                    color[nxt.idx] = GREY
                    path.append(nxt.idx)
                    stack.append((nxt, iter(self.edge_deps(nxt))))
        return None

    def reachable_edges(self, targets: T.Sequence[str]) -> T.Set[int]:
        seen: T.Set[int] = set()
        stack = []
        for t in targets:
            p = self.producer.get(canon(t))
            if p is not None and p.idx not in seen:
                seen.add(p.idx)
                stack.append(p)
        while stack:
            cur = stack.pop()
            for p in self.edge_deps(cur):
                if p.idx not in seen:
                    seen.add(p.idx)
                    stack.append(p)
        return seen

    def reachable_paths(self, targets: T.Sequence[str]) -> T.Set[str]:
        res: T.Set[str] = set(canon(t) for t in targets)
        for i in self.reachable_edges(targets):
            e = self.edges[i]
            res.update(e.all_outputs)
            res.update(e.all_inputs)
        return res

    def default_targets(self) -> T.List[str]:
        if self.defaults:
            return list(self.defaults)
        used = {i for e in self.edges for i in e.all_inputs}
        return [o for e in self.edges for o in e.all_outputs if o not in used]


# ------------------------------------------------------------------ parser
class _Parser:
    def __init__(self, manifest: Manifest) -> None:
        self.m = manifest

    def parse_file(self, path: str, scope: Scope) -> None:
        try:
            with open(path, 'rb') as f:
                data = f.read().decode('utf-8', 'surrogateescape')
        except OSError as e:
            raise ManifestError(f'loading {path!r}: {e.strerror}')
        self.m.files.append(path)
        self.parse_text(data, path, scope)

    def parse_text(self, text: str, path: str, scope: Scope) -> None:
        # ninja requires no tabs for indentation and normalises nothing else; CRLF is accepted.
        lines = self._logical_lines(text, path)
        i = 0
        n = len(lines)
        while i < n:
            lineno, indent, body = lines[i]
            i += 1
            if not body:
                continue
            if indent:
                raise ManifestError('unexpected indent', path, lineno)
            kw, rest = self._keyword(body)
            if kw == 'rule':
                name = rest.strip()
                if not re.fullmatch(r'[a-zA-Z0-9_.-]+', name):
                    raise ManifestError(f'expected rule name, got {rest!r}', path, lineno)
                if name in scope.rules:
                    raise ManifestError(f"duplicate rule '{name}'", path, lineno)
                rule = Rule(name)
                while i < n and lines[i][1] and lines[i][2]:
                    bl, _, bb = lines[i]
                    i += 1
                    key, val = self._binding(bb, path, bl)
                    if key not in Rule.RESERVED:
                        raise ManifestError(f"unexpected variable '{key}'", path, bl)
                    rule.bindings[key] = self._eval_string(val, path, bl, False)
                if ('rspfile' in rule.bindings) != ('rspfile_content' in rule.bindings):
                    raise ManifestError('rspfile and rspfile_content need to be both specified', path, lineno)
                if 'command' not in rule.bindings:
                    raise ManifestError("expected 'command =' line", path, lineno)
                scope.rules[name] = rule
                self.m.all_rules.setdefault(name, rule)
            elif kw == 'build':
                i = self._parse_build(rest, lines, i, path, lineno, scope)
            elif kw == 'default':
                toks, _ = self._paths(rest, path, lineno)
                if not toks:
                    raise ManifestError('expected target name', path, lineno)
                for t in toks:
                    p = canon(evaluate(t, scope.lookup))
                    if p not in self.m.producer and not self._is_known_path(p):
                        raise ManifestError(f"unknown target '{p}'", path, lineno)
                    self.m.defaults.append(p)
            elif kw == 'pool':
                name = rest.strip()
                depth = None
                while i < n and lines[i][1] and lines[i][2]:
                    bl, _, bb = lines[i]
                    i += 1
                    key, val = self._binding(bb, path, bl)
                    if key != 'depth':
                        raise ManifestError(f"unexpected variable '{key}'", path, bl)
                    try:
                        depth = int(evaluate(self._eval_string(val, path, bl, False), scope.lookup))
                    except ValueError:
                        raise ManifestError('invalid pool depth', path, bl)
                if depth is None or depth < 0:
                    raise ManifestError("expected 'depth =' line", path, lineno)
                if name in self.m.pools:
                    raise ManifestError(f"duplicate pool '{name}'", path, lineno)
                self.m.pools[name] = depth
            elif kw in ('include', 'subninja'):
                toks, _ = self._paths(rest, path, lineno)
                if len(toks) != 1:
                    raise ManifestError('expected path', path, lineno)
                p = evaluate(toks[0], scope.lookup)
                self.parse_file(p, scope if kw == 'include' else Scope(scope))
            else:
                key, val = self._binding(body, path, lineno)
                scope.vars[key] = evaluate(self._eval_string(val, path, lineno, False), scope.lookup)

    def _is_known_path(self, p: str) -> bool:
        for e in self.m.edges:
            if p in e.all_inputs:
                return True
        return False

    @staticmethod
    def _keyword(body: str) -> T.Tuple[str, str]:
        m = re.match(r'(rule|build|default|pool|include|subninja)(?=[ \t]|$)', body)
        if m:
            return m.group(1), body[m.end():].lstrip(' ')
        return '', body

    @staticmethod
    def _logical_lines(text: str, path: str) -> T.List[T.Tuple[int, int, str]]:
        """Split into logical lines: joins `$\\n` continuations (dropping the leading blanks of the
        continued line), strips comment lines; returns (first line number, indent, body)."""
        res: T.List[T.Tuple[int, int, str]] = []
        raw = text.split('\n')
        if raw and raw[-1] == '':
            raw.pop()
        i = 0
        while i < len(raw):
            lineno = i + 1
            line = raw[i]
            i += 1
            if line.endswith('\r'):
                line = line[:-1]
            stripped = line.lstrip(' ')
            if stripped.startswith('#'):
                continue
            if '\t' in line[:len(line) - len(stripped)] or stripped.startswith('\t'):
                raise ManifestError('tabs are not allowed, use spaces', path, lineno)
            # continuation: a line ending in an odd number of '$'
            while _ends_with_escape_newline(line) and i < len(raw):
                nxt = raw[i]
                i += 1
                if nxt.endswith('\r'):
                    nxt = nxt[:-1]
                line = line[:-1] + nxt.lstrip(' ')
            indent = len(line) - len(line.lstrip(' '))
            body = line[indent:]
            res.append((lineno, indent, body if body.strip(' ') else ''))
        return res

    @staticmethod
    def _binding(body: str, path: str, lineno: int) -> T.Tuple[str, str]:
        m = re.match(r'([a-zA-Z0-9_.-]+)[ ]*=[ ]*', body)
        if not m:
            raise ManifestError(f"expected '=', got {body[:40]!r}", path, lineno)
        return m.group(1), body[m.end():]

    @staticmethod
    def _eval_string(s: str, path: str, lineno: int, is_path: bool) -> T.List[Part]:
        """Value context (is_path False): runs to end of line, blanks/colons/pipes literal."""
        parts: T.List[Part] = []
        buf: T.List[str] = []
        i = 0
        n = len(s)
        while i < n:
            c = s[i]
            if c == '$':
                i += 1
                if i >= n:
                    raise ManifestError('bad $-escape (literal $ must be written as $$)', path, lineno)
                d = s[i]
                if d in ' :$':
                    buf.append(d)
                    i += 1
                elif d == '{':
                    m = _BRACE_VAR.match(s, i)
                    if not m:
                        raise ManifestError('bad $-escape (literal $ must be written as $$)', path, lineno)
                    if buf:
                        parts.append(('t', ''.join(buf)))
                        buf = []
                    parts.append(('v', m.group(1)))
                    i = m.end()
                else:
                    m = _SIMPLE_VAR.match(s, i)
                    if not m:
                        raise ManifestError('bad $-escape (literal $ must be written as $$)', path, lineno)
                    if buf:
                        parts.append(('t', ''.join(buf)))
                        buf = []
                    parts.append(('v', m.group(0)))
                    i = m.end()
            else:
                buf.append(c)
                i += 1
        if buf:
            parts.append(('t', ''.join(buf)))
        return parts

    def _paths(self, s: str, path: str, lineno: int) -> T.Tuple[T.List[T.List[Part]], str]:
        """Split a path list at unescaped blanks; stops at an unescaped ':' or '|' and returns the rest."""
        toks: T.List[T.List[Part]] = []
        i = 0
        n = len(s)
        while True:
            while i < n and s[i] == ' ':
                i += 1
            if i >= n or s[i] in ':|':
                return toks, s[i:]
            j = i
            while j < n:
                c = s[j]
                if c == '$':
                    j += 2 if j + 1 < n else 1
                    continue
                if c in ' :|':
                    break
                j += 1
            toks.append(self._eval_string(s[i:j], path, lineno, True))
            i = j

    def _parse_build(self, rest: str, lines: T.List[T.Tuple[int, int, str]], i: int, path: str, lineno: int,
                     scope: Scope) -> int:
        outs, rem = self._paths(rest, path, lineno)
        imp_outs: T.List[T.List[Part]] = []
        if rem.startswith('|') and not rem.startswith('||'):
            imp_outs, rem = self._paths(rem[1:], path, lineno)
        if not outs and not imp_outs:
            raise ManifestError('expected path', path, lineno)
        if not rem.startswith(':'):
            raise ManifestError("expected ':'", path, lineno)
        rem = rem[1:].lstrip(' ')
        m = re.match(r'[a-zA-Z0-9_.-]+', rem)
        if not m:
            raise ManifestError('expected build command name', path, lineno)
        rule_name = m.group(0)
        rule = scope.lookup_rule(rule_name)
        if rule is None:
            raise ManifestError(f"unknown build rule '{rule_name}'", path, lineno)
        rem = rem[m.end():]
        ins, rem = self._paths(rem, path, lineno)
        implicit: T.List[T.List[Part]] = []
        order: T.List[T.List[Part]] = []
        valid: T.List[T.List[Part]] = []
        if rem.startswith('|') and not rem.startswith('||') and not rem.startswith('|@'):
            implicit, rem = self._paths(rem[1:], path, lineno)
        if rem.startswith('||'):
            order, rem = self._paths(rem[2:], path, lineno)
        if rem.startswith('|@'):
            valid, rem = self._paths(rem[2:], path, lineno)
        if rem.strip(' '):
            raise ManifestError(f'unexpected {rem[:20]!r} at end of build line', path, lineno)
        edge_scope = Scope(scope)
        n = len(lines)
        while i < n and lines[i][1] and lines[i][2]:
            bl, _, bb = lines[i]
            i += 1
            key, val = self._binding(bb, path, bl)
            edge_scope.vars[key] = evaluate(self._eval_string(val, path, bl, False), scope.lookup)
        e = Edge(len(self.m.edges), rule, edge_scope, path, lineno)

        def ev(toks: T.List[T.List[Part]]) -> T.List[str]:
            res = []
            for t in toks:
                p = evaluate(t, edge_scope.lookup)
                if not p:
                    raise ManifestError('empty path', path, lineno)
                res.append(canon(p))
            return res
        e.outputs = ev(outs)
        e.implicit_outputs = ev(imp_outs)
        e.inputs = ev(ins)
        e.implicit = ev(implicit)
        e.order_only = ev(order)
        e.validations = ev(valid)
        pool = e.get('pool')
        if pool and pool not in self.m.pools:
            raise ManifestError(f"unknown pool name '{pool}'", path, lineno)
        for o in e.all_outputs:
            prev = self.m.producer.get(o)
            if prev is not None:
                self.m.duplicate_outputs.append((o, prev.idx, e.idx))
            else:
                self.m.producer[o] = e
        self.m.edges.append(e)
        return i


def _ends_with_escape_newline(line: str) -> bool:
    k = 0
    j = len(line) - 1
    while j >= 0 and line[j] == '$':
        k += 1
        j -= 1
    return k % 2 == 1


def parse_manifest(path: str = 'build.ninja', cwd: T.Optional[str] = None) -> Manifest:
    """Parse a manifest; `include`/`subninja` paths are relative to cwd (ninja runs in the build dir)."""
    m = Manifest()
    old = os.getcwd()
    try:
        if cwd:
            os.chdir(cwd)
        _Parser(m).parse_file(path, m.root)
    finally:
        os.chdir(old)
    return m


def parse_manifest_text(text: str) -> Manifest:
    m = Manifest()
    _Parser(m).parse_text(text, '<text>', m.root)
    return m


# ------------------------------------------------------------------ executor
class BuildFailure(Exception):
    pass


class Executor:
    """Runs edges with `/bin/sh -c` like ninja on POSIX.  The schedule is an input."""

    POLICIES = ('decl', 'reverse', 'random', 'consumers-first', 'deepest-last')

    def __init__(self, manifest: Manifest, builddir: str, jobs: int = 1, policy: str = 'decl', seed: int = 0,
                 trace_dir: T.Optional[str] = None, log_path: T.Optional[str] = None, keep_going: int = 1,
                 verbose: bool = False, incremental: bool = True, env: T.Optional[T.Mapping[str, str]] = None,
                 keep_rsp: bool = False, out: T.TextIO = sys.stdout) -> None:
        self.m = manifest
        self.builddir = builddir
        self.jobs = max(1, jobs)
        self.policy = policy
        self.rng = random.Random(seed)
        self.trace_dir = trace_dir
        self.log_path = log_path
        self.keep_going = keep_going
        self.verbose = verbose
        self.incremental = incremental
        self.env = dict(env) if env is not None else None
        self.keep_rsp = keep_rsp
        self.out = out
        self.order: T.List[int] = []        # edges in the order they were started
        self.events: T.List[dict] = []
        self.failed: T.List[int] = []

    def _abspath(self, p: str) -> str:
        return p if os.path.isabs(p) else os.path.join(self.builddir, p)

    def _mtime(self, p: str) -> T.Optional[int]:
        try:
            return os.stat(self._abspath(p)).st_mtime_ns
        except OSError:
            return None

    def plan(self, targets: T.Sequence[str]) -> T.List[int]:
        if not targets:
            targets = self.m.default_targets()
        want: T.Set[int] = set()
        for t in targets:
            ct = canon(t)
            if ct not in self.m.producer:
                if self._mtime(ct) is None:
                    raise BuildFailure(f"unknown target '{t}'")
                continue
        want = self.m.reachable_edges(targets)
        # missing sources
        for i in sorted(want):
            e = self.m.edges[i]
            for inp in e.all_inputs:
                if inp not in self.m.producer and self._mtime(inp) is None:
                    raise BuildFailure(f"'{inp}', needed by '{(e.all_outputs or ['?'])[0]}', missing and no known rule to make it")
        return sorted(want)

    def _dirty_set(self, want: T.Sequence[int]) -> T.Set[int]:
        if not self.incremental:
            return set(want)
        memo: T.Dict[int, bool] = {}

        def is_dirty(i: int) -> bool:
            if i in memo:
                return memo[i]
            memo[i] = False  # cycle guard
            e = self.m.edges[i]
            d = False
            newest_in = 0
            for inp in e.inputs + e.implicit:
                p = self.m.producer.get(inp)
                if p is not None and is_dirty(p.idx):
                    d = True
                mt = self._mtime(inp)
                if mt is None:
                    if p is not None and not p.is_phony:
                        d = True
                else:
                    newest_in = max(newest_in, mt)
            for inp in e.order_only:
                p = self.m.producer.get(inp)
                if p is not None:
                    is_dirty(p.idx)
            if e.is_phony:
                if not e.all_inputs and any(self._mtime(o) is None for o in e.all_outputs):
                    d = True  # phony without inputs whose file does not exist: always dirty
            else:
                for o in e.all_outputs:
                    mt = self._mtime(o)
                    if mt is None or mt < newest_in:
                        d = True
            memo[i] = d
            return d
        for i in want:
            is_dirty(i)
        return {i for i in want if memo.get(i)}

    def run(self, targets: T.Sequence[str] = ()) -> int:
        want = self.plan(targets)
        todo = self._dirty_set(want)
        real = [i for i in todo if not self.m.edges[i].is_phony]
        if not real:
            print('ninja: no work to do.', file=self.out)
            return 0
        done: T.Set[int] = set(i for i in want if i not in todo)
        pending = set(todo)
        running: T.Dict[int, T.Tuple[subprocess.Popen, float, T.Any]] = {}
        pool_use: T.Dict[str, int] = {}
        n_consumers = self._count_dependents(want)
        depth = self._depths(want)
        total = len(real)
        finished = 0
        failures = 0
        logf = open(self.log_path, 'a', encoding='utf-8') if self.log_path else None
        try:
            while pending or running:
                # complete phony edges whose deps are done
                progressed = True
                while progressed:
                    progressed = False
                    for i in sorted(pending):
                        e = self.m.edges[i]
                        if e.is_phony and all(p.idx in done for p in self.m.edge_deps(e)):
                            pending.discard(i)
                            done.add(i)
                            progressed = True
                ready = [i for i in pending
                         if not self.m.edges[i].is_phony
                         and all(p.idx in done for p in self.m.edge_deps(self.m.edges[i]))]
                if failures >= self.keep_going > 0:
                    ready = []
                ready = self._order_ready(ready, n_consumers, depth)
                started = False
                for i in ready:
                    if len(running) >= self.jobs:
                        break
                    e = self.m.edges[i]
                    pool = e.get('pool')
                    if pool:
                        cap = self.m.pools.get(pool, 0)
                        if cap and pool_use.get(pool, 0) >= cap:
                            continue
                    pending.discard(i)
                    proc, extra = self._start(e)
                    running[i] = (proc, time.monotonic(), extra)
                    if pool:
                        pool_use[pool] = pool_use.get(pool, 0) + 1
                    self.order.append(i)
                    started = True
                if not running:
                    if pending and not started:
                        if failures:
                            break
                        raise BuildFailure('dependency cycle or unsatisfiable schedule among: '
                                           + ', '.join(str(self.m.edges[i].outputs) for i in sorted(pending)[:5]))
                    continue
                # wait for one to finish
                fin = None
                while fin is None:
                    for i, (proc, t0, extra) in running.items():
                        if proc.poll() is not None:
                            fin = i
                            break
                    if fin is None:
                        time.sleep(0.002)
                proc, t0, extra = running.pop(fin)
                out = proc.stdout.read() if proc.stdout else b''
                e = self.m.edges[fin]
                pool = e.get('pool')
                if pool:
                    pool_use[pool] -= 1
                finished += 1
                rc = proc.returncode
                ev = {'edge': fin, 'outputs': e.outputs, 'rule': e.rule.name, 'rc': rc,
                      'start': t0, 'end': time.monotonic(), 'command': extra['command']}
                self.events.append(ev)
                if logf:
                    logf.write(json.dumps(ev) + '\n')
                    logf.flush()
                desc = e.get('description') or extra['command']
                if rc != 0:
                    failures += 1
                    self.failed.append(fin)
                    print(f'FAILED: {" ".join(e.outputs)}', file=self.out)
                    print(extra['command'], file=self.out)
                    self.out.write(out.decode('utf-8', 'replace'))
                else:
                    print(f'[{finished}/{total}] {extra["command"] if self.verbose else desc}', file=self.out)
                    if out:
                        self.out.write(out.decode('utf-8', 'replace'))
                    if extra.get('rspfile') and not self.keep_rsp:
                        try:
                            os.unlink(self._abspath(extra['rspfile']))
                        except OSError:
                            pass
                    done.add(fin)
                self.out.flush()
        finally:
            for proc, _, _ in running.values():
                proc.kill()
            if logf:
                logf.close()
        if failures:
            print('ninja: build stopped: subcommand failed.', file=self.out)
            return 1
        return 0

    def _count_dependents(self, want: T.Sequence[int]) -> T.Dict[int, int]:
        deps: T.Dict[int, T.Set[int]] = {i: set() for i in want}
        for i in want:
            for a in self.m.ancestors(self.m.edges[i]):
                if a in deps:
                    deps[a].add(i)
        return {i: len(s) for i, s in deps.items()}

    def _depths(self, want: T.Sequence[int]) -> T.Dict[int, int]:
        memo: T.Dict[int, int] = {}

        def d(i: int) -> int:
            if i in memo:
                return memo[i]
            memo[i] = 0
            ds = [d(p.idx) for p in self.m.edge_deps(self.m.edges[i])]
            memo[i] = 1 + max(ds) if ds else 0
            return memo[i]
        return {i: d(i) for i in want}

    def _order_ready(self, ready: T.List[int], n_consumers: T.Dict[int, int], depth: T.Dict[int, int]) -> T.List[int]:
        if self.policy == 'decl':
            return sorted(ready)
        if self.policy == 'reverse':
            return sorted(ready, reverse=True)
        if self.policy == 'random':
            r = sorted(ready)
            self.rng.shuffle(r)
            return r
        if self.policy == 'consumers-first':
            # edges nothing else waits for go first: starves producers as long as the graph allows
            return sorted(ready, key=lambda i: (n_consumers.get(i, 0), -i))
        if self.policy == 'deepest-last':
            return sorted(ready, key=lambda i: (depth.get(i, 0), self.rng.random()))
        raise ValueError(f'unknown policy {self.policy}')

    def command_for(self, e: Edge) -> T.Tuple[str, T.Optional[str], T.Optional[str]]:
        cmd = e.get('command')
        rsp = e.get('rspfile') or None
        content = e.get('rspfile_content') if rsp else None
        return cmd, rsp, content

    def _start(self, e: Edge) -> T.Tuple[subprocess.Popen, dict]:
        cmd, rsp, content = self.command_for(e)
        for o in e.all_outputs:
            d = os.path.dirname(self._abspath(o))
            if d:
                os.makedirs(d, exist_ok=True)
        if rsp:
            rp = self._abspath(rsp)
            os.makedirs(os.path.dirname(rp) or '.', exist_ok=True)
            with open(rp, 'wb') as f:
                f.write((content or '').encode('utf-8', 'surrogateescape'))
        argv: T.List[str] = ['/bin/sh', '-c', cmd]
        if self.trace_dir:
            os.makedirs(self.trace_dir, exist_ok=True)
            argv = ['strace', '-f', '-qq', '-y', '-s', '4096',
                    '-e', 'trace=%file,execve,chdir,fchdir',
                    '-o', os.path.join(self.trace_dir, f'{e.idx}.strace')] + argv
        proc = subprocess.Popen(argv, cwd=self.builddir, stdin=subprocess.DEVNULL, stdout=subprocess.PIPE,
                                stderr=subprocess.STDOUT, env=self.env)
        return proc, {'command': cmd, 'rspfile': rsp}


def clean(m: Manifest, builddir: str) -> int:
    n = 0
    for e in m.edges:
        if e.is_phony or e.get('generator'):
            continue
        for o in e.all_outputs:
            p = o if os.path.isabs(o) else os.path.join(builddir, o)
            try:
                os.unlink(p)
                n += 1
            except OSError:
                pass
    return n


def compdb(m: Manifest, builddir: str, rules: T.Sequence[str]) -> T.List[dict]:
    res = []
    for e in m.edges:
        if e.is_phony or (rules and e.rule.name not in rules) or not e.inputs:
            continue
        res.append({'directory': builddir, 'command': e.get('command'), 'file': e.inputs[0], 'output': e.outputs[0] if e.outputs else ''})
    return res


def main(argv: T.Sequence[str]) -> int:
    args = list(argv)
    if '--version' in args:
        print('1.11.1')
        return 0
    cwd = None
    fname = 'build.ninja'
    jobs = int(os.environ.get('MININJA_JOBS', '0')) or (os.cpu_count() or 2)
    keep = 1
    verbose = False
    dry = False
    tool = None
    targets: T.List[str] = []
    i = 0
    while i < len(args):
        a = args[i]
        if a == '-C':
            cwd = args[i + 1]
            i += 2
        elif a.startswith('-C') and len(a) > 2:
            cwd = a[2:]
            i += 1
        elif a == '-f':
            fname = args[i + 1]
            i += 2
        elif a == '-j':
            jobs = int(args[i + 1])
            i += 2
        elif a.startswith('-j') and a[2:].isdigit():
            jobs = int(a[2:])
            i += 1
        elif a == '-k':
            keep = int(args[i + 1])
            i += 2
        elif a.startswith('-k') and a[2:].isdigit():
            keep = int(a[2:])
            i += 1
        elif a in ('-l', '-d', '-w'):
            i += 2
        elif a in ('-v', '--verbose'):
            verbose = True
            i += 1
        elif a == '--quiet':
            i += 1
        elif a == '-n':
            dry = True
            i += 1
        elif a == '-t':
            tool = args[i + 1]
            targets = args[i + 2:]
            break
        else:
            targets.append(a)
            i += 1
    if cwd:
        os.chdir(cwd)
    bdir = os.getcwd()
    try:
        m = parse_manifest(fname)
        if m.duplicate_outputs:
            o, a, b = m.duplicate_outputs[0]
            print(f'ninja: error: {fname}: multiple rules generate {o}', file=sys.stderr)
            return 1
        if tool is not None:
            if tool == 'compdb':
                print(json.dumps(compdb(m, bdir, [t for t in targets if not t.startswith('-')]), indent=2))
                return 0
            if tool == 'clean':
                print(f'Cleaning... {clean(m, bdir)} files.')
                return 0
            if tool == 'targets':
                for e in m.edges:
                    for o in e.outputs:
                        print(f'{o}: {e.rule.name}')
                return 0
            if tool in ('restat', 'cleandead', 'recompact', 'deps', 'list'):
                return 0
            print(f"ninja: fatal: unknown tool '{tool}'", file=sys.stderr)
            return 1
        cyc = m.find_cycle()
        if cyc:
            print('ninja: error: dependency cycle: ' + ' -> '.join(str(m.edges[c].outputs) for c in cyc), file=sys.stderr)
            return 1
        if dry:
            return 0
        policy = os.environ.get('MININJA_POLICY', 'decl')
        seed = int(os.environ.get('MININJA_SEED', '0'))
        ex = Executor(m, bdir, jobs=jobs, policy=policy, seed=seed, keep_going=keep, verbose=verbose,
                      trace_dir=os.environ.get('MININJA_TRACE') or None, log_path=os.environ.get('MININJA_LOG') or None,
                      keep_rsp=bool(os.environ.get('MININJA_KEEPRSP')))
        return ex.run(targets)
    except ManifestError as e:
        print(f'ninja: error: {e}', file=sys.stderr)
        return 1
    except BuildFailure as e:
        print(f'ninja: error: {e}', file=sys.stderr)
        return 1
