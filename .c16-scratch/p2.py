import sys, random, collections, time
sys.path.insert(0,'/verif')
from vf import common
common.use_repo()
from mesonbuild import mformat, mparser
from vf.ref import refmeson as R
from vf.gen import gen_c16 as G
feat = collections.Counter()
ok=bad=rbad=0
t=time.time()
N=int(sys.argv[1]) if len(sys.argv)>1 else 500
tot=0
for i in range(N):
    rng=random.Random(i)
    ch=G.program(rng, feat)
    text=''.join(ch)
    tot+=len(text)
    try:
        mparser.Parser(text,'x').parse()
        ok+=1
    except Exception as e:
        bad+=1
        if bad<=5: print('REAL REJECT', i, e, repr(text[:300]))
        continue
    try:
        R.parse(text)
    except Exception as e:
        rbad+=1
        if rbad<=5: print('REF REJECT', i, e, repr(text[:300]))
print(ok,bad,rbad, time.time()-t, tot/N)
for i in (1,2,3):
    print('-----'); print(''.join(G.program(random.Random(1000+i))))
