import sys, os
sys.path.insert(0,'/verif')
from vf.checks import c16
from vf import common, runner
import cProfile, pstats
chk = common.Check('C16')
c16.silence_mlog()
c16.ENV = c16.build_env(chk, 0)
c16.KNOWN=set(['multiline-string-simplified-changes-escapes','files-nested-array-flattened-one-level-per-pass','files-array-sorted-only-on-second-pass','files-flattening-drops-comment-after-array','indentation-unstable-inside-multiline-parentheses','single-argument-call-relayouted-on-second-pass','comment-split-at-non-lf-line-boundary'])
cProfile.run("d=c16.dispatch(('gen',(0,0,20,6)))", '/verif/.c16-scratch/prof.out')
p=pstats.Stats('/verif/.c16-scratch/prof.out'); p.sort_stats('cumulative').print_stats(45)
