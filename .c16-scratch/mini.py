import sys, random, collections, time, os, pickle
sys.path.insert(0,'/verif')
from vf import common
common.use_repo()
import logging
from mesonbuild import mformat, mparser, mlog
from pathlib import Path
from vf.ref import refmeson as R
from vf.gen import gen_c16 as G
from vf.monitors import c16_contracts as C
mlog.log_warning = lambda *a, **k: None
P=Path('/nonexistent/meson.build')
def mk(cfg):
    f = mformat.Formatter(None, False, False)
    for k,v in cfg.items():
        if k in ('editorconfig','ec_via_key'): continue
        setattr(f.config,k,v)
    return f
def mechs(text,cfg,f):
    try:
        R.parse(text); mparser.Parser(text,'x').parse()
    except Exception: return set()
    out=out2=exc=exc2=rpe=None
    try: out=f.format(text,P)
    except Exception as e: exc=repr(e)
    if out is not None:
        try: mparser.Parser(out,'x').parse()
        except Exception as e: rpe=repr(e)
        try: out2=f.format(out,P)
        except Exception as e: exc2=repr(e)
    return {v.mechanism for v in C.judge(text,out,out2,cfg,exc,exc2,rpe)}, out, out2
def ddmin(units, pred):
    n=2
    while len(units)>=2:
        k=max(1,len(units)//n); changed=False
        for i in range(0,len(units),k):
            cand=units[:i]+units[i+k:]
            if cand and pred(cand):
                units=cand; n=max(n-1,2); changed=True; break
        if not changed:
            if k==1: break
            n=min(len(units),n*2)
    return units
def minimise(text,cfg,mech):
    f=mk(cfg)
    def pred_units(us):
        r=mechs(''.join(us),cfg,f)
        return bool(r) and mech in r[0]
    lines=text.splitlines(keepends=True)
    lines=ddmin(lines,pred_units)
    text=''.join(lines)
    toks=[t.text for t in R.tokenize(text,trivia=True)]
    toks=ddmin(toks,pred_units)
    text=''.join(toks)
    # char-level
    chars=ddmin(list(text),pred_units)
    return ''.join(chars)
if __name__=='__main__':
    ex=pickle.load(open('/verif/.c16-scratch/ex.pkl','rb'))
    only=sys.argv[1:] 
    for m,(text,cfg,v,out,out2) in ex.items():
        if only and not any(o in m for o in only): continue
        mt=minimise(text,cfg,m)
        f=mk(cfg)
        r=mechs(mt,cfg,f)
        # minimise config: reset each key to default if mechanism persists
        c2=dict(cfg)
        for k in list(c2):
            if c2[k]!=G.DEFAULT_CONFIG[k]:
                c3=dict(c2); c3[k]=G.DEFAULT_CONFIG[k]
                rr=mechs(mt,c3,mk(c3))
                if rr and m in rr[0]: c2=c3
        r=mechs(mt,c2,mk(c2))
        print('=====',m); print('cfg',{k:v for k,v in c2.items() if v!=G.DEFAULT_CONFIG[k]}); print('IN  ',repr(mt)); print('OUT ',repr(r[1])); print('OUT2',repr(r[2])); print(r[0])
