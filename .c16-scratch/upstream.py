"""Emulate the repository's own `test cases/format` checks against a tree (argv[1])."""
import subprocess, sys, os, glob
repo = sys.argv[1]
tc = os.path.join('/repo', 'test cases', 'format')   # inputs always from the pristine repo
py = '/venv/bin/python'
def m(args, cwd):
    return subprocess.run([py, os.path.join(repo, 'meson.py')] + args, cwd=cwd, capture_output=True, text=True)
fails = 0
def check(name, r, want=0):
    global fails
    ok = r.returncode == want
    if not ok: fails += 1
    print(('ok   ' if ok else 'FAIL ') + name, '' if ok else (r.stdout + r.stderr)[-300:])
d = os.path.join(tc, '1 default')
for f in ['meson.build', 'crazy_comments.meson', 'indentation.meson', 'gh13242.meson']:
    check('1 default/' + f, m(['format', '--check-only', f], d))
d = os.path.join(tc, '2 muon')
for f in ['meson.build', 'crazy_comments.meson', 'indentation.meson']:
    check('2 muon/' + f, m(['fmt', '-q', '-c', 'muon.ini', f], d))
d = os.path.join(tc, '3 editorconfig')
for f in ['meson.build', 'crazy_comments.meson', 'indentation.meson', 'subdir/sub.meson']:
    if os.path.exists(os.path.join(d, f)):
        check('3 editorconfig/' + f, m(['format', '-e', '--check-only', f], d))
d = os.path.join(tc, '4 config')
for f in ['meson.build', 'crazy_comments.meson', 'indentation.meson']:
    check('4 config/' + f, m(['format', '--check-only', f], d))
d = os.path.join(tc, '5 transform')
for cfg in ['default', 'muon', 'options']:
    r = m(['format', '--configuration', cfg + '.ini', 'source.meson'], d)
    exp = open(os.path.join(d, cfg + '.expected.meson')).read()
    ok = r.returncode == 0 and r.stdout == exp
    if not ok:
        fails += 1
        import difflib
        print('FAIL 5 transform/' + cfg, ''.join(list(difflib.unified_diff(exp.splitlines(True), r.stdout.splitlines(True)))[:30]), r.stderr[-200:])
    else:
        print('ok   5 transform/' + cfg)
d = os.path.join(tc, '6 natural sort')
for f in ['meson.build', 'sort_files.meson']:
    check('6 natural sort/' + f, m(['format', '--check-only', '--configuration', 'options.ini', f], d))
print('FAILS', fails)
