#!/bin/sh
# usage: run_mut.sh NAME  -> creates worktree, applies mutant, runs quick check + pinned tests, removes worktree
name="$1"; tier="${2:-quick}"
wt=/tmp/wt-C16-$name
git -C /repo worktree add --detach $wt >/dev/null 2>&1
cd /verif/.c16-scratch/mut && /venv/bin/python - "$name" "$wt" <<'PY'
import sys
sys.path.insert(0,'.')
from muts import MUTS
name, wt = sys.argv[1], sys.argv[2]
f, old, new = MUTS[name]
p = wt + '/' + f
s = open(p).read()
assert s.count(old) == 1, (name, s.count(old))
open(p, 'w').write(s.replace(old, new))
PY
[ $? -eq 0 ] || { echo "$name: mutation failed to apply"; git -C /repo worktree remove --force $wt; exit 2; }
cd /verif
VERIF_REPO=$wt VERIF_JOBS=${VERIF_JOBS:-5} ./check C16 --tier $tier > /verif/.c16-scratch/mut/$name.$tier.log 2>&1
rc=$?
( cd $wt && /venv/bin/python -m pytest -q -p no:cacheprovider unittests/cargotests.py unittests/optiontests.py unittests/taptests.py unittests/versiontests.py 2>&1 | tail -1 ) > /verif/.c16-scratch/mut/$name.pytest 2>&1
git -C /repo worktree remove --force $wt
echo "$name tier=$tier rc=$rc pinned: $(cat /verif/.c16-scratch/mut/$name.pytest)"
grep "^  mechanism=" /verif/.c16-scratch/mut/$name.$tier.log | cut -c1-160
