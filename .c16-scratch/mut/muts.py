"""mutant definitions: name -> (file, old, new)"""
F='mesonbuild/mformat.py'
MUTS = {
 'M1a-drop-string-guard': (F, """            if node.is_multiline and not any(x in node.value for x in ['\\n', "'"]):""", """            if node.is_multiline:"""),
 'M1b-drop-quote-guard': (F, """not any(x in node.value for x in ['\\n', "'"])""", """not any(x in node.value for x in ['\\n'])"""),
 'M1c-drop-newline-guard': (F, """not any(x in node.value for x in ['\\n', "'"])""", """not any(x in node.value for x in ["'"])"""),
 'M2-sort-files-always': (F, """            if self.config.sort_files:
                self.sort_arguments(node.args)""", """            if True:
                self.sort_arguments(node.args)"""),
 'M3-comma-removed-with-comment': (F, """            if has_trailing_comma and not (node.commas[-1].whitespaces and node.commas[-1].whitespaces.value):
                node.commas.pop(-1)""", """            if has_trailing_comma:
                node.commas.pop(-1)"""),
 'M3b-trailing-comma-comment-stays-on-comma': (F, """        if has_trailing_comma:
            last_node = node.commas[-1]
        elif node.kwargs:""", """        if False:
            last_node = node.commas[-1]
        elif node.kwargs:"""),
 'M4a-one-round': (F, "        for level in range(5):", "        for level in range(1):"),
 'M4b-two-rounds': (F, "        for level in range(5):", "        for level in range(2):"),
 'M5-check-after-strip': (F, "            if code != formatted:", "            if code.strip() != formatted.strip():"),
 'M6-newline-after-comment-dropped': (F, "            if has_nl and (line or with_comments[i+1] or not self.in_arguments):", "            if has_nl and (with_comments[i+1] or not self.in_arguments):"),
 'M7-fstring-always-plain': (F, "            if node.is_fstring and '@' not in node.value:", "            if node.is_fstring:"),
 'M8-space-after-overwrites-comment': (F, """        if not node.whitespaces.value:
            node.whitespaces.value = ' '
        elif '#' not in node.whitespaces.value:
            node.whitespaces.value = ' '""", """        node.whitespaces.value = ' '"""),
 'M9-files-flatten-ignores-kwargs': (F, "            if len(node.args.arguments) == 1 and not node.args.kwargs:", "            if len(node.args.arguments) == 1:"),
 'M12-output-ignores-eol': (F, "                with options.output.open('w', encoding='utf-8', newline=formatter.current_config.newline) as of:", "                with options.output.open('w', encoding='utf-8') as of:"),
 'M15-paren-multiline-detector-off': (F, "            if ml_detector.last_whitespaces and '\\n' in ml_detector.last_whitespaces.value:", "            if False:"),
 'M16-fstring-guard-wrong-char': (F, "            if node.is_fstring and '@' not in node.value:", "            if node.is_fstring and '@@' not in node.value:"),
 'M17-recursive-skips-nested': (F, "                self.subdirs.append(self.current_dir / subdir)", "                self.subdirs.append(Path(subdir))"),
 'M18-inplace-writes-only-if-check-differs': (F, """        if options.inplace:
            try:""", """        if options.inplace and code.split() != formatted.split():
            try:"""),
}
