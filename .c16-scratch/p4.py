import sys, random, collections, time, os, pickle
sys.path.insert(0,'/verif'); sys.path.insert(0,'/verif/.c16-scratch')
from mini import *
mlog._logger.log_disable_stdout = True
N=int(sys.argv[1]); seed0=int(sys.argv[2]); want=sys.argv[3]; nex=int(sys.argv[4]) if len(sys.argv)>4 else 6
default_only = os.environ.get('DEF')=='1'
cfgs = [dict(G.DEFAULT_CONFIG)] if default_only else G.configs(random.Random(1),2)
fm=[mk(c) for c in cfgs]
found=[]
for i in range(N):
    rng=random.Random(seed0+i)
    g=G.Gen(rng, noise=rng.choice((0,0.2,0.5,0.8)), foreign=False, ml_backslash=False, size=3)
    text=''.join(g.program())
    ci=i%len(cfgs)
    r=mechs(text,cfgs[ci],fm[ci])
    if r and want in r[0]:
        found.append((text,cfgs[ci]))
        if len(found)>=nex: break
seen=set()
for text,cfg in found:
    mt=minimise(text,cfg,want)
    c2=dict(cfg)
    for k in list(c2):
        if c2[k]!=G.DEFAULT_CONFIG[k]:
            c3=dict(c2); c3[k]=G.DEFAULT_CONFIG[k]
            rr=mechs(mt,c3,mk(c3))
            if rr and want in rr[0]: c2=c3
    if mt in seen: continue
    seen.add(mt)
    r=mechs(mt,c2,mk(c2))
    print('cfg',{k:v for k,v in c2.items() if v!=G.DEFAULT_CONFIG[k]}); print('IN  ',repr(mt)); print('OUT ',repr(r[1])); print('OUT2',repr(r[2])); print(r[0]); print()
