import sys, os, json, random, re
sys.path.insert(0,'/verif')
from vf.checks import c16
from vf import common, runner
chk = common.Check('C16')
c16.silence_mlog()
mech=sys.argv[1]
for line in open(sys.argv[2]):
    if not line.startswith(mech+' {'): continue
    w=json.loads(line[len(mech)+1:])
    cfg=dict(c16.G.DEFAULT_CONFIG); cfg.update(w['config'])
    root = common.scratch_dir('c16')
    open(os.path.join(root, '.editorconfig'),'w').write('root = true\n')
    c16.ENV = c16.Env(root, [dict(c16.G.DEFAULT_CONFIG), cfg], random.Random(0))
    c16._FMT.clear()
    t=c16.minimise(w['text'],1,mech,budget=120)
    # config minimise
    for k in list(w['config']):
        c2=dict(cfg); c2[k]=c16.G.DEFAULT_CONFIG[k]
        c16.ENV = c16.Env(root, [dict(c16.G.DEFAULT_CONFIG), c2], random.Random(0)); c16._FMT.clear()
        if any(m==mech for m,_,_ in c16.evaluate(t,1,{})): cfg=c2
    c16.ENV = c16.Env(root, [dict(c16.G.DEFAULT_CONFIG), cfg], random.Random(0)); c16._FMT.clear()
    out,out2,*_=c16.run_real(t,1,{})
    print(c16.cfg_brief(cfg)); print('IN  ',repr(t)); print('OUT ',repr(out)); print('OUT2',repr(out2)); print(c16.evaluate(t,1,{}))
