import sys, os
sys.path.insert(0,'/verif')
from vf.checks import c16
from vf import common, runner
import random, time, json
chk = common.Check('C16')
c16.silence_mlog(); runner.preload()
c16.ENV = c16.build_env(chk, 0)
c16.KNOWN=set(sys.argv[2:])
print(len(c16.ENV.cfgs),'configs')
c16.DEADLINE[0]=time.time()+1e6
kind=sys.argv[1]
t=time.time()
if kind=='gen': d=c16.dispatch(('gen',(0,int(os.environ.get('FIRST','0')),int(os.environ.get('N','40')),6)))
elif kind=='probes': d=c16.dispatch(('probes',0))
elif kind=='cli': d=c16.dispatch(('cli',(0,0,24)))
elif kind=='corpus':
    files=c16.G.corpus_files('/repo'); d=c16.dispatch(('corpus',(0,files[:60],1,1)))
print('wall',time.time()-t)
print(json.dumps({k:v for k,v in d['counts'].items() if not k.startswith('pass:')},indent=0)[:3000])
print(d['mechs'])
for m,ws in d['witnesses'].items():
    for w in ws[:1]: print(m, json.dumps(w,default=repr)[:700])
