import sys
sys.path.insert(0,'/verif')
from vf import common
common.use_repo()
from mesonbuild import mformat, mparser
from pathlib import Path
from vf.ref import refmeson as R
def fmt(text, **kw):
    f = mformat.Formatter(None, False, False)
    for k,v in kw.items(): setattr(f.config,k,v)
    return f.format(text, Path('/nonexistent/meson.build'))
tests = [
 "x = '''a\\nb'''\n",
 "x = '''a\\\\b'''\n",
 "x = '''a\\'''\n" if False else "x = '''a\\ '''\n",
 "x = f'''a@b@\\n'''\n",
 "x = files([['a']])\n",
 "x = files(['b', 'a'])\n",
 "x = files('b', # cb\n 'a', # ca\n)\n",
 "# a\x0cb\nx = 1\n",
 "# a\rb\nx = 1\n",
]
for t in tests:
    for kw in ({}, {'sort_files':True}):
        o = fmt(t, **kw)
        o2 = fmt(o, **kw)
        print(repr(t), kw, '->', repr(o), 'idem' if o==o2 else 'NONIDEM '+repr(o2))
        try:
            print('   sx', R.sexpr(R.parse(t)) == R.sexpr(R.parse(o)), R.comments(t)==R.comments(o), R.comments(t), R.comments(o))
        except Exception as e: print('   ERR', e)
