import sys, os, json, random
sys.path.insert(0,'/verif')
from vf.checks import c16
from vf import common, runner
chk = common.Check('C16')
c16.silence_mlog(); runner.preload()
c16.ENV = c16.build_env(chk, 0)
acc=c16.Acc()
for i in range(7,400,8):
    c16.cli_recursive(acc,i,0)
    if acc.mechs: break
print(acc.mechs)
for m,ws in acc.witnesses.items():
    w=ws[0]; print(m, json.dumps(w['detail'])[:3000]); print(json.dumps(w['config']))
    json.dump(w, open('/verif/.c16-scratch/recw.json','w'))
