import json, subprocess
F=[]
def add(mech, what, witness, fix='', note=None):
    d={'property':'C16','mechanism':mech,'status':'known','what':what,'witness':witness,'suggested_fix':fix}
    if note: d['note']=note
    F.append(d)
def fixdiff(name):
    try: return open(f'/verif/.c16-scratch/fix-{name}.diff').read()
    except FileNotFoundError: return ''
add('multiline-string-simplified-changes-escapes',
    "simplify_string_literals (default on) rewrites a triple-quoted (f)string that holds no newline and no quote into '...' but keeps the RAW body, so every backslash in it becomes the start of an escape sequence: the program's string value changes, and a body ending in a backslash yields an unterminated literal (output no longer parses)",
    {'text':"x = '''a\\nb'''\n",'config':{},'observed':"x = 'a\\nb'\n   -- value is now a<LF>b instead of a<backslash>nb",
     'also':["x = '''c:\\temp\\x41'''  ->  'c:\\temp\\x41'  (TAB, 'A')", "x = '''a\\'''  ->  x = 'a\\'   (does not parse)"]},
    fixdiff('string'))
add('files-nested-array-flattened-one-level-per-pass',
    "files([[...]]) is unwrapped one array level per run of `meson format`: format(format(x)) != format(x)",
    {'text':"x = files([['a.c']])\n",'config':{},'observed':"pass 1: x = files(['a.c'])   pass 2: x = files('a.c')"},
    fixdiff('files'))
add('files-array-sorted-only-on-second-pass',
    "with sort_files=true the arguments are sorted BEFORE files([...]) is unwrapped, so the array's items are only sorted by the next run: format(format(x)) != format(x)",
    {'text':"x = files(['b.c', 'a.c'])\n",'config':{'sort_files':True},'observed':"pass 1: x = files('b.c', 'a.c')   pass 2: x = files('a.c', 'b.c')"},
    fixdiff('files'))
add('files-flattening-drops-comment-after-array',
    "unwrapping files([...]) replaces the call's argument node by the array's and so drops the whitespace node after the `]` (and after the outer trailing comma): a comment placed there disappears from the file",
    {'text':"x = files(['a.c'] # why\n)\n",'config':{},'observed':"x = files('a.c')\n",'also':["x = files(['a.c'], # why\n)"]},
    fixdiff('files'))
add('files-trivia-only-array-flattened-on-later-pass',
    "files([ # comment ]) (an empty array holding only a comment or a continuation) is not unwrapped on the first round because of the comment after `[`, but TrimWhitespaces moves that whitespace node away, so a later round of the same run (when another line is too long) or the next run unwraps it and re-indents: format(format(x)) != format(x)",
    {'text':"v = files([#c\n])[[srcs, 'aaaaaaaaaaaaaaaaaaaaaaaaaaaaaaaaaaaaaa']].e()\n",'config':{'max_line_length':30},
     'observed':"pass 1: 'v = files(\n      #c\n)[[...'   pass 2: 'v = files(\n    #c\n    )[[...'"},
    fixdiff('files'))
add('continuation-after-open-bracket-relayouted-on-second-pass',
    "a backslash-newline continuation right after the opening bracket of an array/dict/call that is itself an argument makes only the inner list multi-line on the first run; its new trailing comma makes the OUTER call multi-line on the second run: format(format(x)) != format(x)",
    {'text':"x = f([ \\\n 'a'])\n",'config':{},'observed':"pass 1: x = f([ \\\n    'a',\n])   pass 2: x = f(\n    [ \\\n        'a',\n    ],\n)"},
    '', note='no small fix found; only continuations (legal but pointless inside brackets) trigger it, comments after the bracket are handled')
add('comment-split-at-non-lf-line-boundary',
    "the whitespace passes cut comment text with str.splitlines(), which also splits at CR, VT, FF, FS, GS, RS, NEL, U+2028, U+2029: the character is removed from the comment, and when it is the comment's last character the newline ending the comment is dropped inside an argument list, so the following tokens become part of the comment (meaning changed or output unparseable)",
    {'text':"f('--l' #\x1c\n, 'v')\n",'config':{},'observed':"f(\n    '--l'  #, 'v',\n)\n   -- does not parse; with another continuation the argument silently vanishes into the comment",
     'also':["# a\x0cb\nx = 1\n  ->  # ab"]},
    fixdiff('splitlines'))
add('indentation-unstable-inside-multiline-parentheses',
    "a closing bracket nested inside a parenthesised expression that the formatter breaks over several lines gets the wrong indentation on the first run and the right one on the second: format(format(x)) != format(x) (same tokens, only leading blanks differ)",
    {'text':"x = ((very_long_identifier_number_one + very_long_identifier_number_two + very_long_identifier_number_three))\n",'config':{},
     'observed':"pass 1 ends with '        ... three\\n)\\n)\\n', pass 2 with '        ... three\\n    )\\n)\\n'"},
    fixdiff('paren'), note='the suggested fix is PARTIAL: it repairs the closing `)` of a nested parenthesised expression (the most frequent shape, reachable with the default configuration); closing brackets of argument lists nested in multi-line parentheses (e.g. `({k: 1})` with kwargs_force_multiline, max_line_length = 0) stay unstable, so the finding stays listed after it')
add('single-argument-call-relayouted-on-second-pass',
    "no_single_comma_function=true: a one-argument call kept multi-line (because of its trailing comma, a comment or its length) is printed without trailing comma; the next run no longer sees a multi-line marker and joins it: format(format(x)) != format(x)",
    {'text':"f(a,)\n",'config':{'no_single_comma_function':True},'observed':"pass 1: f(\\n    a\\n)   pass 2: f(a)"},
    '', note='no small fix found (multi-line state of an argument list is re-derived on every run from the trailing comma)')
add('check-only-ignores-line-endings',
    "--check-only/--check-diff compare the universal-newline text only: they report 'nothing to do' (exit 0) for a file whose line endings differ from the configured end_of_line although --inplace rewrites that file",
    {'file_bytes':"x = 1\\n",'config':{'end_of_line':'crlf'},'observed':"meson format -q -> exit 0; meson format -i -> file becomes x = 1\\r\\n",
     'also':['CRLF file with end_of_line = native/lf on Linux: -q exits 0, -i rewrites to LF']},
    fixdiff('eol'))
json.dump({'findings':F}, open('/verif/known_findings.d/C16.json','w'), indent=1, ensure_ascii=True)
print(len(F))
