import sys, random, collections, time, os
sys.path.insert(0,'/verif')
from vf import common
common.use_repo()
from mesonbuild import mformat, mparser
from pathlib import Path
from vf.ref import refmeson as R
from vf.gen import gen_c16 as G
from vf.monitors import c16_contracts as C
from mesonbuild import mlog; mlog._logger.log_disable_stdout = True
N=int(sys.argv[1]); seed0=int(sys.argv[2]) if len(sys.argv)>2 else 0
cfgs = G.configs(random.Random(1), 2)
print(len(cfgs),'configs')
def mk(cfg):
    f = mformat.Formatter(None, False, False)
    for k,v in cfg.items():
        if k in ('editorconfig','ec_via_key'): continue
        setattr(f.config,k,v)
    return f
fm=[mk(c) for c in cfgs]
mech=collections.Counter(); ex={}
counts={}
t=time.time()
P=Path('/nonexistent/meson.build')
for i in range(N):
    rng=random.Random(seed0+i)
    text="".join(G.program(rng, None, float(os.environ.get("FR","0")), float(os.environ.get("MB","0"))))
    try: R.parse(text)
    except Exception: continue
    for j in range(3):
        ci=(i*3+j)%len(cfgs)
        cfg=cfgs[ci]; f=fm[ci]
        out=out2=exc=exc2=rpe=None
        try: out=f.format(text,P)
        except Exception as e: exc=repr(e)
        if out is not None:
            try: mparser.Parser(out,'x').parse()
            except Exception as e: rpe=repr(e)
            try: out2=f.format(out,P)
            except Exception as e: exc2=repr(e)
        vs=C.judge(text,out,out2,cfg,exc,exc2,rpe,counts)
        for v in vs:
            mech[v.mechanism]+=1
            if v.mechanism not in ex or len(text)<len(ex[v.mechanism][0]):
                ex[v.mechanism]=(text,cfg,v,out,out2)
print(time.time()-t)
for m,n in mech.most_common(): print(n,m)
print(counts)
import pickle
pickle.dump(ex,open('/verif/.c16-scratch/ex.pkl','wb'))
