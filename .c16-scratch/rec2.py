import sys, os, json, random, shutil
sys.path.insert(0,'/verif')
from vf.checks import c16
from vf import common, runner
from pathlib import Path
chk = common.Check('C16')
c16.silence_mlog(); runner.preload()
c16.ENV = c16.build_env(chk, 0)
w=json.load(open('/verif/.c16-scratch/recw.json'))
ci=[i for i,c in enumerate(c16.ENV.cfgs) if c16.cfg_brief(c)==w['config']][0]
e=c16.ENV.entries[ci]
sub=os.path.join(e['dir'],'recx')
runner.write_tree(sub, w['files'])
f=c16.formatter(ci)
rel='a/d/meson.build'
want=f.format(w['files'][rel], Path(os.path.join(sub,rel)))
print('eff', f.current_config)
r=runner.meson(['format','-e','-r','-i'],cwd=sub)
print(r.rc, r.out, r.err)
got=open(os.path.join(sub,rel)).read()
import difflib
print(''.join(difflib.unified_diff(want.splitlines(True), got.splitlines(True))))
want2=f.format(w['files'][rel], Path(rel))
print('relative same as CLI:', want2==got)
