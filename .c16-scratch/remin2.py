import sys, os, json, random, re
sys.path.insert(0,'/verif')
from vf.checks import c16
from vf import common, runner
chk = common.Check('C16')
c16.silence_mlog()
idx=int(sys.argv[1]); mech=sys.argv[2]; budget=float(sys.argv[3]) if len(sys.argv)>3 else 120
c16.ENV = c16.build_env(chk, 0)
text=''.join(c16.G.program(random.Random(f'C16:0:gen:{idx}')))
ncfg=len(c16.ENV.cfgs)
for ci in c16.pick_configs(idx,6,ncfg):
    res=c16.evaluate(text,ci,{})
    if any(m==mech for m,_,_ in res):
        cfg=c16.ENV.cfgs[ci]
        t=c16.minimise(text,ci,mech,budget=budget)
        root=c16.ENV.root
        for k in list(c16.cfg_brief(cfg)):
            c2=dict(cfg); c2[k]=c16.G.DEFAULT_CONFIG[k]
            if c2.get('editorconfig') is None: c2['ec_via_key']=False
            os.makedirs(root+'/x',exist_ok=True)
            c16.ENV = c16.Env(root+'/x', [dict(c16.G.DEFAULT_CONFIG), c2], random.Random(0)); c16._FMT.clear()
            if any(m==mech for m,_,_ in c16.evaluate(t,1,{})): cfg=c2
        c16.ENV = c16.Env(root+'/x', [dict(c16.G.DEFAULT_CONFIG), cfg], random.Random(0)); c16._FMT.clear()
        out,out2,*_=c16.run_real(t,1,{})
        print(c16.cfg_brief(cfg)); print('IN  ',repr(t)); print('OUT ',repr(out)); print('OUT2',repr(out2)); print(c16.evaluate(t,1,{}))
        break
