import sys
sys.path.insert(0,'/verif'); sys.path.insert(0,'/verif/.c16-scratch')
from mini import *
mlog._logger.log_disable_stdout = True
cfg=dict(G.DEFAULT_CONFIG)
import ast
for k,v in [a.split('=',1) for a in sys.argv[1:] if '=' in a and not a.startswith('T:')]:
    cfg[k]=ast.literal_eval(v)
f=mk(cfg)
for t in [a[2:] for a in sys.argv[1:] if a.startswith('T:')]:
    t=ast.literal_eval('"'+t.replace('"','\\"')+'"')
    r=mechs(t,cfg,f)
    print('IN  ',repr(t));
    if not r: print('  unparseable input'); continue
    print('OUT ',repr(r[1])); print('OUT2',repr(r[2])); print(r[0]); print()
