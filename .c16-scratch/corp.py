import sys, os, json, time
sys.path.insert(0,'/verif')
from vf.checks import c16
from vf import common, runner
chk = common.Check('C16')
c16.silence_mlog()
c16.ENV = c16.build_env(chk, 0)
c16.KNOWN=set(chk.known)
c16.DEADLINE[0]=time.time()+1e6
part=int(sys.argv[1]); nparts=int(sys.argv[2]); nmut=int(sys.argv[3]); per=int(sys.argv[4])
files=c16.G.corpus_files(common.REPO)[part::nparts]
d=c16.dispatch(('corpus',(chk.seed,files,nmut,per)))
print({k:v for k,v in d['counts'].items() if not k.startswith('pass:')})
print(d['mechs'])
for m,ws in d['witnesses'].items():
    if m not in c16.KNOWN:
        for w in ws: print('UNKNOWN', m, json.dumps(w)[:3000])
