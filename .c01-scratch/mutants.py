"""Mutation validation driver for C01 (scratch; not part of the check)."""
import os, subprocess, sys, time, json
MUTANTS = [
 ('M1-swap-e5-e6', 'mesonbuild/mparser.py', [
   ("""    def e5(self) -> BaseNode:
        left = self.e6()""", """    def e5(self) -> BaseNode:
        left = self.e7()"""),
   ("""                left = self.create_node(ArithmeticNode, ADDSUB_MAP[op], left, operator, self.e6())""",
    """                left = self.create_node(ArithmeticNode, ADDSUB_MAP[op], left, operator, self.e7())"""),
   ("""    def e4(self) -> BaseNode:
        left = self.e5()""", """    def e4(self) -> BaseNode:
        left = self.e6()"""),
   ("""            return self.create_node(ComparisonNode, COMPARISON_MAP[op], left, operator, self.e5())
        if self.accept('not'):""", """            return self.create_node(ComparisonNode, COMPARISON_MAP[op], left, operator, self.e6())
        if self.accept('not'):"""),
   ("""                return self.create_node(ComparisonNode, 'not in', left, operator, self.e5())""",
    """                return self.create_node(ComparisonNode, 'not in', left, operator, self.e6())"""),
   ("""    def e6(self) -> BaseNode:
        left = self.e7()""", """    def e6(self) -> BaseNode:
        left = self.e5()"""),
   ("""                left = self.create_node(ArithmeticNode, MULDIV_MAP[op], left, operator, self.e7())""",
    """                left = self.create_node(ArithmeticNode, MULDIV_MAP[op], left, operator, self.e5())"""),
 ]),
 ('M2-e4-chains', 'mesonbuild/mparser.py', [
   ("""        left = self.e5()
        op = self.accept_any(COMPARISON_MAP)
        if op:
            operator = self.create_node(SymbolNode, self.previous)
            return self.create_node(ComparisonNode, COMPARISON_MAP[op], left, operator, self.e5())""",
    """        left = self.e5()
        op = self.accept_any(COMPARISON_MAP)
        while op:
            operator = self.create_node(SymbolNode, self.previous)
            left = self.create_node(ComparisonNode, COMPARISON_MAP[op], left, operator, self.e5())
            op = self.accept_any(COMPARISON_MAP)
            if not op:
                return left"""),
 ]),
 ('M3-no-in_ternary-check', 'mesonbuild/mparser.py', [
   ("""            if self.in_ternary:
                raise ParseException""", """            if False:
                raise ParseException"""),
 ]),
 ('M4-and-evaluates-right-first', 'mesonbuild/interpreterbase/interpreterbase.py', [
   ("""    def evaluate_andstatement(self, cur: mparser.AndNode) -> InterpreterObject:
        l = self.evaluate_statement(cur.left)""", """    def evaluate_andstatement(self, cur: mparser.AndNode) -> InterpreterObject:
        r0 = self.evaluate_statement(cur.right)
        l = self.evaluate_statement(cur.left)"""),
 ]),
 ('M5-div-truncates', 'mesonbuild/interpreter/primitives/integer.py', [
   ("""        return self.held_object // other""", """        return int(self.held_object / other)"""),
 ]),
 ('M6a-plus-empty-rhs-returns-same-list', 'mesonbuild/interpreter/primitives/array.py', [
   ("""            other = [other]
        return self.held_object + other""", """            other = [other]
        if not other:
            return self.held_object
        self.held_object.extend(other)
        return self.held_object"""),
 ]),
 ('M6b-plusassign-extends-in-place', 'mesonbuild/interpreter/primitives/array.py', [
   ("""            other = [other]
        return self.held_object + other""", """            other = [other]
        if isinstance(self.current_node, PlusAssignmentNode):
            self.held_object.extend(other)
            return self.held_object
        return self.held_object + other"""),
 ]),
 ('M7-escapes-in-multiline', 'mesonbuild/mparser.py', [
   ("""        if escape and not self.is_multiline:""", """        if escape:"""),
 ]),
 ('M8-unsorted-keys', 'mesonbuild/interpreter/primitives/dict.py', [
   ("""        return sorted(self.held_object)""", """        return list(self.held_object)"""),
 ]),
 ('M9-str-plus-int', 'mesonbuild/interpreter/primitives/string.py', [
   ("""        MesonOperator.PLUS: (str, lambda obj, x: obj.held_object + x),""",
    """        MesonOperator.PLUS: ((str, int), lambda obj, x: obj.held_object + str(x)),"""),
 ]),
 ('M10-negative-index-off-by-one', 'mesonbuild/interpreter/primitives/array.py', [
   ("""        try:
            return self.held_object[other]
        except IndexError:""", """        try:
            return self.held_object[other - 1 if other < -1 else other]
        except IndexError:"""),
 ]),
 ('S1-mod-sign-of-dividend', 'mesonbuild/interpreter/primitives/integer.py', [
   ("""        return self.held_object % other""", """        import math
        return int(math.fmod(self.held_object, other))"""),
 ]),
 ('S2-format-sequential-replace', 'mesonbuild/interpreter/primitives/string.py', [
   ("""        return re.sub(r'@(\\d+)@', arg_replace, self.held_object)""",
    """        res = self.held_object
        for i, a in enumerate(arg_strings):
            res = res.replace(f'@{i}@', a)
        return res"""),
 ]),
 ('S3-dict-plus-left-wins', 'mesonbuild/interpreter/primitives/dict.py', [
   ("""        MesonOperator.PLUS: (dict, lambda obj, x: {**obj.held_object, **x}),""",
    """        MesonOperator.PLUS: (dict, lambda obj, x: {**x, **obj.held_object}),"""),
 ]),
 ('S4-str-in-reversed', 'mesonbuild/interpreter/primitives/string.py', [
   ("""    def op_in(self, other: str) -> bool:
        return other in self.held_object""", """    def op_in(self, other: str) -> bool:
        return self.held_object in other"""),
 ]),
 ('S5-break-acts-as-continue', 'mesonbuild/interpreterbase/interpreterbase.py', [
   ("""            except BreakRequest:
                break""", """            except BreakRequest:
                continue"""),
 ]),
 ('S6-array-get-lower-bound', 'mesonbuild/interpreter/primitives/array.py', [
   ("""        if index < -len(self.held_object) or index >= len(self.held_object):""",
    """        if index <= -len(self.held_object) or index >= len(self.held_object):"""),
 ]),
 ('S7-fstring-nested-quote', 'mesonbuild/interpreterbase/helpers.py', [
   ("""        l = ['{} : {}'.format(stringifyUserArguments(k, subproject, True),""",
    """        l = ['{}: {}'.format(stringifyUserArguments(k, subproject, True),"""),
 ]),
 ('S8-assignment-shares-holder-list', 'mesonbuild/interpreterbase/interpreterbase.py', [
   ("""        new_value = self._holderify(old_variable.operator_call(MesonOperator.PLUS, _unholder(addition)))
        self.set_variable(varname, new_value)""",
    """        res = old_variable.operator_call(MesonOperator.PLUS, _unholder(addition))
        if isinstance(res, dict) and isinstance(old_variable.held_object, dict):
            old_variable.held_object.update(res)
            res = old_variable.held_object
        new_value = self._holderify(res)
        self.set_variable(varname, new_value)"""),
 ]),
 ('T4-le-is-lt', 'mesonbuild/interpreter/primitives/integer.py', [
   ("""        MesonOperator.LESS_EQUALS: (int, lambda obj, x: obj.held_object <= x),""",
    """        MesonOperator.LESS_EQUALS: (int, lambda obj, x: obj.held_object < x),"""),
 ]),
 ('T5-elif-conditions-all-evaluated', 'mesonbuild/interpreterbase/interpreterbase.py', [
   ("""    def evaluate_if(self, node: mparser.IfClauseNode) -> T.Optional[Disabler]:
        for i in node.ifs:""", """    def evaluate_if(self, node: mparser.IfClauseNode) -> T.Optional[Disabler]:
        for i in node.ifs[1:]:
            self.evaluate_statement(i.condition)
        for i in node.ifs:"""),
 ]),
 ('T6-foreach-dict-sorted', 'mesonbuild/interpreter/primitives/dict.py', [
   ("""        return iter(self.held_object.items())""", """        return iter(sorted(self.held_object.items()))"""),
 ]),
 ('T18-dict-get-falsy-fallback', 'mesonbuild/interpreter/primitives/dict.py', [
   ("""        if args[1] is not None:
            return args[1]""", """        if args[1]:
            return args[1]"""),
 ]),
 ('T19-get_variable-falsy-fallback', 'mesonbuild/interpreter/interpreter.py', [
   ("""            if fallback is not None:
                return self._holderify(fallback)
        ustr = f'Tried to get unknown variable "{varname}".'""", """            if fallback:
                return self._holderify(fallback)
        ustr = f'Tried to get unknown variable "{varname}".'"""),
 ]),
 ('T23-subdir-not-restored', 'mesonbuild/interpreterbase/interpreterbase.py', [
   ("""        finally:
            self.subdir = prev_subdir
""", """        finally:
            pass
"""),
 ]),
 ('T31-str-eq-case-insensitive', 'mesonbuild/interpreter/primitives/string.py', [
   ("""        MesonOperator.EQUALS: (str, lambda obj, x: obj.held_object == x),""",
    """        MesonOperator.EQUALS: (str, lambda obj, x: obj.held_object.lower() == x.lower()),"""),
 ]),
 ('T32-dict-eq-order-sensitive', 'mesonbuild/interpreter/primitives/dict.py', [
   ("""        MesonOperator.EQUALS: (dict, lambda obj, x: obj.held_object == x),""",
    """        MesonOperator.EQUALS: (dict, lambda obj, x: list(obj.held_object.items()) == list(x.items())),"""),
 ]),
 ('T33-ternary-evaluates-both', 'mesonbuild/interpreterbase/interpreterbase.py', [
   ("""        if result_bool:
            return self.evaluate_statement(node.trueblock)
        else:
            return self.evaluate_statement(node.falseblock)""", """        a = self.evaluate_statement(node.trueblock)
        b = self.evaluate_statement(node.falseblock)
        return a if result_bool else b"""),
 ]),
 ('T34-octal-escape-two-digits', 'mesonbuild/mparser.py', [
   ("[0-7]{1,3}        # Octal escapes", "[0-7]{1,2}        # Octal escapes"),
 ]),
 ('T35-fstring-multiline-decoded', 'mesonbuild/mparser.py', [
   ("""        self.is_multiline = 'multiline' in token.tid""", """        self.is_multiline = token.tid == 'multiline_string'"""),
 ]),
]

def sh(cmd, **kw):
    return subprocess.run(cmd, shell=True, stdout=subprocess.PIPE, stderr=subprocess.STDOUT, text=True, **kw)

def main():
    which = sys.argv[1:]
    tier = os.environ.get('MUT_TIER', 'quick')
    out = {}
    for name, path, edits in MUTANTS:
        if which and not any(w in name for w in which):
            continue
        wt = f'/tmp/wt-C01-{name}'
        sh(f'git -C /repo worktree remove --force {wt}; rm -rf {wt}')
        r = sh(f'git -C /repo worktree add --detach {wt}')
        try:
            p = os.path.join(wt, path)
            s = open(p, encoding='utf-8').read()
            for old, new in edits:
                if old not in s:
                    print(name, 'EDIT DOES NOT APPLY:', old[:60]); raise SystemExit(2)
                s = s.replace(old, new, 1)
            open(p, 'w', encoding='utf-8').write(s)
            t = time.time()
            r = sh(f'cd /verif && VERIF_REPO={wt} VERIF_JOBS={os.environ.get("VERIF_JOBS", "6")} ./check C01 --tier {tier}')
            wall = time.time() - t
            viol = [l for l in r.stdout.split('\n') if l.startswith('  mechanism=')]
            mechs = sorted(set(l.split()[0].split('=', 1)[1] for l in viol))
            pt = sh(f'cd {wt} && /venv/bin/python -m pytest -q -p no:cacheprovider unittests/cargotests.py unittests/optiontests.py unittests/taptests.py unittests/versiontests.py 2>&1 | tail -1')
            out[name] = {'rc': r.returncode, 'wall': round(wall), 'mechanisms': mechs[:6], 'pytest': pt.stdout.strip()[-60:]}
            print(name, json.dumps(out[name]), flush=True)
        finally:
            sh(f'git -C /repo worktree remove --force {wt}; rm -rf {wt}')
    json.dump(out, open(f'/verif/.c01-scratch/mutants-{tier}.json', 'a'), indent=1)

main()
