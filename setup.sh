#!/bin/sh
# setup_cmd: offline install of the contract libraries next to the repository's interpreter,
# then the self-tests of the trusted tools (mini-ninja).
here="$(cd "$(dirname "$0")" && pwd)"
cd "$here" || exit 2
if [ ! -d .deps/icontract ]; then
  PIP_NO_INDEX=1 /venv/bin/pip install -q --no-index --find-links /opt/veriftools/wheels --target .deps icontract deal || exit 1
fi
if [ -f tools/ninja_selftest.py ]; then
  /venv/bin/python tools/ninja_selftest.py || exit 1
fi
echo "setup ok"
