#!/venv/bin/python3 -SE
"""C03 dumper: records exactly what a process was started with.

Appends ONE JSON line per invocation to the log named by $C03_DUMP_LOG (else ./c03_dump.log):
  {"prog": <basename of argv[0]>, "id": ..., "argv": [...], "env": {DUMP_*...}, "cwd": ..., "rsp": {path: content},
   "stdin": <bytes read, only when asked>}
Every string is the process's bytes decoded as latin-1 (byte-exact, JSON-safe).

Modes, chosen by the name it is invoked under:
 * anything else ("dumper.py"): generic step.  id = argv[1] if it starts with "ID:" else $DUMP_ID else "?".
   Flags after a second colon of the id ("ID:name:sc"): s = read stdin to EOF and record it, c = print
   "captured:<name>" on stdout (for capture: true steps).  Files named after the LAST literal "--outs"
   argument are created (the outputs the step should produce); $DUMP_OUTS (os.pathsep separated) likewise.
 * cc / gcc / c++ / g++ (compiler or linker driver found through a PATH prefix at build time only):
   id = "cc"; creates the -o output and the -MF depfile; for an @file argument records the response
   file's bytes (ninja deletes it afterwards) and creates <file minus .rsp> (meson: rspfile = $out.rsp).
 * ar / gcc-ar: id = "ar"; creates argv[2] (ar csrDT lib.a objs...) or the rsp-derived output.
Imports only os/sys/json; never fails the step because of logging problems it can avoid.
"""
import json
import os
import sys


def b2s(b):
    return b.decode('latin-1')


def touch(path, content=b''):
    try:
        d = os.path.dirname(path)
        if d:
            os.makedirs(d, exist_ok=True)
        with open(path, 'ab') as f:
            if content:
                f.write(content)
    except OSError:
        pass


def main():
    argv = [os.fsencode(a) for a in sys.argv]
    prog = os.path.basename(argv[0])
    rec = {'prog': b2s(prog), 'argv': [b2s(a) for a in argv[1:]], 'cwd': b2s(os.fsencode(os.getcwd()))}
    env = {}
    for k, v in os.environb.items():
        if k.startswith(b'DUMP_'):
            env[b2s(k)] = b2s(v)
    rec['env'] = env
    args = argv[1:]
    outs = []
    if prog in (b'cc', b'gcc', b'c++', b'g++', b'ar', b'gcc-ar'):
        is_ar = prog in (b'ar', b'gcc-ar')
        rec['id'] = 'ar' if is_ar else 'cc'
        rsp = {}
        for i, a in enumerate(args):
            if a.startswith(b'@') and len(a) > 1:
                try:
                    with open(a[1:], 'rb') as f:
                        rsp[b2s(a[1:])] = b2s(f.read())
                    if a.endswith(b'.rsp'):
                        outs.append(a[1:-4])
                except OSError:
                    pass
            if not is_ar and a == b'-o' and i + 1 < len(args):
                outs.append(args[i + 1])
            if not is_ar and a == b'-MF' and i + 1 < len(args):
                outs.append(args[i + 1])
        if is_ar and len(args) >= 2 and not args[1].startswith(b'@'):
            outs.append(args[1])
        if rsp:
            rec['rsp'] = rsp
    else:
        ident = None
        flags = b''
        if args and args[0].startswith(b'ID:'):
            parts = args[0].split(b':')
            ident = parts[1]
            if len(parts) > 2:
                flags = parts[2]
        elif b'DUMP_ID' in os.environb:
            ident = os.environb[b'DUMP_ID']
        rec['id'] = b2s(ident) if ident is not None else '?'
        if b'--outs' in args:
            k = len(args) - 1 - args[::-1].index(b'--outs')
            outs += args[k + 1:]
        if os.environb.get(b'DUMP_OUTS'):
            outs += os.environb[b'DUMP_OUTS'].split(os.fsencode(os.pathsep))
        if b's' in flags:
            try:
                rec['stdin'] = b2s(sys.stdin.buffer.read())
            except (OSError, ValueError):
                rec['stdin'] = None
        if b'c' in flags:
            sys.stdout.write('captured:' + rec['id'] + '\n')
            sys.stdout.flush()
    for o in outs:
        if o:
            touch(o)
    log = os.environb.get(b'C03_DUMP_LOG') or b'c03_dump.log'
    line = (json.dumps(rec, ensure_ascii=True) + '\n').encode('ascii')
    fd = os.open(log, os.O_WRONLY | os.O_CREAT | os.O_APPEND, 0o644)
    try:
        os.write(fd, line)
    finally:
        os.close(fd)
    return 0


if __name__ == '__main__':
    sys.exit(main())
