#!/venv/bin/python
"""Prints the prompt for an independent 'seeded break' agent for one property (only the property text)."""
import json, sys
pid = sys.argv[1]
for line in open('/verif/properties.jsonl'):
    p = json.loads(line)
    if p['id'] == pid:
        break
wt = f'/tmp/seed-{pid}'
print(f"""You are testing how well a verification effort can detect regressions in the Meson build system (mesonbuild/meson, pure Python). You work ONLY inside your own scratch git worktree of the repository: {wt} (already created; `git -C {wt} status` works). Do not read or touch /repo, /verif or any other directory than {wt} and your own files under {wt}/_out.

The property (a semantic guarantee users rely on):

TITLE: {p['title']}
STATEMENT: {p['statement']}
QUANTIFIED OVER: {p['quantifier']['text']}

Your task: produce TWO different, realistic source changes to the meson code base (under {wt}/mesonbuild), each of which BREAKS this property, while:
 * the code still imports/compiles, and the project's pinned unit tests still pass:  cd {wt} && /venv/bin/python -m pytest -q -p no:cacheprovider unittests/cargotests.py unittests/optiontests.py unittests/taptests.py unittests/versiontests.py   (107 tests; all must pass with your change applied);
 * the breakage needs something SPECIFIC to manifest — a particular interleaving, a crash/fault at a particular point, a multi-step sequence of operations, an unusual input, or two cooperating sites that each look fine alone — NOT something ordinary use would expose at once (a change that breaks every build or every call is useless);
 * each change looks like a plausible refactoring/optimisation/bug a maintainer could introduce (small: typically 1-15 changed lines), and the two changes use different mechanisms in different code paths.

For each change k in {{1,2}} deliver under {wt}/_out/k/:
 * patch.diff — `git diff` of the change against the worktree's HEAD (only files under mesonbuild/), applies with `git apply` from the repository root;
 * demo.py (or demo.sh) — a self-contained demonstration run as `/venv/bin/python demo.py <repo_root>` that exits 0 (prints PASS) when the property holds on that repo root and exits 1 (prints FAIL and what was observed) when it does not: it must FAIL with your change applied and PASS without it. It must use the code of <repo_root> (e.g. sys.path.insert(0, repo_root) for in-process calls, or run `<repo_root>/meson.py ...` with /venv/bin/python), create its scratch files in a tempfile directory and clean up;
 * README.md — which part of the property is broken, the mechanism, exactly what is needed for the breakage to manifest, and the commands you ran with their results (pinned tests with the change: N passed; demo without the change: PASS; demo with the change: FAIL).
Verify all of that yourself before finishing: apply patch → run pinned tests → run demo (must FAIL) → `git -C {wt} checkout -- mesonbuild` → run demo (must PASS). Leave the worktree clean (no change applied) at the end; keep only {wt}/_out.

Environment facts: Python is /venv/bin/python (3.12) with meson's dependencies; gcc 12, ar, pkg-config, strace exist; there is no network and NO `ninja` binary: `meson setup` with the ninja backend only needs `ninja --version`, so a two-line shell stub printing `1.11.1` exported as env NINJA=<stub> is enough to generate build.ninja (builds cannot be executed with it); `--backend=none` works for projects without build targets. Running meson from the worktree: `/venv/bin/python {wt}/meson.py setup ...`.
Your final message: a short summary of the two changes (files/functions touched, what is needed to trigger, results of your verification).""")
