#!/venv/bin/python
"""Self-test of mini-ninja against cases derived from the Ninja manual. Run by setup.sh."""
import io
import os
import shutil
import sys
import tempfile

sys.path.insert(0, os.path.dirname(os.path.dirname(os.path.abspath(__file__))))
from vf import mininja as mn  # noqa: E402

fails = []


def check(name, cond, info=''):
    if not cond:
        fails.append(f'{name}: {info}')


def parse(text):
    return mn.parse_manifest_text(text)


# 1. manual: variables and shadowing on a build block
m = parse('''cflags = -Wall
rule cc
  command = gcc $cflags -c $in -o $out
build foo.o: cc foo.c
build special.o: cc special.c
  cflags = -O2
''')
check('vars1', m.edges[0].get('command') == 'gcc -Wall -c foo.c -o foo.o', m.edges[0].get('command'))
check('vars2', m.edges[1].get('command') == 'gcc -O2 -c special.c -o special.o', m.edges[1].get('command'))

# 2. escapes
m = parse('''rule r
  command = echo $$HOME ${x}y $x.c $in_newline > $out
x = a$ b$:c
build out$ put: r in$ 1 in2 | imp || oo
  description = D $x
''')
e = m.edges[0]
check('esc-out', e.outputs == ['out put'], e.outputs)
check('esc-in', e.inputs == ['in 1', 'in2'] and e.implicit == ['imp'] and e.order_only == ['oo'], (e.inputs, e.implicit, e.order_only))
check('esc-cmd', e.get('command') == "echo $HOME a b:cy a b:c.c 'in 1'\nin2 > 'out put'", repr(e.get('command')))
check('esc-desc', e.get('description') == 'D a b:c')

# 3. continuation
m = parse('''rule r
  command = a $
      b $
      c
build o: $
   r $
   i1 $
   i2
''')
check('cont-cmd', m.edges[0].get('command') == 'a b c', repr(m.edges[0].get('command')))
check('cont-build', m.edges[0].inputs == ['i1', 'i2'])

# 4. implicit outputs, validations, default, pool, phony
m = parse('''pool link
  depth = 2
rule r
  command = x
  pool = link
build a | a.side: r s1
build b: phony a
build c: r s2 |@ v
build v: r s3
default b c
''')
check('impout', m.edges[0].implicit_outputs == ['a.side'] and m.producer['a.side'] is m.edges[0])
check('valid', m.edges[2].validations == ['v'])
check('default', m.defaults == ['b', 'c'])
check('pool', m.pools['link'] == 2 and m.edges[0].get('pool') == 'link')
check('phony', m.edges[1].is_phony)
check('reach', m.reachable_edges(['b']) == {0, 1})

# 5. errors
for name, text in [
    ('unknown-rule', 'build a: nope b\n'),
    ('dup-rule', 'rule r\n  command = x\nrule r\n  command = y\n'),
    ('no-command', 'rule r\n  description = x\n'),
    ('bad-escape', 'rule r\n  command = $\x01\n'),
    ('unknown-pool', 'rule r\n  command = x\n  pool = p\nbuild a: r\n'),
    ('tab', 'rule r\n\tcommand = x\n'),
    ('rsp-half', 'rule r\n  command = x\n  rspfile = y\n'),
    ('bad-rule-var', 'rule r\n  command = x\n  foo = y\n'),
    ('unknown-default', 'rule r\n  command = x\nbuild a: r\ndefault zzz\n'),
]:
    try:
        parse(text)
        check(name, False, 'accepted')
    except mn.ManifestError:
        pass

# 6. duplicate outputs and cycles
m = parse('rule r\n  command = x\nbuild a: r\nbuild a: r\n')
check('dup-out', m.duplicate_outputs == [('a', 0, 1)], m.duplicate_outputs)
m = parse('rule r\n  command = x\nbuild a: r b\nbuild b: r c\nbuild c: r a\n')
check('cycle', m.find_cycle() is not None)
m = parse('rule r\n  command = x\nbuild a: r b\nbuild b: r c\n')
check('nocycle', m.find_cycle() is None)
check('ancestors', m.ancestors(m.edges[0]) == {1})

# 7. canonicalisation
check('canon', [mn.canon(p) for p in ['./a', 'a//b', 'a/./b', 'a/../b', '../a', '/a/../b', 'a/b/..', '.']] ==
      ['a', 'a/b', 'a/b', 'b', '../a', '/b', 'a', '.'], [mn.canon(p) for p in ['./a', 'a//b', 'a/./b', 'a/../b', '../a', '/a/../b', 'a/b/..', '.']])

# 8. rule variable lookup order: edge > rule > file; rule vars referencing each other
m = parse('''v = file
w = filew
rule r
  command = $msg
  description = $v $w
build a: r
  msg = $v
build b: r
  v = edge
  msg = m
''')
check('order-a', m.edges[0].get('command') == 'file' and m.edges[0].get('description') == 'file filew')
check('order-b', m.edges[1].get('description') == 'edge filew')

# 9. include / subninja scoping and execution with rsp files under several schedules
d = tempfile.mkdtemp(prefix='mn-selftest-')
try:
    with open(os.path.join(d, 'rules.ninja'), 'w') as f:
        f.write('rule cat\n  command = cat $in > $out\nrule rsp\n  command = cat $out.rsp > $out\n  rspfile = $out.rsp\n  rspfile_content = $in $extra\n')
    with open(os.path.join(d, 'sub.ninja'), 'w') as f:
        f.write('subvar = 1\nbuild sub/o: cat s1\n')
    with open(os.path.join(d, 'build.ninja'), 'w') as f:
        f.write('include rules.ninja\nsubninja sub.ninja\nbuild x: cat s1 s2\nbuild y: cat x sub/o || z\nbuild z: rsp s2\n  extra = E$ E\nbuild all: phony y\ndefault all\n')
    for n, c in (('s1', 'one\n'), ('s2', 'two\n')):
        with open(os.path.join(d, n), 'w') as f:
            f.write(c)
    m = mn.parse_manifest('build.ninja', cwd=d)
    check('subninja-scope', m.root.lookup('subvar') == '', 'subninja variable leaked')
    orders = set()
    for pol in mn.Executor.POLICIES:
        for seed in range(3):
            for o in ('x', 'y', 'z', 'sub/o', 'z.rsp'):
                try:
                    os.unlink(os.path.join(d, o))
                except OSError:
                    pass
            buf = io.StringIO()
            ex = mn.Executor(m, d, jobs=1 + seed, policy=pol, seed=seed, out=buf)
            rc = ex.run([])
            check(f'exec-{pol}-{seed}', rc == 0, buf.getvalue())
            orders.add(tuple(ex.order))
            check(f'content-{pol}', open(os.path.join(d, 'y')).read() == 'one\ntwo\none\n')
            check(f'rsp-{pol}', open(os.path.join(d, 'z')).read() == 's2 E E')
            check(f'rsp-removed-{pol}', not os.path.exists(os.path.join(d, 'z.rsp')))
            pos = {e: i for i, e in enumerate(ex.order)}
            for e in m.edges:
                if e.idx in pos:
                    for p in m.edge_deps(e):
                        if p.idx in pos:
                            check('topo', pos[p.idx] < pos[e.idx])
    check('schedules-differ', len(orders) >= 2, orders)
    # incremental: nothing to do
    buf = io.StringIO()
    rc = mn.Executor(m, d, out=buf).run([])
    check('noop', rc == 0 and 'no work to do' in buf.getvalue(), buf.getvalue())
    # failure
    with open(os.path.join(d, 'build.ninja'), 'a') as f:
        f.write('rule bad\n  command = false\nbuild w: bad s1\n')
    m = mn.parse_manifest('build.ninja', cwd=d)
    buf = io.StringIO()
    check('fail', mn.Executor(m, d, out=buf).run(['w']) == 1)
    try:
        mn.Executor(m, d, out=buf).run(['nonexistent'])
        check('unknown-target', False)
    except mn.BuildFailure:
        pass
finally:
    shutil.rmtree(d, ignore_errors=True)

if fails:
    print('mini-ninja self-test FAILED:')
    for f in fails:
        print('  ', f)
    sys.exit(1)
print('mini-ninja self-test ok')
