#!/venv/bin/python
"""Mutation validation helper (DESIGN.md 1.7).

usage: tools/muttest.py <spec.json> [--tier quick] [--only name]
spec: [{"property": "C08", "name": "no-prev-restore", "file": "mesonbuild/msetup.py", "old": "...", "new": "..."} , ...]
      or {"property":..., "name":..., "patch": "/path/to/patch.diff"}
For each mutant: scratch worktree of /repo HEAD under /tmp, apply, run the pinned tests, run the check with
VERIF_REPO=<worktree>, report caught / missed, remove the worktree.
"""
import json
import os
import subprocess
import sys
import time

PINNED = ['unittests/cargotests.py', 'unittests/optiontests.py', 'unittests/taptests.py', 'unittests/versiontests.py']


def sh(cmd, **kw):
    return subprocess.run(cmd, shell=isinstance(cmd, str), stdout=subprocess.PIPE, stderr=subprocess.STDOUT, text=True, **kw)


def main():
    spec = json.load(open(sys.argv[1]))
    tier = 'quick'
    only = None
    if '--tier' in sys.argv:
        tier = sys.argv[sys.argv.index('--tier') + 1]
    if '--only' in sys.argv:
        only = sys.argv[sys.argv.index('--only') + 1]
    rows = []
    for m in spec:
        if only and m['name'] != only:
            continue
        wt = f'/tmp/mut-{m["property"]}-{m["name"]}'
        sh(f'git -C /repo worktree remove --force {wt}')
        r = sh(f'git -C /repo worktree add --detach {wt} HEAD')
        try:
            if 'patch' in m:
                r = sh(f'git -C {wt} apply {m["patch"]}')
                if r.returncode:
                    rows.append((m['property'], m['name'], 'PATCH-FAILED', r.stdout[-200:]))
                    continue
            else:
                p = os.path.join(wt, m['file'])
                s = open(p).read()
                if m['old'] not in s:
                    rows.append((m['property'], m['name'], 'OLD-NOT-FOUND', ''))
                    continue
                open(p, 'w').write(s.replace(m['old'], m['new'], 1))
            t = sh(['/venv/bin/python', '-m', 'pytest', '-q', '-x', '-p', 'no:cacheprovider'] + PINNED, cwd=wt)
            tests_ok = t.returncode == 0
            env = dict(os.environ, VERIF_REPO=wt, VERIF_TIER=tier, VERIF_EVIDENCE_DIR='/tmp/mut-evidence')
            t0 = time.time()
            c = sh(['/verif/check', m['property'], '--tier', tier], env=env, cwd='/verif')
            dt = time.time() - t0
            mech = [l.strip()[:160] for l in c.stdout.splitlines() if l.strip().startswith('mechanism=')][:3]
            verdict = {0: 'MISSED', 1: 'caught', 3: 'inconclusive'}.get(c.returncode, f'rc={c.returncode}')
            rows.append((m['property'], m['name'], verdict, f'tests={"pass" if tests_ok else "FAIL"} {dt:.0f}s ' + ' | '.join(mech)))
            print(rows[-1], flush=True)
            if c.returncode not in (0, 1):
                print(c.stdout[-1500:])
        finally:
            sh(f'git -C /repo worktree remove --force {wt}')
    print('\n== summary')
    for r in rows:
        print(' '.join(str(x) for x in r))
    # evidence files were rewritten by mutant runs: callers should re-run the check on /repo afterwards


if __name__ == '__main__':
    main()
