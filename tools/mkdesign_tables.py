#!/venv/bin/python
"""Regenerates the generated block of DESIGN.md (section 5.3/5.4/5.5) from MANIFEST.json, evidence/, known findings
and seeded/*/meta.json, so that the document never drifts from what the machinery actually did."""
import glob
import json
import os
import re

V = '/verif'
BEGIN, END = '<!-- BEGIN GENERATED (tools/mkdesign_tables.py) -->', '<!-- END GENERATED -->'


def load_findings():
    out = []
    for p in [f'{V}/known_findings.json'] + sorted(glob.glob(f'{V}/known_findings.d/*.json')):
        try:
            out += json.load(open(p)).get('findings', [])
        except ValueError:
            pass
    return out


def short(s, n):
    s = ' '.join(str(s).split())
    return s if len(s) <= n else s[:n - 1] + '…'


def main():
    man = json.load(open(f'{V}/MANIFEST.json'))
    claimed = {c['property_id']: c for c in man['checks']}
    lines = [BEGIN, '']
    lines += ['### 5.3 Checks as registered (numbers from the committed quick-tier evidence)', '',
              '| id | level | evaluations | distinct | wall s | deciding method |', '|---|---|---|---|---|---|']
    for pid in sorted(claimed):
        c = claimed[pid]
        try:
            ev = json.load(open(f'{V}/evidence/{pid}.json'))
            cov = ev['coverage']
            row = (ev['tier'][0].upper() + ':' + str(cov['evaluations']), str(cov['distinct_nontrivial']), str(round(ev['wall_s'])))
        except Exception:
            row = ('?', '?', '?')
        lines.append(f"| {pid} | {c['level_claimed']['category']} | {row[0]} | {row[1]} | {row[2]} | {short(c.get('technique', ''), 150)} |")
    for na in man.get('not_applicable', []):
        lines.append(f"| {na['property_id']} | not claimed | | | | {short(na['reason'], 150)} |")
    fs = load_findings()
    fixed = [f for f in fs if f.get('status') == 'fixed']
    known = [f for f in fs if f.get('status') == 'known']
    lines += ['', f'### 5.4 Genuine defects found on the unchanged tree ({len(fixed)} mechanisms repaired by `fix:` commits, {len(known)} recorded as known findings)', '',
              'Repaired (each entry also lives in `known_findings.json` / `known_findings.d/` as `fixed:`; a fixed entry suppresses nothing):', '',
              '| property | commit | what failed |', '|---|---|---|']
    for f in sorted(fixed, key=lambda f: (f['property'], str(f.get('commit')))):
        lines.append(f"| {f['property']} | {f.get('commit', '?')} | {short(f.get('what', f.get('line', '')), 230)} |")
    lines += ['', 'Known findings (printed as `KNOWN-FINDING:` and suppressed by mechanism key only; any other violation of the same property is still reported):', '',
              '| property | mechanism key | what fails | why not repaired |', '|---|---|---|---|']
    for f in sorted(known, key=lambda f: (f['property'], f['mechanism'])):
        lines.append(f"| {f['property']} | `{short(f['mechanism'], 80)}` | {short(f.get('what', ''), 260)} | {short(f.get('why_not_fixed', 'upstream keeps it deliberately / not a small safe patch'), 160)} |")
    lines += ['', '### 5.5 Independently seeded breaking changes and which check catches them', '',
              'Each seed is a change produced by a sub-agent that saw only the property text; the lead re-confirmed (demo passes on the clean tree, '
              'patch applies, pinned 107 tests pass with it, demo fails with it). "caught" = the registered check exits 1 on a worktree with the patch applied.', '',
              '| seed | what it breaks / needs | result | mechanism reported |', '|---|---|---|---|']
    for d in sorted(glob.glob(f'{V}/seeded/*/meta.json')):
        m = json.load(open(d))
        sid = m['seed']
        readme = ''
        rp = os.path.join(os.path.dirname(d), 'README.md')
        if os.path.exists(rp):
            readme = open(rp).read()
        title = ''
        for l in readme.splitlines():
            if l.strip() and not l.startswith('#') or l.startswith('# '):
                title = l.strip('# ').strip()
                break
        runs = m.get('check_runs', [])
        res = m.get('detected_by', 'pending')
        mech = ''
        for r in runs:
            if r.get('verdict') == 'caught' and r.get('mechanisms'):
                mech = re.sub(r'^mechanism=', '', r['mechanisms'][0]).split(' count=')[0]
                break
        if m.get('obsolete'):
            res = 'obsolete (no longer a break after a fix: commit)'
        note = ''
        if m.get('strengthened'):
            note = ' — check strengthened: ' + m['strengthened']
        lines.append(f"| {sid} | {short(title, 170)} | {short(res, 60)}{note} | `{short(mech, 90)}` |")
    lines += ['', END]
    p = f'{V}/DESIGN.md'
    s = open(p).read()
    block = '\n'.join(lines)
    if BEGIN in s:
        s = s[:s.index(BEGIN)] + block + s[s.index(END) + len(END):]
    else:
        s = s.rstrip('\n') + '\n\n' + block + '\n'
    open(p, 'w').write(s)
    print('fixed', len(fixed), 'known', len(known), 'claimed', len(claimed))


if __name__ == '__main__':
    main()
