#!/venv/bin/python
"""Confirm an independently produced breaking change and keep it under /verif/seeded/.

usage: tools/collect_seed.py Cnn [k ...]       (reads /tmp/seed-Cnn/_out/<k>/{patch.diff,demo.py|demo.sh,README.md})
Confirms in a fresh scratch worktree of /repo HEAD: demo PASSes without the patch, the patch applies, the pinned
tests pass with it, the demo FAILs with it.  Only then copies patch.diff + demo + README.md and writes meta.json.
"""
import json
import os
import shutil
import subprocess
import sys

PINNED = ['unittests/cargotests.py', 'unittests/optiontests.py', 'unittests/taptests.py', 'unittests/versiontests.py']


def sh(cmd, **kw):
    return subprocess.run(cmd, shell=isinstance(cmd, str), stdout=subprocess.PIPE, stderr=subprocess.STDOUT, text=True, **kw)


def main():
    args = sys.argv[1:]
    wave = 1
    if args and args[0] == '--wave':
        wave = int(args[1])
        args = args[2:]
    pid = args[0]
    ks = args[1:] or ['1', '2']
    for k0 in ks:
        src = f'/tmp/seed{"" if wave == 1 else wave}-{pid}/_out/{k0}'
        k = str(int(k0) + 2 * (wave - 1))
        if not os.path.isfile(os.path.join(src, 'patch.diff')):
            print(pid, k, 'no patch.diff')
            continue
        demo = 'demo.py' if os.path.exists(os.path.join(src, 'demo.py')) else 'demo.sh'
        runner = ['/venv/bin/python'] if demo.endswith('.py') else ['sh']
        wt = f'/tmp/confirm-{pid}-{k}'
        sh(f'git -C /repo worktree remove --force {wt}')
        sh(f'git -C /repo worktree add --detach {wt} HEAD')
        ran = []
        try:
            env = dict(os.environ)
            env.pop('VERIF_REPO', None)
            d0 = sh(runner + [os.path.join(src, demo), wt], env=env, timeout=1800)
            ran.append({'cmd': f'{demo} <clean worktree>', 'rc': d0.returncode, 'tail': d0.stdout[-300:]})
            ap = sh(f'git -C {wt} apply {src}/patch.diff')
            ran.append({'cmd': 'git apply patch.diff', 'rc': ap.returncode, 'tail': ap.stdout[-300:]})
            t = sh(['/venv/bin/python', '-m', 'pytest', '-q', '-p', 'no:cacheprovider'] + PINNED, cwd=wt)
            ran.append({'cmd': 'pinned tests with patch', 'rc': t.returncode, 'tail': t.stdout.strip().splitlines()[-1] if t.stdout.strip() else ''})
            d1 = sh(runner + [os.path.join(src, demo), wt], env=env, timeout=1800)
            ran.append({'cmd': f'{demo} <patched worktree>', 'rc': d1.returncode, 'tail': d1.stdout[-400:]})
            ok = d0.returncode == 0 and ap.returncode == 0 and t.returncode == 0 and d1.returncode != 0
            print(pid, k, 'CONFIRMED' if ok else 'REJECTED', [(r['cmd'], r['rc']) for r in ran])
            if not ok:
                for r in ran:
                    print('   ', r)
                continue
            dst = f'/verif/seeded/{pid}-{k}'
            os.makedirs(dst, exist_ok=True)
            for f in ('patch.diff', demo, 'README.md'):
                if os.path.exists(os.path.join(src, f)):
                    shutil.copy(os.path.join(src, f), os.path.join(dst, f))
            readme = open(os.path.join(src, 'README.md')).read() if os.path.exists(os.path.join(src, 'README.md')) else ''
            meta = {'property': pid, 'seed': f'{pid}-{k}', 'origin': 'independent sub-agent given only the property text and a scratch worktree',
                    'needs_to_manifest': '(see README.md) ' + ' '.join(readme.split())[:600],
                    'confirmed_by_lead': ran, 'detected_by': 'pending'}
            with open(os.path.join(dst, 'meta.json'), 'w') as f:
                json.dump(meta, f, indent=1)
        finally:
            sh(f'git -C /repo worktree remove --force {wt}')


if __name__ == '__main__':
    main()
