import os
import sys
sys.path.insert(0, os.path.dirname(os.path.dirname(os.path.abspath(__file__))))
from vf import mininja  # noqa: E402
sys.exit(mininja.main(sys.argv[1:]))
