import sys
if '--version' in sys.argv:
    print('1.11.1'); sys.exit(0)
sys.exit(1)
