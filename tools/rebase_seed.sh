#!/bin/sh
# usage: tools/rebase_seed.sh <seed-id>   re-diff a seed patch (git apply -C1 / 3way) onto /repo HEAD and re-confirm the demo
sid="$1"; d=/verif/seeded/$sid; wt=/tmp/rebase-$sid
git -C /repo worktree remove --force $wt 2>/dev/null
git -C /repo worktree add --detach $wt HEAD -q || exit 2
cd $wt
if git apply -C1 $d/patch.diff 2>/dev/null || git apply -C0 --unidiff-zero $d/patch.diff 2>/dev/null || patch -p1 --fuzz=3 < $d/patch.diff >/dev/null 2>&1; then
  git diff > /tmp/rebased-$sid.diff
  demo=demo.py; [ -f $d/demo.py ] || demo=demo.sh
  /venv/bin/python -m pytest -q -p no:cacheprovider unittests/cargotests.py unittests/optiontests.py unittests/taptests.py unittests/versiontests.py 2>&1 | tail -1
  /venv/bin/python $d/$demo $wt > /tmp/rebase-demo.out 2>&1; with=$?
  git checkout -q -- .
  /venv/bin/python $d/$demo $wt > /dev/null 2>&1; without=$?
  echo "$sid: demo with patch rc=$with, without rc=$without"
  if [ $with -ne 0 ] && [ $without -eq 0 ]; then cp /tmp/rebased-$sid.diff $d/patch.diff; echo "$sid: REBASED and re-confirmed"; else echo "$sid: NOT a valid break on current HEAD"; tail -3 /tmp/rebase-demo.out; fi
else
  echo "$sid: could not rebase"
fi
cd /verif; git -C /repo worktree remove --force $wt
