#!/opt/veriftools/pyvenv/bin/python
"""Validate MANIFEST.json and every evidence file of a claimed property against the harness schemas."""
import json, sys, os, jsonschema
man = json.load(open('/verif/MANIFEST.json'))
jsonschema.validate(man, json.load(open('/root/.vp/MANIFEST.schema.json')))
es = json.load(open('/root/.vp/EVIDENCE.schema.json'))
bad = 0
for c in man['checks']:
    p = c['evidence_file']
    try:
        ev = json.load(open(p))
        jsonschema.validate(ev, es)
        cov = ev['coverage']
        print(f"{c['property_id']}: ok  tier={ev['tier']} evals={cov['evaluations']} distinct={cov['distinct_nontrivial']} wall={ev['wall_s']}s viol={ev.get('violations')} level={ev['level']}/{c['level_claimed']['category']}")
        if ev['level'] != c['level_claimed']['category']:
            print('   LEVEL MISMATCH'); bad += 1
    except Exception as e:
        print(f"{c['property_id']}: INVALID {str(e)[:200]}"); bad += 1
print('claimed', len(man['checks']), 'not_applicable', len(man.get('not_applicable', [])))
sys.exit(1 if bad else 0)
