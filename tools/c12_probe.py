#!/usr/bin/env python3
"""C12 probe: the single program every generated test runs under `meson test`.

    c12_probe.py ID [key=value ...]

It records its own lifetime in a shared event log (env C12_LOG): one JSON line per event, each written with
ONE os.write on an O_APPEND descriptor (atomic for regular files), timestamps from time.monotonic_ns()
(CLOCK_MONOTONIC: one system-wide clock, comparable between processes).

    {"id": ID, "it": MESON_TEST_ITERATION, "pid": pid, "ev": "START"|"TERM"|"TICK"|"END", "t": ns}
    (a leaked helper, see leak=, logs CSTART|CTERM|CTICK|CEND with its own pid and "ppid")

START is written after the process exists and after the signal disposition is in place; END is written before the
process exits.  The interval [START, END] (or [START, TERM], or the point START for a probe that was killed) lies
inside the true process lifetime, so an overlap of two recorded intervals is an overlap of two live processes.

Script (what the probe does) comes from key=value arguments, or - when none is given - from the JSON file named
by env C12_SCRIPT (default: c12_script.json next to the log), an object keyed by ID with the same keys:

    dur=MS[/MS...]     sleep; a '/'-separated list is indexed by iteration (last value repeats)
    rc=N[/N...]        exit status (same indexing); a negative N means: die by signal -N (default action, no core
                       file) after END has been logged - the harness then sees a signal death, not an exit status
    tap=a,b,...        print a TAP stream: ok | notok | skip | todo | bail ; 'skipall' prints "1..0 # SKIP";
                       'none' prints nothing (a TAP test program that dies before it reports anything)
    term=default|handle|ignore
                       handle: SIGTERM handler logs TERM and exits 143; ignore: handler logs TERM and sleeps on,
                       logging TICK every 20 ms from then on (proof of life after the ignored SIGTERM)
    out=N / err=N      before finishing write N bytes without any newline inside to stdout / stderr (outnl=1, the
                       default, ends them with one newline: a single very long line; outnl=0: no newline at all)
    desc=plain|hash|sharp|path
                       text of the descriptions of plain ok / not ok lines; hash/sharp contain a '#' that is no
                       SKIP/TODO directive (lines that do carry a directive keep a '#'-free description: what a
                       directive after such a description means is disputed between TAP versions)
    cap=S              hard lifetime cap in seconds (SIGALRM, default action), default 120
    xml=MODE[/MODE...] (tests declared protocol: 'gtest'; meson appends --gtest_output=xml:FILE) what happens to FILE,
                       indexed by iteration like dur=:  full: a well-formed googletest report that agrees with rc;
                       lie: a well-formed report that contradicts rc (what a stale report of an earlier, different run
                       looks like); cut: a report that stops in the middle (the program went down while writing it);
                       empty: a zero-length file; garbage: bytes that are no XML at all; none: FILE is not touched (it
                       may still be there from another iteration / invocation).  full, lie and cut write the cut-short
                       report right after START, so that a probe killed before END leaves a half-written one
    rust=K.R,K.R,...   print what a Rust libtest binary prints, one result line per item: K is the shape of the name
                       (u unit test, n nested module path, p unit test decorated "- should panic", d doctest,
                       dp / dc / dn doctest decorated "- should panic" / "- compile fail" / "- compile"), R is ok |
                       fail (FAILED) | ign (ignored) | ignr (ignored, with a reason); then the failures section and
                       the "test result:" line.  The exit status stays rc= (libtest: 101 iff some test failed)
    leak=MS            right after START fork a helper that inherits stdout/stderr (keeps the harness' pipes open),
                       logs CSTART (its own pid, "ppid": the probe), sleeps MS and logs CEND; the probe itself goes
                       on as scripted (usually: exits at once).  leakterm=default|ignore: the helper's SIGTERM
                       disposition (ignore: logs CTERM, then CTICK every 20 ms)

This file imports nothing from meson and nothing from /verif.
"""
import json
import os
import signal
import sys
import time


def helper(fd: int, tid: str, it: int, ppid: int, leak_ms: float, leakterm: str, cap: int) -> None:
    """The leaked descendant: same process group and same stdout/stderr as the probe, outlives it."""
    me = os.getpid()
    head = '{"id": %s, "it": %d, "pid": %d, "ppid": %d, "ev": "' % (json.dumps(tid), it, me, ppid)
    termed = [0]

    def ev(name: str) -> None:
        os.write(fd, (head + name + '", "t": %d}\n' % time.monotonic_ns()).encode())

    def on_term(signum, frame):  # type: ignore
        termed[0] += 1
        ev('CTERM')

    try:
        signal.alarm(max(1, cap))
        signal.signal(signal.SIGTERM, on_term if leakterm == 'ignore' else signal.SIG_DFL)
        ev('CSTART')
        end = time.monotonic_ns() + int(leak_ms * 1_000_000)
        ticks = 0
        while True:
            left = end - time.monotonic_ns()
            if left <= 0:
                break
            time.sleep(min(left / 1e9, 0.02))
            if termed[0] and ticks < 500:
                ticks += 1
                ev('CTICK')
        ev('CEND')
    finally:
        os._exit(0)


def write_file(path: str, data: bytes) -> None:
    try:
        fd = os.open(path, os.O_WRONLY | os.O_CREAT | os.O_TRUNC, 0o644)
        try:
            os.write(fd, data)
        finally:
            os.close(fd)
    except OSError:
        pass


def write_report(path: str, tid: str, passed: bool, cut: bool) -> None:
    """A googletest XML report (the layout gtest 1.1x writes); cut=True stops in the middle of the first testcase."""
    nfail = 0 if passed else 1
    stamp = '2024-01-01T00:00:00.000'
    head = ('<?xml version="1.0" encoding="UTF-8"?>\n'
            '<testsuites tests="2" failures="%d" disabled="0" errors="0" time="0.001" timestamp="%s" name="AllTests">\n'
            '  <testsuite name="Probe_%s" tests="2" failures="%d" disabled="0" skipped="0" errors="0" time="0.001" '
            'timestamp="%s">\n'
            '    <testcase name="first" file="probe.cc" line="10" status="run" result="completed" time="0." '
            % (nfail, stamp, tid, nfail, stamp))
    tail = ('timestamp="%s" classname="Probe_%s" />\n'
            '    <testcase name="second" file="probe.cc" line="20" status="run" result="completed" time="0." '
            'timestamp="%s" classname="Probe_%s"' % (stamp, tid, stamp, tid))
    if passed:
        tail += ' />\n'
    else:
        tail += ('>\n      <failure message="probe.cc:21&#x0A;Expected equality of these values:&#x0A;  1&#x0A;  2" '
                 'type=""><![CDATA[probe.cc:21\nExpected equality of these values:\n  1\n  2]]></failure>\n'
                 '    </testcase>\n')
    tail += '  </testsuite>\n</testsuites>\n'
    write_file(path, (head if cut else head + tail).encode())


_RUST_NAMES = {'u': 'tests::case_%d', 'n': 'net::proto::tests::handles_case_%d', 'p': 'tests::rejects_%d - should panic',
               'd': 'src/lib.rs - add (line %d)', 'dp': 'src/lib.rs - div (line %d) - should panic',
               'dc': 'src/lib.rs - typed::Meters (line %d) - compile fail', 'dn': 'src/net.rs - connect (line %d) - compile'}
_RUST_RES = {'ok': 'ok', 'fail': 'FAILED', 'ign': 'ignored', 'ignr': 'ignored, needs a network'}


def libtest_output(items: list) -> str:
    """What a libtest binary prints (terse=off, no --report-time) for the scripted results."""
    out = ['', 'running %d test%s' % (len(items), '' if len(items) == 1 else 's')]
    failed = []
    n = {'ok': 0, 'fail': 0, 'ign': 0}
    for i, item in enumerate(items, 1):
        kind, _, res = item.partition('.')
        name = _RUST_NAMES.get(kind, _RUST_NAMES['u']) % (i if not kind.startswith('d') else 10 * i + 3)
        out.append('test %s ... %s' % (name, _RUST_RES.get(res, 'ok')))
        n['ign' if res.startswith('ign') else res if res in n else 'ok'] += 1
        if res == 'fail':
            failed.append(name)
    if failed:
        out += ['', 'failures:', '']
        for name in failed:
            bare = name.split(' - should panic')[0].split(' - compile')[0]
            out.append('---- %s stdout ----' % bare)
            if 'should panic' in name:
                out += ['note: test did not panic as expected', '']
            elif 'compile fail' in name:
                out += ['Test compiled successfully, but it\'s marked `compile_fail`.', '']
            else:
                out += ["thread '%s' panicked at src/lib.rs:7:9:" % bare, 'assertion `left == right` failed', '']
        out += ['', 'failures:'] + ['    ' + x.split(' - should panic')[0].split(' - compile')[0] for x in failed]
    out += ['', 'test result: %s. %d passed; %d failed; %d ignored; 0 measured; 0 filtered out; finished in 0.00s'
            % ('FAILED' if failed else 'ok', n['ok'], n['fail'], n['ign']), '']
    return '\n'.join(out) + '\n'


def main() -> int:
    argv = sys.argv[1:]
    if not argv:
        sys.stderr.write('usage: c12_probe.py ID [key=value ...]\n')
        return 2
    tid = argv[0]
    logp = os.environ.get('C12_LOG')
    if not logp:
        sys.stderr.write('C12_LOG not set\n')
        return 2
    script = {}
    gtest_xml = None
    for a in argv[1:]:
        if a.startswith('--gtest_output=xml:'):
            gtest_xml = a[len('--gtest_output=xml:'):]      # injected by the harness, not part of the script
        elif '=' in a:
            k, v = a.split('=', 1)
            script[k] = v
    if not script:
        sp = os.environ.get('C12_SCRIPT') or os.path.join(os.path.dirname(logp), 'c12_script.json')
        try:
            with open(sp, encoding='utf-8') as f:
                script = {k: str(v) for k, v in json.load(f).get(tid, {}).items()}
        except (OSError, ValueError):
            script = {}
    try:
        it = int(os.environ.get('MESON_TEST_ITERATION', '1'))
    except ValueError:
        it = 1

    def pick(key: str, default: str) -> str:
        vals = str(script.get(key, default)).split('/')
        return vals[min(max(it, 1), len(vals)) - 1]

    dur_ns = int(float(pick('dur', '0')) * 1_000_000)
    rc = int(pick('rc', '0'))
    tap = script.get('tap')
    term = script.get('term', 'default')
    cap = int(script.get('cap', '120'))

    fd = os.open(logp, os.O_WRONLY | os.O_APPEND | os.O_CREAT, 0o644)
    pid = os.getpid()
    head = '{"id": %s, "it": %d, "pid": %d, "ev": "' % (json.dumps(tid), it, pid)

    def ev(name: str) -> None:
        os.write(fd, (head + name + '", "t": %d}\n' % time.monotonic_ns()).encode())

    def on_term_handle(signum, frame):  # type: ignore
        ev('TERM')
        os._exit(143)

    termed = [0]

    def on_term_ignore(signum, frame):  # type: ignore
        termed[0] += 1
        ev('TERM')

    signal.alarm(max(1, cap))
    if term == 'handle':
        signal.signal(signal.SIGTERM, on_term_handle)
    elif term == 'ignore':
        signal.signal(signal.SIGTERM, on_term_ignore)

    ev('START')
    xml_mode = pick('xml', 'none') if gtest_xml else 'none'
    if xml_mode in ('full', 'lie', 'cut'):
        write_report(gtest_xml, tid, rc == 0 if xml_mode != 'lie' else rc != 0, cut=True)
    leak_ms = float(script.get('leak', '0') or 0)
    if leak_ms > 0:
        try:
            sys.stdout.flush()
        except OSError:
            pass
        cpid = os.fork()
        if cpid == 0:
            helper(fd, tid, it, pid, leak_ms, script.get('leakterm', 'default'), cap)
    end = time.monotonic_ns() + dur_ns
    ticks = 0
    while True:
        left = end - time.monotonic_ns()
        if left <= 0:
            break
        if term == 'ignore':
            # sleep in slices; once SIGTERM has been ignored keep proving that the process is still alive
            time.sleep(min(left / 1e9, 0.02))
            if termed[0] and ticks < 500:
                ticks += 1
                ev('TICK')
        else:
            time.sleep(left / 1e9)
    # bulk output: N bytes with no newline inside (one very long line / a chunk that never ends in a newline)
    for key, fdno in (('out', 1), ('err', 2)):
        nbytes = int(script.get(key, '0') or 0)
        if nbytes > 0:
            blob = (b'.' * 1023 + b'x') * (nbytes // 1024 + 1)
            blob = blob[:nbytes] + (b'\n' if script.get('outnl', '1') == '1' else b'')
            try:
                sys.stdout.flush()
                view = memoryview(blob)
                while view:
                    view = view[os.write(fdno, view):]
            except OSError:
                pass
    desc = {'hash': 'regression for issue #12%d', 'sharp': 'C# bindings load %d',
            'path': 'dir/file_%d.c:10 (a,b) [x]'}.get(script.get('desc', 'plain'), 's%d')
    if tap is not None and tap != 'none':
        out = []
        if tap == 'skipall':
            out.append('1..0 # SKIP scripted')
        else:
            items = [x for x in tap.split(',') if x]
            n = sum(1 for x in items if x != 'bail')
            out.append('1..%d' % n)
            i = 0
            for x in items:
                if x == 'bail':
                    out.append('Bail out! scripted')
                    break
                i += 1
                if x == 'ok':
                    out.append(('ok %d - ' + desc) % (i, i))
                elif x == 'notok':
                    out.append(('not ok %d - ' + desc) % (i, i))
                elif x == 'skip':
                    out.append('ok %d - s%d # SKIP scripted' % (i, i))
                elif x == 'todo':
                    out.append('not ok %d - s%d # TODO scripted' % (i, i))
        try:
            sys.stdout.write('\n'.join(out) + '\n')
            sys.stdout.flush()
        except OSError:
            pass
    rust = script.get('rust')
    if rust is not None:
        try:
            sys.stdout.write(libtest_output([x for x in rust.split(',') if x]))
            sys.stdout.flush()
        except OSError:
            pass
    if xml_mode == 'full':
        write_report(gtest_xml, tid, rc == 0, cut=False)
    elif xml_mode == 'lie':
        write_report(gtest_xml, tid, rc != 0, cut=False)
    elif xml_mode == 'empty':
        write_file(gtest_xml, b'')
    elif xml_mode == 'garbage':
        write_file(gtest_xml, b'\x00\x01PK\x03\x04 this is no report <<< & \xff\xfe\n')
    ev('END')
    if rc < 0:
        try:
            import resource
            resource.setrlimit(resource.RLIMIT_CORE, (0, 0))
        except Exception:
            pass
        try:
            signal.signal(-rc, signal.SIG_DFL)
        except (OSError, ValueError):
            pass                # SIGKILL: disposition cannot (and need not) be set
        os.kill(pid, -rc)
        time.sleep(10)          # not reached for signals whose default action terminates
        os._exit(1)
    os._exit(rc & 0xFF)


if __name__ == '__main__':
    sys.exit(main())
