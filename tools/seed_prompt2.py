#!/venv/bin/python
"""Second-wave seed prompt: same as seed_prompt.py, plus the list of code locations that earlier seeds of this
property already modified (so that the new changes use other mechanisms). Reveals nothing about /verif's checks."""
import glob, json, re, subprocess, sys
pid = sys.argv[1]
import os
wt = f'/tmp/seed{os.environ.get("WAVE", "2")}-{pid}'
base = subprocess.run(['/verif/tools/seed_prompt.py', pid], capture_output=True, text=True).stdout.replace(f'/tmp/seed-{pid}', wt)
locs = []
for p in sorted(glob.glob(f'/verif/seeded/{pid}-*/patch.diff')):
    cur = None
    for line in open(p):
        if line.startswith('+++ b/'):
            cur = line[6:].strip()
        m = re.match(r'@@ .* @@\s*(.*)', line)
        if m and cur:
            locs.append(f'{cur}: {m.group(1).strip()[:80]}')
locs = sorted(set(locs))
extra = ("\n\nPrefer changes whose breakage needs a multi-step sequence, a fault/kill at a particular point, or two cooperating sites that each look fine alone.\n\nIMPORTANT — earlier rounds already produced changes at these locations; your two changes must be in OTHER functions "
         "and break the property through DIFFERENT mechanisms (different part of the statement where possible):\n" + '\n'.join(' * ' + l for l in locs) + '\n')
print(base.replace('Environment facts:', extra + '\nEnvironment facts:', 1))
