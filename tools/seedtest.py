#!/venv/bin/python
"""Run the registered check of a seed's property against the seeded change (scratch worktree + VERIF_REPO) and
record the outcome in seeded/<id>/meta.json.   usage: tools/seedtest.py [--tier quick|thorough] <seed-id> ..."""
import json, os, subprocess, sys, time

def sh(cmd, **kw):
    return subprocess.run(cmd, shell=isinstance(cmd, str), stdout=subprocess.PIPE, stderr=subprocess.STDOUT, text=True, **kw)

tier = 'quick'
args = sys.argv[1:]
if args and args[0] == '--tier':
    tier = args[1]; args = args[2:]
for sid in args:
    d = f'/verif/seeded/{sid}'
    meta = json.load(open(f'{d}/meta.json'))
    pid = meta.get('run_check', meta['property'])   # a few seeds break a lifecycle aspect that another property's check owns
    if meta.get('obsolete'):
        print(sid, 'obsolete, skipped'); continue
    wt = f'/tmp/seedrun-{sid}'
    sh(f'git -C /repo worktree remove --force {wt}')
    sh(f'git -C /repo worktree add --detach {wt} HEAD')
    try:
        r = sh(f'git -C {wt} apply {d}/patch.diff')
        if r.returncode:
            print(sid, 'PATCH DOES NOT APPLY', r.stdout[-200:]); continue
        env = dict(os.environ, VERIF_REPO=wt, VERIF_TIER=tier, VERIF_EVIDENCE_DIR='/tmp/mut-evidence')
        t0 = time.time()
        c = sh(['/verif/check', pid, '--tier', tier], env=env, cwd='/verif')
        dt = time.time() - t0
        mech = [l.strip()[:200] for l in c.stdout.splitlines() if l.strip().startswith('mechanism=')][:4]
        verdict = {0: 'MISSED', 1: 'caught', 3: 'inconclusive'}.get(c.returncode, f'rc={c.returncode}')
        print(sid, tier, verdict, f'{dt:.0f}s', mech[:2], flush=True)
        if c.returncode not in (0, 1):
            print(c.stdout[-800:])
        meta.setdefault('check_runs', [])
        meta['check_runs'] = [x for x in meta['check_runs'] if x.get('tier') != tier]
        meta['check_runs'].append({'cmd': f'VERIF_REPO=<worktree with patch> ./check {pid} --tier {tier}', 'tier': tier,
                                   'verdict': verdict, 'wall_s': round(dt), 'mechanisms': mech})
        if verdict == 'caught':
            meta['detected_by'] = f'./check {pid} --tier {tier}' if meta.get('detected_by', 'pending') in ('pending', 'MISSED') or 'thorough' in str(meta.get('detected_by')) and tier == 'quick' else meta['detected_by']
        elif meta.get('detected_by', 'pending') == 'pending':
            meta['detected_by'] = 'MISSED' if verdict == 'MISSED' else 'pending'
        json.dump(meta, open(f'{d}/meta.json', 'w'), indent=1)
    finally:
        sh(f'git -C /repo worktree remove --force {wt}')
