#!/venv/bin/python
"""Regenerates MANIFEST.json from the table below (kept valid at all times).
A property is claimed only when READY lists it (its check has been swept on the unchanged tree)."""
import json
import os
import sys

HERE = os.path.dirname(os.path.dirname(os.path.abspath(__file__)))

# id -> (category, technique, level text, level note, design ref)
P = {
    'C01': ('exploration', 'differential runtime monitor: generated core-language programs run by the real `meson setup`, Message:/assert/exit status compared with an independent reference interpreter; alias monitor on interpreter variables',
            'Held on the generated programs of this run (valid programs + single-fault erroneous variants); no claim beyond the sub-language generated.',
            'refmeson (my reading of Syntax.md/elementary yaml) is the oracle; CPython; fork server.', '2/C01'),
    'C02': ('exploration', 'runtime contracts on the real Parser.parse (round-trip, token conservation, span slicing, exception policy) over exhaustive token sequences to a bound, soups, mutated corpus, every byte class inside every token kind, extreme literal lengths, and the whole depth band of 33 nesting shapes (every accepted tree must also be printable)',
            'Exhaustive to the token bound stated in evidence; sampled beyond it.', 'Lexer token stream is used for the conservation check; CPython.', '2/C02'),
    'C03': ('exploration', 'argv dumper observed at the process boundary: build.ninja commands expanded by an independent ninja evaluator and run by /bin/sh, tests run by the real `meson test`; expected argv from the build definition; per-edge scope monitor (machine and project) for project/global arguments',
            'Held on the hostile argument strings x positions x wrapping modes listed in evidence.', 'mini-ninja evaluator, /bin/sh, dumper; POSIX only.', '2/C03'),
    'C04': ('exploration', 'independent Ninja manifest parser + graph invariants (rules defined, single producer, acyclic, closed inputs, reachability) on build.ninja of generated and corpus projects; write/parse agreement hook; directed probe matrices (documented build-by-default rule, extract_objects argument kinds, normalised-spelling collisions, subprojects reused after a failed optional subproject)',
            'Held on the generated/corpus configurations listed in evidence.', 'mini-ninja parser (self-tested) is trusted.', '2/C04'),
    'C05': ('exploration', 'happens-before race detection over strace-traced build steps + adversarial schedules executed by a reference ninja executor + hermetic per-edge replay',
            'One traced build decides all schedules under the stated assumption; sampled schedules and replays back it.', 'strace, gcc, mini-ninja executor; steps are functions of files read + argv.', '2/C05'),
    'C06': ('exploration', 'perturbation of nondeterminism sources (PYTHONHASHSEED, env order, readdir order, build-dir history) with byte comparison of generated files; histories include killed-then-recovered configurations; mtime/inode monitor over replace_if_different outputs plus a fixed list of outputs on no-change reconfigure; wrap directories under several listing orders; dependency-policy histories compared with a fresh setup; repository test corpus',
            'Held on the projects x perturbations listed in evidence.', 'same absolute paths across runs; gcc present.', '2/C06'),
    'C07': ('exploration', 'exhaustive source-subset enumeration through the real `meson setup` with distinct value per source (observed value names the winning source); validity invariant hook at coredata.save; command-line spellings, argument orders and entry points (setup / configure / reconfigure) as factors',
            'Exhaustive over 2^4 / 2^8 source subsets for the option kinds listed in evidence.', 'refoptions precedence table = Builtin-options.md.', '2/C07'),
    'C08': ('exploration', 'history + executable model: random lifecycle histories, each command a separate process, effective values read back through the real coredata.load/get_value_for and compared with a reference lifecycle model (option files, default_options, late subproject, recorded command line) after every step; stratified edit kinds, hostile value alphabet, builtin options given once, three failure stages, directed and literal scripts',
            'Held on the histories of this run.', 'refoptions lifecycle model follows the property text.', '2/C08'),
    'C09': ('fault_enumeration', 'SIGKILL fault injection at every Python-level file-system mutation (plus torn writes) of each mutating command, follow-up `meson setup [--reconfigure]` and a later `--wipe` as oracle (exit status, option values before-or-target, every state/intro file readable); strace cross-check of the op list',
            'Every enumerated kill point of the listed commands x histories x directory-listing orders is executed, except that runs of >12 identical (file, op) writes are thinned and a wall-clock budget may leave points unexplored (both counted in the evidence; exhaustive=false).', 'kill = SIGKILL (page cache survives); rename atomicity assumed.', '2/C09'),
    'C10': ('exploration', 'decision-table differential monitor through the real `meson setup` (distinct version per provider) + online trace checker "unpack never on unverified bytes" with fault injection at each acquisition step; second-process interleavings held by marker files between unpack and patch',
            'Covers the factor cross product listed in evidence; integrity classes x locations x fault points.', 'refdeps table = my reading of the cited docs; pkg-config only; file:// URLs.', '2/C10'),
    'C11': ('exploration', 'audit-hook containment monitor inside `meson install` + before/after snapshots of DESTDIR and everything else + expected tree from the generator; install/reinstall/uninstall/dry-run/aborted/killed histories; install plan and installed map observed after setup (optional subprojects that fail)',
            'Held on the projects x histories of this run.', 'runs as root; audit hook sees Python-level mutations (strace in thorough).', '2/C11'),
    'C12': ('exploration', 'offline interval checker over start/end event logs written by probe test programs, tallies recomputed from testlog.json vs summary vs exit status; probes speak exitcode, tap, gtest (report kinds) and rust (libtest) protocols; in-process kill/timeout monitors; full --slice sweeps',
            'Each run is one interleaving; K runs with adversarial durations.', 'probe intervals lie inside true process lifetimes; monotonic clock.', '2/C12'),
    'C13': ('exploration', 'shadow-model monitor: eager reference list updated on every hooked CompilerArgs operation and compared at every read; exhaustive op sequences to a bound + random + inside real setup runs (second increments-only shadow); end-to-end ARGS/LINK_ARGS of build.ninja vs the eager meaning, incl. what pkg-config itself prints',
            'Exhaustive to the sequence bound in evidence; random beyond.', 'refargs = property text.', '2/C13'),
    'C14': ('exploration', 'runtime contracts on do_conf_str/configure_file against an independent left-to-right placeholder scanner; copy-through and no-rescan obligations; sequences of configure_file formats on one configuration_data object with read-back; build-directory history with planted leftover files (fresh vs dirty directory)',
            'Held on the generated templates x dictionaries of this run.', 'escape semantics pinned by upstream fixture config6.h.in.', '2/C14'),
    'C15': ('exploration', 'relational monitors between artefacts of one configuration: intro-*.json vs build.ninja (independent parser) vs argv/env seen by tests vs installed tree vs get_option messages vs files opened (audit hook); environment and argv of every execution under test setups and --repeat; real `meson install --destdir` against the plan',
            'Held on the generated/corpus projects of this run.', 'mini-ninja parser; dumper.', '2/C15'),
    'C16': ('exploration', 'contracts on the real Formatter.format (parses, same tree modulo documented normalisations via independent parser, comment conservation, idempotence) over generated + mutated corpus programs x formatter configs; CLI layer (check-only / inplace / multi-file invocations vs single-file runs) and pristine-process history probe',
            'Held on programs x configurations of this run.', 'refmeson parser.', '2/C16'),
    'C17': ('exploration', 'differential monitor around the real `meson rewrite`: textual locality diff + reference evaluation of untouched arguments before/after + round-trip laws + batch-vs-stepwise; directed probe families (lists shared through indirection, template-identical build files addressed by target id)',
            'Held on generated projects x commands of this run.', 'refmeson evaluator.', '2/C17'),
    'C18': ('exploration', 'differential monitor of TAPParser against an independent TAP state machine over exhaustive line sequences to a bound + random streams; never-raises and monotone-counter contracts on parse_line; the same differential monitor on parse_async; verdict fold through the real `meson test` incl. death by signal',
            'Exhaustive to the line bound in evidence.', 'reftap = TAP 12/13 spec + property text.', '2/C18'),
    'C19': ('exploration', 'order/soundness axioms evaluated as contracts on the real Version/version_compare/Range over an exhaustive finite version domain',
            'Exhaustive over the domain in evidence (pairs, triples on subdomain).', 'axioms only; no reference implementation.', '2/C19'),
    'C20': ('exploration', 'differential monitor against an independent Cargo semver matcher and cfg evaluator over exhaustive grids; exception-type contracts',
            'Exhaustive over the requirement x version grid and cfg depth bound in evidence.', 'refsemver/refcfg = Cargo reference + pinned deviations.', '2/C20'),
}

READY_FILE = os.path.join(HERE, 'tools', 'ready.txt')


def main() -> None:
    ready = []
    if os.path.exists(READY_FILE):
        ready = [l.strip() for l in open(READY_FILE) if l.strip() and not l.startswith('#')]
    checks = []
    na = []
    for pid, (cat, tech, text, note, ref) in P.items():
        if pid in ready and os.path.exists(os.path.join(HERE, 'vf', 'checks', pid.lower() + '.py')):
            checks.append({
                'property_id': pid,
                'quick_cmd': f'./check {pid} --tier quick',
                'thorough_cmd': f'./check {pid} --tier thorough',
                'evidence_file': f'/verif/evidence/{pid}.json',
                'replay_cmd_template': f'./check {pid} --replay {{path}}',
                'engine': 'vf',
                'level_claimed': {'category': cat, 'text': text, 'design_ref': 'DESIGN.md ' + ref},
                'level_note': note,
                'technique': tech,
            })
        else:
            na.append({'property_id': pid, 'reason': 'check not built yet in this session (runtime monitoring applies; see DESIGN.md ' + ref + ')'})
    m = {
        'version': 1,
        'setup_cmd': 'sh ./setup.sh',
        'hooks': {
            'guard': 'MESON_VERIF',
            'enable': 'no source hooks: monitors are applied from the harness by wrapping attributes of the imported mesonbuild modules (fork server) or via PYTHONPATH=/verif/vf/inject sitecustomize when MESON_VERIF=1',
            'baseline_off_cmd': 'cd /repo && env -u MESON_VERIF /venv/bin/python -m pytest -ra -q -p no:cacheprovider --timeout=900 --continue-on-collection-errors',
            'source_commits': [],
            'add_only': True,
        },
        'engines': [{'name': 'vf', 'path': '/verif/vf', 'serves_properties': sorted(c['property_id'] for c in checks),
                     'kind_free_text': 'runtime monitors (contracts, shadow models, trace checkers, fault injection) around the real mesonbuild code; mini-ninja reference executor'}],
        'checks': checks,
        'notes': 'All verdicts are "held on the executions listed in evidence", never proofs. known_findings.json lists genuine defects keyed by mechanism.',
        'not_applicable': na,
    }
    with open(os.path.join(HERE, 'MANIFEST.json'), 'w') as f:
        json.dump(m, f, indent=1)
        f.write('\n')
    print('claimed:', [c['property_id'] for c in checks])


if __name__ == '__main__':
    main()
