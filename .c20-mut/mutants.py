"""Apply mutant <name> to worktree <dir> (development helper; removed before hand-off)."""
import sys
V = 'mesonbuild/cargo/version.py'
C = 'mesonbuild/cargo/cfg.py'
M = {
 # ---- DESIGN "M:" list
 'M1-tilde-x-bumps-minor': (V, "            if semver.specified_count >= 2:\n                nextver = semver.next_ver(1)\n            else:\n                nextver = semver.next_ver(0)",
                               "            nextver = semver.next_ver(1)"),
 'M2-caret-00z-bumps-minor': (V, "            nextver = semver.next_ver(bump_idx)\n            out.append((operator.lt, nextver))",
                                 "            if bump_idx == 2:\n                bump_idx = 1\n            nextver = semver.next_ver(bump_idx)\n            out.append((operator.lt, nextver))"),
 'M3-le-partial-not-bumped': (V, "            nextver = semver.next_ver(semver.specified_count - 1)\n            out.append((operator.lt, nextver))",
                                 "            out.append((operator.le, semver))"),
 'M4-int-above-str': (V, "return comparator(theirs_is_int, ours_is_int)", "return comparator(ours_is_int, theirs_is_int)"),
 'M5-all-empty-false': (C, "        return all(_eval_cfg(i, cfgs) for i in ir.args)", "        return bool(ir.args) and all(_eval_cfg(i, cfgs) for i in ir.args)"),
 'M6-accept-all-a-b': (C, "            if token is TokenType.RPAREN:\n                break\n            assertToken(TokenType.COMMA, '\")\" or \",\"')",
                          "            if token is TokenType.RPAREN:\n                break\n            if token is TokenType.IDENTIFIER:\n                args.append(Identifier(value))\n                (token, value), _ = next(ast)\n                if token is TokenType.RPAREN:\n                    break\n            assertToken(TokenType.COMMA, '\")\" or \",\"')"),
 'M7-not-two-args': (C, "        arg = _parse(ast)\n        (token, value), _ = next(ast)\n        assertToken(TokenType.RPAREN, '\")\"')",
                        "        arg = _parse(ast)\n        (token, value), _ = next(ast)\n        if token is TokenType.COMMA:\n            _parse(ast)\n            (token, value), _ = next(ast)\n        assertToken(TokenType.RPAREN, '\")\"')"),
 # ---- own, chosen to survive unittests/cargotests.py
 'S1-gate-first-comparator-only': (V, "        accept_prerelease = accept_prerelease or semver.has_prerelease",
                                      "        if not out:\n            accept_prerelease = semver.has_prerelease"),
 'S2-build-metadata-digits-kept': (V, r"|(\+.*)')", r"|(\+[A-Za-z].*)')"),
 'S3-le-operator-is-lt': (V, "            return self.__cmp(other._v, operator.le)", "            return self.__cmp(other._v, operator.lt)"),
 'S4-trailing-text-accepted': (C, "    if next(ast_i, None) is not None:\n        raise MesonException('trailing text after cfg expression')\n", ""),
 'S5-tilde-major0-bumps-minor': (V, "            if semver.specified_count >= 2:\n                nextver = semver.next_ver(1)",
                                    "            if semver.specified_count >= 2 or semver._v[0] == 0:\n                nextver = semver.next_ver(1)"),
 'S6-lexer-only-space-is-blank': (C, "        if s.isspace() or s in", "        if s == ' ' or s in"),
 'S7-equal-unset-is-empty': (C, "        return cfgs.get(ir.lhs.value) == ir.rhs.value", "        return cfgs.get(ir.lhs.value, '') == ir.rhs.value"),
 'S8-gt-partial-like-cargo': (V, "        elif op == '>':\n            out.append((operator.gt, semver))",
                                 "        elif op == '>':\n            if semver.specified_count == 2:\n                out.append((operator.ge, semver.next_ver(1)))\n            else:\n                out.append((operator.gt, semver))"),
 'S9-caret-prerelease-lower-bound-dropped': (V, "            # Bump the leftmost non-zero major/minor/patch component\n            out.append((operator.ge, semver))",
                                                "            # Bump the leftmost non-zero major/minor/patch component\n            out.append((operator.ge, SemVer(list(semver._v[:3]))))"),
 'S11-eq-ignores-prerelease': (V, "        elif op == '=':\n            out.append((operator.eq, semver))",
                                  "        elif op == '=':\n            out.append((operator.ge, semver))\n            out.append((operator.lt, semver.next_ver(2)))"),
 'S12-comma-third-comparator': (V, "    for ver in cargo_ver.split(','):", "    for ver in cargo_ver.split(',', 1):"),
}
name, wt = sys.argv[1], sys.argv[2]
f, old, new = M[name]
p = f'{wt}/{f}'
s = open(p).read()
assert s.count(old) == 1, (name, s.count(old))
open(p, 'w').write(s.replace(old, new))
