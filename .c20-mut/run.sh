#!/bin/sh
# usage: run.sh <mutant> [tier]
m="$1"; tier="${2:-quick}"; wt="/tmp/wt-C20-$m"
git -C /repo worktree add --detach "$wt" >/dev/null 2>&1 || exit 9
/venv/bin/python /verif/.c20-mut/mutants.py "$m" "$wt" || { git -C /repo worktree remove --force "$wt"; exit 8; }
( cd "$wt" && /venv/bin/python -m pytest -q -p no:cacheprovider unittests/cargotests.py 2>&1 | tail -1 ) > "/verif/.c20-mut/$m.pytest"
VERIF_REPO="$wt" VERIF_JOBS=4 /verif/check C20 --tier "$tier" > "/verif/.c20-mut/$m.$tier.log" 2>&1
rc=$?
git -C /repo worktree remove --force "$wt"
echo "$m tier=$tier exit=$rc pinned: $(cat /verif/.c20-mut/$m.pytest)"
grep -m3 "mechanism=" "/verif/.c20-mut/$m.$tier.log" | cut -c1-220
